"""E4: statement-level CFG for Python function bodies (stdlib ast only).

Nodes: CFGNode(kind, ast) with kinds: entry, exit, stmt, test, for_iter, for_next, raise_exit
Edges: (src, dst, label) with label None | ('T', expr) | ('F', expr) | ('exc',)
"""
import ast


class CFGNode:
    __slots__ = ('id', 'kind', 'ast', 'succ', 'pred', 'loop')
    def __init__(self, id, kind, node=None):
        self.id, self.kind, self.ast = id, kind, node
        self.succ, self.pred = [], []
        self.loop = None
    @property
    def lineno(self):
        return getattr(self.ast, 'lineno', 0)
    def __repr__(self):
        return '<%d %s L%s>' % (self.id, self.kind, self.lineno)


class CFG:
    def __init__(self, fn):
        self.fn = fn
        self.nodes = []
        self.entry = self.new('entry')
        self.exit = self.new('exit')          # normal return / fall off end
        self.raise_exit = self.new('raise_exit')
        self.loop_stack = []                  # (continue_target, break_targets list)
        self.try_stack = []                   # handler entry nodes
        frontier = self.build_block(fn.body, [(self.entry, None)])
        for n, lab in frontier: self.edge(n, self.exit, lab)

    def new(self, kind, node=None):
        n = CFGNode(len(self.nodes), kind, node); self.nodes.append(n); return n

    def edge(self, a, b, label=None):
        a.succ.append((b, label)); b.pred.append((a, label))

    def connect(self, frontier, node):
        for n, lab in frontier: self.edge(n, node, lab)

    def build_block(self, stmts, frontier):
        for s in stmts:
            if not frontier:    # unreachable code
                break
            frontier = self.build_stmt(s, frontier)
        return frontier

    def build_stmt(self, s, frontier):
        if isinstance(s, ast.If):
            t = self.new('test', s.test); self.connect(frontier, t)
            self.exc_edges(t)
            body = self.build_block(s.body, [(t, ('T', s.test))])
            orelse = self.build_block(s.orelse, [(t, ('F', s.test))]) if s.orelse else [(t, ('F', s.test))]
            return body + orelse
        if isinstance(s, ast.While):
            t = self.new('test', s.test); self.connect(frontier, t)
            t.loop = s
            breaks = []
            self.loop_stack.append((t, breaks))
            body = self.build_block(s.body, [(t, ('T', s.test))])
            self.loop_stack.pop()
            self.connect(body, t)
            out = list(breaks)
            const_true = isinstance(s.test, ast.Constant) and bool(s.test.value)
            if not const_true:
                orelse = self.build_block(s.orelse, [(t, ('F', s.test))]) if s.orelse else [(t, ('F', s.test))]
                out += orelse
            return out
        if isinstance(s, ast.For):
            it = self.new('for_iter', s); self.connect(frontier, it)
            self.exc_edges(it)
            nx = self.new('for_next', s); self.edge(it, nx)
            nx.loop = s
            breaks = []
            self.loop_stack.append((nx, breaks))
            body = self.build_block(s.body, [(nx, ('T', None))])
            self.loop_stack.pop()
            self.connect(body, nx)
            orelse = self.build_block(s.orelse, [(nx, ('F', None))]) if s.orelse else [(nx, ('F', None))]
            return breaks + orelse
        if isinstance(s, ast.Break):
            n = self.new('stmt', s); self.connect(frontier, n)
            self.loop_stack[-1][1].append((n, None)); return []
        if isinstance(s, ast.Continue):
            n = self.new('stmt', s); self.connect(frontier, n)
            self.edge(n, self.loop_stack[-1][0]); return []
        if isinstance(s, ast.Return):
            n = self.new('stmt', s); self.connect(frontier, n)
            self.exc_edges(n)
            self.edge(n, self.exit); return []
        if isinstance(s, ast.Raise):
            n = self.new('stmt', s); self.connect(frontier, n)
            if self.try_stack:
                for h in self.try_stack[-1]: self.edge(n, h, ('exc',))
            else:
                self.edge(n, self.raise_exit)
            return []
        if isinstance(s, ast.Try):
            handlers = [self.new('handler', h) for h in s.handlers]
            self.try_stack.append(handlers)
            body = self.build_block(s.body, frontier)
            self.try_stack.pop()
            body = self.build_block(s.orelse, body) if s.orelse else body
            out = list(body)
            for hn, h in zip(handlers, s.handlers):
                out += self.build_block(h.body, [(hn, None)])
            if s.finalbody:
                out = self.build_block(s.finalbody, out)
            return out
        if isinstance(s, ast.With):
            n = self.new('stmt', s); self.connect(frontier, n); self.exc_edges(n)
            return self.build_block(s.body, [(n, None)])
        if isinstance(s, ast.Assert):
            t = self.new('test', s.test); self.connect(frontier, t)
            self.edge(t, self.raise_exit, ('F', s.test))
            return [(t, ('T', s.test))]
        if isinstance(s, (ast.FunctionDef, ast.ClassDef)):
            n = self.new('def', s); self.connect(frontier, n); return [(n, None)]
        # simple statements
        n = self.new('stmt', s); self.connect(frontier, n)
        self.exc_edges(n)
        return [(n, None)]

    def exc_edges(self, n):
        # only model exceptional flow into enclosing handlers (calls may raise)
        if self.try_stack:
            for h in self.try_stack[-1]: self.edge(n, h, ('exc',))


def solve_forward(cfg, init, transfer, refine, join, bottom=None):
    """generic worklist solver.  state_in[node]; transfer(node, state)->state ; refine(label, state)->state|None"""
    IN = {cfg.entry.id: init}
    work = [cfg.entry]
    while work:
        n = work.pop()
        out = transfer(n, IN[n.id])
        for (m, lab) in n.succ:
            s = refine(lab, out) if lab is not None else out
            if s is None: continue
            if m.id not in IN:
                IN[m.id] = s; work.append(m)
            else:
                j = join(IN[m.id], s)
                if j != IN[m.id]:
                    IN[m.id] = j; work.append(m)
    return IN


