"""E6: abstract boolean path executor.

Interprets the syntax tree of a region (function body or loop body) over opaque atoms: every leaf condition is an atom
keyed by its version-resolved source text; all ordering comparisons of one operand pair share one three-valued atom
(LT/EQ/GT), a pair only ever compared with ==/!= in the region is a two-valued atom.  Forks on each atom the first time a
path consults it, propagates constants / booleans / symbolic texts through locals and self.attr stores, runs loops for
0..k iterations (a path that would iterate again is cut with outcome 'again'), and records an event trace.  The result is
the decision table of the region: valuation -> events.  No repository code is executed.
"""
import ast

from .program import AnalysisError

RELOAD = {'read', 'refresh', 'read_left', 'read_right', 'read_child', 'read_parent'}


class Event:
    __slots__ = ('kind', 'text', 'node', 'name', 'recv', 'args')

    def __init__(self, kind, text, node=None, name=None, recv=None, args=None):
        self.kind, self.text, self.node, self.name, self.recv, self.args = kind, text, node, name, recv, args

    @property
    def line(self):
        return getattr(self.node, 'lineno', 0)

    @property
    def var(self):
        return self.recv.split('#')[0] if self.recv else None

    def __repr__(self):
        return '%s:%s' % (self.kind, self.text)


def canon_form(coefs):
    """canonical key of a linear form (no constant term): sorted items, leading coefficient positive -> (key, sign)"""
    items = sorted((k, v) for k, v in coefs.items() if v != 0)
    if not items:
        return (), 1
    sign = 1 if items[0][1] > 0 else -1
    return tuple((k, v * sign) for k, v in items), sign


def fmt_form(key):
    out = []
    for k, v in key:
        out.append(('%s' % k) if v == 1 else ('-%s' % k if v == -1 else '%d*%s' % (v, k)))
    return ' + '.join(out).replace('+ -', '- ')


class Row:
    def __init__(self, val, order, events, outcome, lin=None, src=None):
        self.val, self.order, self.events, self.outcome = val, order, events, outcome
        self.lin = lin or {}
        self.src = src or {}

    def by_src(self, *subs, kinds=('EQ:', 'ORD:', 'truthy:', 'isnone:', 'LIN:')):
        """[(key, value)] of atoms whose key or source condition text mentions all substrings"""
        out = []
        for k, v in self.val.items():
            if not k.startswith(tuple(kinds)):
                continue
            t = k + ' || ' + self.src.get(k, '')
            if all(x in t for x in subs):
                out.append((k, v))
        return out

    def lin_known(self, coefs, op, c):
        """is `sum(coefs[s]*s) op c` known on this row? -> True / False / None   (op in '<', '<=', '>', '>=', '==')"""
        key, sign = canon_form(coefs)
        lo, hi = self.lin.get(key, (None, None))
        if sign < 0:
            op = {'<': '>', '<=': '>=', '>': '<', '>=': '<=', '==': '=='}[op]
            c = -c
        if op == '<':
            op, c = '<=', c - 1
        if op == '>':
            op, c = '>=', c + 1
        if op == '<=':
            if hi is not None and hi <= c:
                return True
            if lo is not None and lo > c:
                return False
        elif op == '>=':
            if lo is not None and lo >= c:
                return True
            if hi is not None and hi < c:
                return False
        elif op == '==':
            if lo is not None and lo == hi == c:
                return True
            if (lo is not None and c < lo) or (hi is not None and c > hi):
                return False
        return None

    def calls(self, name=None, recv=None):
        return [e for e in self.events if e.kind == 'call' and (name is None or e.name == name or (isinstance(name, (set, tuple, list)) and e.name in name))
                and (recv is None or e.recv == recv)]

    def has(self, kind, name=None):
        return any(e.kind == kind and (name is None or e.name == name) for e in self.events)

    def atoms(self, prefix=None, contains=None):
        return {k: v for k, v in self.val.items() if (prefix is None or k.startswith(prefix)) and (contains is None or contains in k)}

    def ord(self, a, b):
        """relation of text a to text b ('LT'|'EQ'|'GT') if this row decided it, else None"""
        swap = a > b
        lo, hi = (b, a) if swap else (a, b)
        v = self.val.get('ORD:%s ? %s' % (lo, hi))
        if v is None:
            e = self.val.get('EQ:%s == %s' % (lo, hi))
            if e is True:
                return 'EQ'
            if e is False:
                return 'NE'
            return None
        return {'LT': 'GT', 'GT': 'LT', 'EQ': 'EQ'}[v] if swap else v

    def show(self):
        return '[%s] -> %s (%s)' % (', '.join('%s=%s' % (k, self.val[k]) for k in self.order),
                                    ' ; '.join(repr(e) for e in self.events), self.outcome)


class State:
    def __init__(self):
        self.val = {}
        self.order = []
        self.env = {}
        self.ver = {}
        self.events = []
        self.lin = {}          # canonical linear form -> (lo, hi) inclusive integer bounds (None = unbounded)
        self.src = {}          # atom key -> source text of the condition that consulted it first

    def clone(self):
        s = State()
        s.lin = dict(self.lin)
        s.src = dict(self.src)
        s.val = dict(self.val)
        s.order = list(self.order)
        s.env = dict(self.env)
        s.ver = dict(self.ver)
        s.events = list(self.events)
        return s

    def bump(self, name):
        self.ver[name] = self.ver.get(name, 0) + 1
        self.env.pop(name, None)


class PathBudget(AnalysisError):
    pass


class ABPE:
    def __init__(self, loop_iters=1, max_paths=60000, mutator_names=(), keep=None, const_resolver=None):
        self.const_resolver = const_resolver
        self.loop_iters = loop_iters
        self.max_paths = max_paths
        self.paths = 0
        self.mutator_names = set(mutator_names)
        self.keep = keep
        self.eq_only = set()

    # ---------------------------------------------------------- pre-scan: operand pairs compared with ==/!= only
    def prescan(self, stmts):
        ordered = set()
        eqs = set()
        for s in stmts:
            for n in ast.walk(s):
                if isinstance(n, ast.Compare) and len(n.ops) == 1:
                    key = self._pair_names(n.left, n.comparators[0])
                    if isinstance(n.ops[0], (ast.Lt, ast.Gt, ast.LtE, ast.GtE)):
                        ordered.add(key)
                    elif isinstance(n.ops[0], (ast.Eq, ast.NotEq)):
                        eqs.add(key)
        self.eq_only = eqs - ordered

    def _pair_names(self, a, b):
        return tuple(sorted((ast.unparse(a), ast.unparse(b))))

    # ---------------------------------------------------------- symbolic text
    def sym(self, e, st):
        if isinstance(e, ast.Name):
            v = st.env.get(e.id)
            if v is not None:
                if v[0] in ('sym', 'lin'):
                    return v[1]
                return repr(v[1])
            n = st.ver.get(e.id, 0)
            if n == 0 and self.const_resolver is not None:
                c = self.const_resolver(e.id)
                if c is not None and isinstance(c[0], (str, bytes, int)) and not isinstance(c[0], bool):
                    return repr(c[0])
            return e.id if n == 0 else '%s#%d' % (e.id, n)
        if isinstance(e, ast.Constant):
            return repr(e.value)
        if isinstance(e, ast.Attribute):
            full = self._attr_key(e)
            if full is not None and full in st.env:
                v = st.env[full]
                return v[1] if v[0] in ('sym', 'lin') else repr(v[1])
            if full is not None and st.ver.get(full):
                return '%s#%d' % (full, st.ver[full])
            if isinstance(e.value, ast.Name):
                return '%s.%s' % (self.ref(e.value.id, st), e.attr)     # objects are identified by their variable
            return '%s.%s' % (self.sym(e.value, st), e.attr)
        if isinstance(e, ast.Call):
            args = [self.sym(a, st) for a in e.args] + ['%s=%s' % (k.arg, self.sym(k.value, st)) for k in e.keywords]
            f = e.func
            if isinstance(f, ast.Attribute) and isinstance(f.value, ast.Name):
                return '%s.%s(%s)' % (self.ref(f.value.id, st), f.attr, ', '.join(args))
            return '%s(%s)' % (self.sym(e.func, st), ', '.join(args))
        if isinstance(e, ast.BinOp):
            return '(%s %s %s)' % (self.sym(e.left, st), type(e.op).__name__, self.sym(e.right, st))
        if isinstance(e, ast.Subscript):
            return '%s[%s]' % (self.sym(e.value, st), self.sym(e.slice, st))
        if isinstance(e, (ast.Tuple, ast.List)):
            return '(%s)' % ', '.join(self.sym(x, st) for x in e.elts)
        if isinstance(e, ast.UnaryOp):
            return '%s(%s)' % (type(e.op).__name__, self.sym(e.operand, st))
        if isinstance(e, ast.Slice):
            return '%s:%s' % (self.sym(e.lower, st) if e.lower else '', self.sym(e.upper, st) if e.upper else '')
        if isinstance(e, ast.IfExp):
            return '(%s if %s else %s)' % (self.sym(e.body, st), self.sym(e.test, st), self.sym(e.orelse, st))
        try:
            return ast.unparse(e)
        except Exception:
            return '<?>'

    def ref(self, name, st):
        n = st.ver.get(name, 0)
        return name if n == 0 else '%s#%d' % (name, n)

    def _attr_key(self, e):
        if isinstance(e, ast.Attribute) and isinstance(e.value, ast.Name) and e.value.id == 'self':
            return 'self.' + e.attr
        return None

    # ---------------------------------------------------------- atoms
    def atom(self, key, st, domain=(True, False), src=None):
        if key in st.val:
            yield st.val[key], st
            return
        if src is not None:
            st.src[key] = src
        for i, v in enumerate(domain):
            s2 = st if i == len(domain) - 1 else st.clone()
            s2.val[key] = v
            s2.order.append(key)
            yield v, s2

    def const(self, e, st):
        if isinstance(e, ast.Constant):
            return (e.value,)
        if isinstance(e, ast.Name):
            v = st.env.get(e.id)
            if v is not None and v[0] in ('const', 'bool'):
                return (v[1],)
            if v is None and self.const_resolver is not None and not st.ver.get(e.id):
                c = self.const_resolver(e.id)
                if c is not None:
                    return c
        k = self._attr_key(e)
        if k is not None:
            v = st.env.get(k)
            if v is not None and v[0] in ('const', 'bool'):
                return (v[1],)
        if isinstance(e, ast.UnaryOp) and isinstance(e.op, ast.USub):
            c = self.const(e.operand, st)
            if c is not None and isinstance(c[0], (int, float)):
                return (-c[0],)
        return None

    # ---------------------------------------------------------- linear integer forms
    def lin(self, e, st):
        """(coefs, const, arithmetic?) of an integer-like expression, or None"""
        if isinstance(e, ast.Constant):
            if isinstance(e.value, int) and not isinstance(e.value, bool):
                return {}, e.value, True
            return None
        if isinstance(e, ast.Name) or self._attr_key(e) is not None:
            key = e.id if isinstance(e, ast.Name) else self._attr_key(e)
            v = st.env.get(key)
            if v is not None:
                if v[0] == 'const':
                    if isinstance(v[1], int) and not isinstance(v[1], bool):
                        return {}, v[1], True
                    return None
                if v[0] == 'bool':
                    return None
                if v[0] == 'lin':
                    return dict(v[2]), v[3], True
                return {v[1]: 1}, 0, False
            return {self.sym(e, st): 1}, 0, False
        if isinstance(e, ast.BinOp) and isinstance(e.op, (ast.Add, ast.Sub)):
            a, b = self.lin(e.left, st), self.lin(e.right, st)
            if a is None or b is None:
                return None
            sgn = 1 if isinstance(e.op, ast.Add) else -1
            co = dict(a[0])
            for k, v in b[0].items():
                co[k] = co.get(k, 0) + sgn * v
            # only integer arithmetic: at least one side must involve an int constant (bytes/str concatenation is not linear)
            return co, a[1] + sgn * b[1], (a[2] or b[2])
        if isinstance(e, ast.BinOp) and isinstance(e.op, ast.Mult):
            a, b = self.lin(e.left, st), self.lin(e.right, st)
            if a is not None and b is not None:
                if not a[0]:
                    return {k: v * a[1] for k, v in b[0].items()}, a[1] * b[1], True
                if not b[0]:
                    return {k: v * b[1] for k, v in a[0].items()}, a[1] * b[1], True
            return None
        if isinstance(e, ast.UnaryOp) and isinstance(e.op, ast.USub):
            a = self.lin(e.operand, st)
            if a is None:
                return None
            return {k: -v for k, v in a[0].items()}, -a[1], True
        if isinstance(e, (ast.Call, ast.Attribute, ast.Subscript)):
            return {self.sym(e, st): 1}, 0, False
        return None

    def lin_compare(self, la, lb, op, st):
        co = dict(la[0])
        for k, v in lb[0].items():
            co[k] = co.get(k, 0) - v
        c0 = la[1] - lb[1]
        key, sign = canon_form(co)
        opn = {ast.Lt: '<', ast.LtE: '<=', ast.Gt: '>', ast.GtE: '>=', ast.Eq: '==', ast.NotEq: '!='}[type(op)]
        # F*sign (op) -c0   with F = canonical form
        if not key:
            r = {'<': 0 < -c0, '<=': 0 <= -c0, '>': 0 > -c0, '>=': 0 >= -c0, '==': 0 == -c0, '!=': 0 != -c0}[opn]
            yield r, st
            return
        k = -c0
        if sign < 0:
            opn = {'<': '>', '<=': '>=', '>': '<', '>=': '<=', '==': '==', '!=': '!='}[opn]
            k = -k
        neg = False
        if opn == '!=':
            opn, neg = '==', True
        if opn == '<':
            opn, k = '<=', k - 1
        if opn == '>':
            opn, k = '>=', k + 1
        lo, hi = st.lin.get(key, (None, None))
        name = 'LIN:%s %s %d' % (fmt_form(key), opn, k)

        def emit(b, s2):
            return ((not b) if neg else b), s2
        if opn == '<=':
            if hi is not None and hi <= k:
                yield emit(True, st)
                return
            if lo is not None and lo > k:
                yield emit(False, st)
                return
            s2 = st.clone()
            s2.lin[key] = (lo, k)
            s2.val[name] = True
            s2.order.append(name)
            yield emit(True, s2)
            st.lin[key] = (k + 1, hi)
            st.val[name] = False
            st.order.append(name)
            yield emit(False, st)
        elif opn == '>=':
            if lo is not None and lo >= k:
                yield emit(True, st)
                return
            if hi is not None and hi < k:
                yield emit(False, st)
                return
            s2 = st.clone()
            s2.lin[key] = (k, hi)
            s2.val[name] = True
            s2.order.append(name)
            yield emit(True, s2)
            st.lin[key] = (lo, k - 1)
            st.val[name] = False
            st.order.append(name)
            yield emit(False, st)
        else:
            if lo is not None and lo == hi == k:
                yield emit(True, st)
                return
            if (lo is not None and k < lo) or (hi is not None and k > hi):
                yield emit(False, st)
                return
            if name in st.val:
                yield emit(st.val[name], st)
                return
            s2 = st.clone()
            s2.lin[key] = (k, k)
            s2.val[name] = True
            s2.order.append(name)
            yield emit(True, s2)
            if lo is not None and k == lo:
                st.lin[key] = (k + 1, hi)
            elif hi is not None and k == hi:
                st.lin[key] = (lo, k - 1)
            st.val[name] = False
            st.order.append(name)
            yield emit(False, st)

    def truth(self, e, st):
        """generator of (bool, state)"""
        if isinstance(e, ast.Constant):
            yield bool(e.value), st
            return
        if isinstance(e, (ast.Name, ast.Attribute)):
            key = e.id if isinstance(e, ast.Name) else self._attr_key(e)
            v = st.env.get(key) if key else None
            if v is not None and v[0] in ('bool', 'const'):
                yield bool(v[1]), st
                return
            if isinstance(e, ast.Attribute) and key is None:
                pass
            if st.val.get('isnone:' + self.sym(e, st)) is True:
                yield False, st
                return
            yield from self.atom('truthy:' + self.sym(e, st), st, src=ast.unparse(e))
            return
        if isinstance(e, ast.UnaryOp) and isinstance(e.op, ast.Not):
            for b, s in self.truth(e.operand, st):
                yield (not b), s
            return
        if isinstance(e, ast.BoolOp):
            is_and = isinstance(e.op, ast.And)

            def rec(i, st):
                if i == len(e.values):
                    yield is_and, st
                    return
                for b, s in self.truth(e.values[i], st):
                    if b != is_and:
                        yield b, s
                    else:
                        yield from rec(i + 1, s)
            yield from rec(0, st)
            return
        if isinstance(e, ast.Compare) and len(e.ops) == 1:
            op = e.ops[0]
            self.record_calls(e.left, st)
            self.record_calls(e.comparators[0], st)
            a = self.sym(e.left, st)
            b = self.sym(e.comparators[0], st)
            if isinstance(op, (ast.Is, ast.IsNot)):
                if b == 'None':
                    ca = self.const(e.left, st)
                    if ca is not None:
                        r = ca[0] is None
                        yield (r if isinstance(op, ast.Is) else not r), st
                        return
                    if st.val.get('truthy:' + a) is True:
                        yield (not isinstance(op, ast.Is)), st      # a truthy value is not None
                        return
                    for v, s in self.atom('isnone:' + a, st, src=ast.unparse(e)):
                        yield (v if isinstance(op, ast.Is) else not v), s
                    return
                for v, s in self.atom('is:%s is %s' % (a, b), st):
                    yield (v if isinstance(op, ast.Is) else not v), s
                return
            if isinstance(op, (ast.Lt, ast.Gt, ast.LtE, ast.GtE, ast.Eq, ast.NotEq)):
                la, lb = self.lin(e.left, st), self.lin(e.comparators[0], st)
                if la is not None and lb is not None and (la[2] or lb[2]):
                    yield from self.lin_compare(la, lb, op, st)
                    return
                ca, cb = self.const(e.left, st), self.const(e.comparators[0], st)
                if ca is not None and cb is not None:
                    try:
                        r = {ast.Lt: lambda: ca[0] < cb[0], ast.Gt: lambda: ca[0] > cb[0], ast.LtE: lambda: ca[0] <= cb[0],
                             ast.GtE: lambda: ca[0] >= cb[0], ast.Eq: lambda: ca[0] == cb[0], ast.NotEq: lambda: ca[0] != cb[0]}[type(op)]()
                        yield r, st
                        return
                    except TypeError:
                        pass
                if a == b:
                    yield isinstance(op, (ast.LtE, ast.GtE, ast.Eq)), st
                    return
                swap = a > b
                lo, hi = (b, a) if swap else (a, b)
                if self._pair_names(e.left, e.comparators[0]) in self.eq_only and isinstance(op, (ast.Eq, ast.NotEq)):
                    for v, s in self.atom('EQ:%s == %s' % (lo, hi), st, src=ast.unparse(e)):
                        yield (v if isinstance(op, ast.Eq) else not v), s
                    return
                for v, s in self.atom('ORD:%s ? %s' % (lo, hi), st, ('LT', 'EQ', 'GT'), src=ast.unparse(e)):
                    w = {'LT': 'GT', 'GT': 'LT', 'EQ': 'EQ'}[v] if swap else v
                    r = {ast.Lt: w == 'LT', ast.Gt: w == 'GT', ast.LtE: w != 'GT', ast.GtE: w != 'LT', ast.Eq: w == 'EQ',
                         ast.NotEq: w != 'EQ'}[type(op)]
                    yield r, s
                return
            if isinstance(op, (ast.In, ast.NotIn)):
                for v, s in self.atom('in:%s in %s' % (a, b), st):
                    yield (v if isinstance(op, ast.In) else not v), s
                return
        if isinstance(e, ast.Compare):
            # chained comparison: evaluate as conjunction of links
            left = e.left
            parts = []
            for op, right in zip(e.ops, e.comparators):
                parts.append(ast.Compare(left=left, ops=[op], comparators=[right]))
                left = right
            yield from self.truth(ast.BoolOp(op=ast.And(), values=parts), st)
            return
        if isinstance(e, ast.IfExp):
            for b, s in self.truth(e.test, st):
                yield from self.truth(e.body if b else e.orelse, s)
            return
        if isinstance(e, ast.Call):
            self.record_calls(e, st)
            if isinstance(e.func, ast.Name) and e.func.id == 'bool' and len(e.args) == 1:
                yield from self.truth(e.args[0], st)
                return
            if isinstance(e.func, ast.Name) and e.func.id == 'isinstance':
                yield from self.atom(self.sym(e, st), st)
                return
        yield from self.atom(self.sym(e, st), st)

    # ---------------------------------------------------------- values
    def value(self, e, st):
        if isinstance(e, ast.Constant):
            yield ('const', e.value), st
            return
        if isinstance(e, ast.IfExp):
            for b, s in self.truth(e.test, st):
                yield from self.value(e.body if b else e.orelse, s)
            return
        if isinstance(e, (ast.BoolOp, ast.Compare)) or (isinstance(e, ast.UnaryOp) and isinstance(e.op, ast.Not)):
            if isinstance(e, ast.BoolOp):
                # `a or b` used as a value: symbolic unless every operand is boolean-like; keep it as truth for simplicity
                pass
            for b, s in self.truth(e, st):
                yield ('bool', b), s
            return
        if isinstance(e, ast.Call) and isinstance(e.func, ast.Name) and e.func.id == 'bool' and len(e.args) == 1:
            for b, s in self.truth(e.args[0], st):
                yield ('bool', b), s
            return
        if isinstance(e, ast.Name) and e.id in st.env:
            yield st.env[e.id], st
            return
        k = self._attr_key(e)
        if k is not None and k in st.env:
            yield st.env[k], st
            return
        self.record_calls(e, st)
        c0 = self.const(e, st)
        if c0 is not None and isinstance(e, ast.Name):
            yield ('const', c0[0]), st
            return
        if isinstance(e, ast.BinOp):
            l = self.lin(e, st)
            if l is not None and l[2]:
                if not l[0]:
                    yield ('const', l[1]), st
                else:
                    yield ('lin', self.sym(e, st), l[0], l[1]), st
                return
        yield ('sym', self.sym(e, st)), st

    # ---------------------------------------------------------- events
    def record_calls(self, e, st):
        calls = [c for c in ast.walk(e) if isinstance(c, ast.Call)]
        calls.sort(key=lambda c: (c.end_lineno, c.end_col_offset))
        for c in calls:
            f = c.func
            name = f.attr if isinstance(f, ast.Attribute) else (f.id if isinstance(f, ast.Name) else '?')
            recv = None
            if isinstance(f, ast.Attribute):
                recv = self.ref(f.value.id, st) if isinstance(f.value, ast.Name) else self.sym(f.value, st)
            if self.keep is None or self.keep(name, c):
                args = [self.sym(a, st) for a in c.args] + ['%s=%s' % (k.arg, self.sym(k.value, st)) for k in c.keywords]
                st.events.append(Event('call', self.sym(c, st), c, name, recv, args))
            if isinstance(f, ast.Attribute) and isinstance(f.value, ast.Name) and (name in RELOAD or name in self.mutator_names):
                st.bump(f.value.id)

    # ---------------------------------------------------------- statements
    def block(self, stmts, st):
        if not stmts:
            yield 'fall', st
            return
        head, rest = stmts[0], stmts[1:]
        for out, s in self.stmt(head, st):
            if out == 'fall':
                yield from self.block(rest, s)
            else:
                yield out, s

    def _store(self, tg, v, s2, node):
        if isinstance(tg, ast.Name):
            s2.bump(tg.id)
            s2.env[tg.id] = v
            s2.events.append(Event('set', '%s = %s' % (tg.id, v[1]), node, name=tg.id, args=[str(v[1])]))
        elif self._attr_key(tg) is not None:
            k = self._attr_key(tg)
            s2.ver[k] = s2.ver.get(k, 0) + 1
            s2.env[k] = v
            s2.events.append(Event('store', '%s = %s' % (k, v[1]), node, name=k, args=[str(v[1])]))
        else:
            for x in ast.walk(tg):
                if isinstance(x, ast.Name) and isinstance(x.ctx, ast.Store):
                    s2.bump(x.id)
            if isinstance(tg, (ast.Attribute, ast.Subscript)):
                s2.events.append(Event('store', '%s = %s' % (self.sym(tg, s2), v[1]), node, name=self.sym(tg, s2), args=[str(v[1])]))

    def stmt(self, s, st):
        self.paths += 1
        if self.paths > self.max_paths:
            raise PathBudget('path budget exceeded (%d)' % self.max_paths)
        if isinstance(s, ast.If):
            for b, s2 in self.truth(s.test, st):
                yield from self.block(s.body if b else s.orelse, s2)
        elif isinstance(s, ast.While):
            yield from self.loop(s, st, lambda st_: self.truth(s.test, st_), self.loop_iters)
        elif isinstance(s, ast.For):
            # re-yield loop: for x in G(...): yield x  ==> one delegate event
            if len(s.body) == 1 and isinstance(s.body[0], ast.Expr) and isinstance(s.body[0].value, ast.Yield) \
                    and s.body[0].value.value is not None and ast.unparse(s.body[0].value.value) == ast.unparse(s.target) \
                    and isinstance(s.iter, ast.Call):
                c = s.iter
                for a in c.args:
                    self.record_calls(a, st)
                f = c.func
                name = f.attr if isinstance(f, ast.Attribute) else (f.id if isinstance(f, ast.Name) else '?')
                args = [self.sym(a, st) for a in c.args] + ['%s=%s' % (k.arg, self.sym(k.value, st)) for k in c.keywords]
                st.events.append(Event('delegate', self.sym(c, st), s, name, None, args))
                yield 'fall', st
                return
            rng = s.iter
            if isinstance(rng, ast.Call) and isinstance(rng.func, ast.Name) and rng.func.id == 'range' and 1 <= len(rng.args) <= 2 \
                    and isinstance(s.target, ast.Name) and all(self.lin(a, st) is not None for a in rng.args):
                lo_e = rng.args[0] if len(rng.args) == 2 else ast.Constant(value=0)
                hi_e = rng.args[-1]
                lo0 = self.lin(lo_e, st)
                hi0 = self.lin(hi_e, st)
                tname = s.target.id

                def enter_range(st_, k=[0]):
                    # iteration number = how often the target was bound on this path
                    n = st_.ver.get('#range:%d' % id(s), 0)
                    cur = ({kk: vv for kk, vv in lo0[0].items()}, lo0[1] + n, True)
                    for b, s2 in self.lin_compare(cur, (hi0[0], hi0[1], True), ast.Lt(), st_):
                        if b:
                            s2.ver['#range:%d' % id(s)] = n + 1
                            s2.bump(tname)
                            if not cur[0]:
                                s2.env[tname] = ('const', cur[1])
                            else:
                                s2.env[tname] = ('lin', '(%s Add %d)' % (self.sym(lo_e, st), n) if n else self.sym(lo_e, st), cur[0], cur[1])
                        yield b, s2
                yield from self.loop(s, st, enter_range, self.loop_iters)
                return
            self.record_calls(s.iter, st)
            key = 'more:' + self.sym(s.iter, st)
            counter = [0]

            def enter(st_):
                n = sum(1 for k in st_.val if k.startswith(key + '@'))
                for b, s2 in self.atom('%s@%d' % (key, n), st_):
                    if b:
                        for x in ast.walk(s.target):
                            if isinstance(x, ast.Name):
                                s2.bump(x.id)
                    yield b, s2
            yield from self.loop(s, st, enter, self.loop_iters)
        elif isinstance(s, ast.Break):
            yield 'break', st
        elif isinstance(s, ast.Continue):
            yield 'continue', st
        elif isinstance(s, ast.Return):
            if s.value is not None:
                if isinstance(s.value, ast.Tuple):
                    self.record_calls(s.value, st)
                    st.events.append(Event('return', self.sym(s.value, st), s, args=[self.sym(x, st) for x in s.value.elts]))
                    yield 'return', st
                else:
                    for v, s2 in self.value(s.value, st):
                        s2.events.append(Event('return', str(v[1]), s, args=[str(v[1])]))
                        yield 'return', s2
            else:
                st.events.append(Event('return', 'None', s, args=['None']))
                yield 'return', st
        elif isinstance(s, ast.Raise):
            nm = None
            if s.exc is not None:
                f = s.exc.func if isinstance(s.exc, ast.Call) else s.exc
                nm = ast.unparse(f)
            st.events.append(Event('raise', nm, s, name=nm))
            yield 'raise', st
        elif isinstance(s, ast.Assert):
            for b, s2 in self.truth(s.test, st):
                # an assertion states an invariant: the decision table continues under it; the failing side is not a behaviour of
                # the request that a specification row could be about
                if b:
                    yield 'fall', s2
        elif isinstance(s, ast.Assign):
            if isinstance(s.value, (ast.Tuple, ast.List)) and len(s.targets) == 1 and isinstance(s.targets[0], (ast.Tuple, ast.List)) \
                    and len(s.value.elts) == len(s.targets[0].elts):
                self.record_calls(s.value, st)
                vals = [('sym', self.sym(x, st)) if self.const(x, st) is None else ('const', self.const(x, st)[0]) for x in s.value.elts]
                for tg, v in zip(s.targets[0].elts, vals):
                    self._store(tg, v, st, s)
                yield 'fall', st
                return
            for v, s2 in self.value(s.value, st):
                for tg in s.targets:
                    self._store(tg, v, s2, s)
                yield 'fall', s2
        elif isinstance(s, ast.AnnAssign):
            if s.value is not None:
                for v, s2 in self.value(s.value, st):
                    self._store(s.target, v, s2, s)
                    yield 'fall', s2
            else:
                yield 'fall', st
        elif isinstance(s, ast.AugAssign):
            self.record_calls(s.value, st)
            if isinstance(s.target, ast.Name):
                cur = st.env.get(s.target.id)
                cv = self.const(s.value, st)
                tgt_txt = self.sym(s.target, st)
                val_txt = self.sym(s.value, st)
                if cur is not None and cur[0] == 'const' and cv is not None and isinstance(s.op, (ast.Add, ast.Sub)) \
                        and isinstance(cur[1], (int, float)) and isinstance(cv[0], (int, float)):
                    nv = cur[1] + cv[0] if isinstance(s.op, ast.Add) else cur[1] - cv[0]
                    st.bump(s.target.id)
                    st.env[s.target.id] = ('const', nv)
                elif cv is not None and isinstance(cv[0], int) and not isinstance(cv[0], bool) and isinstance(s.op, (ast.Add, ast.Sub)) \
                        and self.lin(s.target, st) is not None:
                    l = self.lin(s.target, st)
                    d = cv[0] if isinstance(s.op, ast.Add) else -cv[0]
                    txt = '(%s %s %d)' % (tgt_txt, 'Add' if d >= 0 else 'Sub', abs(d))
                    st.bump(s.target.id)
                    st.env[s.target.id] = ('lin', txt, l[0], l[1] + d)
                else:
                    st.bump(s.target.id)
                st.events.append(Event('aug', '%s %s= %s' % (s.target.id, type(s.op).__name__, val_txt), s, name=s.target.id, args=[val_txt]))
            else:
                st.events.append(Event('store', '%s %s= %s' % (self.sym(s.target, st), type(s.op).__name__, self.sym(s.value, st)), s,
                                       name=self.sym(s.target, st), args=[self.sym(s.value, st)]))
            yield 'fall', st
        elif isinstance(s, ast.Expr):
            if isinstance(s.value, (ast.Yield, ast.YieldFrom)):
                v = s.value.value
                if v is not None:
                    self.record_calls(v, st)
                args = [self.sym(x, st) for x in v.elts] if isinstance(v, ast.Tuple) else ([self.sym(v, st)] if v is not None else [])
                st.events.append(Event('yield', self.sym(v, st) if v is not None else None, s, args=args))
                yield 'fall', st
            else:
                self.record_calls(s.value, st)
                yield 'fall', st
        elif isinstance(s, ast.Try):
            yield from self.block(s.body + s.orelse + s.finalbody, st.clone())
            for h in s.handlers:
                for b, s2 in self.atom('exc@%d' % h.lineno, st.clone()):
                    if b:
                        yield from self.block(h.body + s.finalbody, s2)
        elif isinstance(s, ast.With):
            for it in s.items:
                self.record_calls(it.context_expr, st)
            yield from self.block(s.body, st)
        else:
            yield 'fall', st

    def loop(self, s, st, enter, iters):
        for b, s2 in enter(st):
            if not b:
                if s.orelse:
                    yield from self.block(s.orelse, s2)
                else:
                    yield 'fall', s2
                continue
            for out, s3 in self.block(s.body, s2):
                if out == 'break':
                    yield 'fall', s3
                elif out in ('fall', 'continue'):
                    if iters <= 1:
                        s3.events.append(Event('again', None, s))
                        yield 'again', s3
                    else:
                        yield from self.loop(s, s3, enter, iters - 1)
                else:
                    yield out, s3

    # ---------------------------------------------------------- driver
    def run(self, stmts, init_env=None):
        st = State()
        if init_env:
            st.env.update(init_env)
        self.prescan(stmts)
        self.paths = 0
        rows = []
        for out, s in self.block(list(stmts), st):
            rows.append(Row(dict(s.val), list(s.order), list(s.events), out, dict(s.lin), dict(s.src)))
        return rows


def split_tuple(text):
    """'(a, f(b, c), d)' -> ['a', 'f(b, c)', 'd']"""
    t = text.strip()
    if t.startswith('(') and t.endswith(')'):
        t = t[1:-1]
    out, depth, cur = [], 0, ''
    for ch in t:
        if ch in '([{':
            depth += 1
        elif ch in ')]}':
            depth -= 1
        if ch == ',' and depth == 0:
            out.append(cur.strip())
            cur = ''
        else:
            cur += ch
    if cur.strip():
        out.append(cur.strip())
    return out


def loops_in(fn_node, pred=None):
    out = []
    for n in ast.walk(fn_node):
        if isinstance(n, (ast.While, ast.For)) and (pred is None or pred(n)):
            out.append(n)
    return out
