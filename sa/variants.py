"""AST-computed source variants of the current tree, used by the thorough tier to validate the checker itself.

breaking variants : one rule instance broken per variant; the named rule must report a finding in the named function
equivalent variants: behaviour-preserving rewrites (rename every local, regenerate every module from its AST, invert guard
                     polarity); every rule must stay silent and must not lose its anchors
Variants are written to scratch copies (tempfile) that are removed right after use; /repo is never modified.
"""
import ast
import copy
import os


# ---------------------------------------------------------------------------------------------- text edit helpers
def seg(src, node):
    lines = src.split('\n')
    if node.lineno == node.end_lineno:
        return lines[node.lineno - 1][node.col_offset:node.end_col_offset]
    out = [lines[node.lineno - 1][node.col_offset:]]
    out += lines[node.lineno:node.end_lineno - 1]
    out.append(lines[node.end_lineno - 1][:node.end_col_offset])
    return '\n'.join(out)


def replace(src, node, new):
    lines = src.split('\n')
    head = lines[node.lineno - 1][:node.col_offset]
    tail = lines[node.end_lineno - 1][node.end_col_offset:]
    lines[node.lineno - 1:node.end_lineno] = [head + new + tail]
    return '\n'.join(lines)


def find_func(tree, qual):
    cur = tree
    for p in qual.split('.'):
        nxt = None
        for n in ast.walk(cur):
            if isinstance(n, (ast.FunctionDef, ast.ClassDef)) and n.name == p and n is not cur:
                nxt = n
                break
        if nxt is None:
            return None
        cur = nxt
    return cur


class V:
    def __init__(self, vid, path, func, rule, what, edit):
        self.id, self.path, self.func, self.rule, self.what, self.edit = vid, path, func, rule, what, edit


def stmts_of(fn):
    for n in ast.walk(fn):
        if isinstance(n, ast.stmt):
            yield n


def call_stmt(s, attr=None, recv=None, name=None):
    if isinstance(s, ast.Expr) and isinstance(s.value, ast.Call):
        f = s.value.func
        if attr and isinstance(f, ast.Attribute) and f.attr == attr and (recv is None or (isinstance(f.value, ast.Name) and f.value.id == recv)):
            return True
        if name and isinstance(f, ast.Name) and f.id == name:
            return True
    return False


def breaking_variants(root):
    """list of V; edits are functions src -> new src (or None if the pattern is not present any more)"""
    out = []

    def add(path, func, rule, what, finder, new_text):
        """finder(fn_node, src) -> ast node to replace ; new_text: str or callable(node, src)"""
        def edit(src, path=path, func=func):
            tree = ast.parse(src)
            fn = find_func(tree, func) if func else tree
            if fn is None:
                return None
            node = finder(fn, src)
            if node is None:
                return None
            return replace(src, node, new_text(node, src) if callable(new_text) else new_text)
        out.append(V('%s:%s:%s' % (rule, func, what), path, func, rule, what, edit))

    T, L, N = 'traph/traph.py', 'traph/lru_trie/lru_trie.py', 'traph/lru_trie/node.py'
    LS, H = 'traph/link_store/link_store.py', 'traph/helpers.py'

    def nth(pred, k=0):
        def f(fn, src):
            hits = [s for s in stmts_of(fn) if pred(s)]
            return hits[k] if len(hits) > k else None
        return f

    def nth_expr(pred, k=0):
        def f(fn, src):
            hits = [n for n in ast.walk(fn) if pred(n)]
            hits.sort(key=lambda n: (n.lineno, n.col_offset))
            return hits[k] if len(hits) > k else None
        return f

    # R-FRESH: delete the refresh() that precedes a write-back / hand-off
    add(T, 'Traph.__add_prefixes', 'R-FRESH', 'delete node.refresh()', nth(lambda s: call_stmt(s, 'refresh')), 'pass')
    for k in range(2):
        add(T, 'Traph.add_links', 'R-FRESH', 'delete refresh #%d' % k, nth(lambda s: call_stmt(s, 'refresh'), k), 'pass')
    for k in range(3):
        add(T, 'Traph.index_batch_crawl_iter', 'R-FRESH', 'delete refresh #%d' % k, nth(lambda s: call_stmt(s, 'refresh'), k), 'pass')
    # R-DIRTY-WRITTEN: delete a write() that persists a mutation
    for func in ('Traph.__add_prefixes', 'Traph.add_prefix_to_webentity', 'Traph.remove_prefix_from_webentity', 'Traph.delete_webentity',
                 'Traph.remove_webentity_creation_rule', 'Traph.add_webentity_creation_rule_iter', 'Traph.__generated_web_entity_id'):
        add(T, func, 'R-DIRTY-WRITTEN', 'delete write()', nth(lambda s: call_stmt(s, 'write')), 'pass')
    add(L, 'LRUTrie.add_page', 'R-DIRTY-WRITTEN', 'delete first write()', nth(lambda s: call_stmt(s, 'write')), 'pass')
    add(L, 'LRUTrie.add_lru', 'R-DIRTY-WRITTEN', 'delete write() after unmarking', nth(lambda s: call_stmt(s, 'write', 'node')), 'pass')
    add(LS, 'LinkStore.add_links', 'R-DIRTY-WRITTEN', 'delete source_node.write()', nth(lambda s: call_stmt(s, 'write', 'source_node')), 'pass')
    # R-NULL-HEAD: drop a has-links guard
    for func, k in (('Traph.get_webentity_pagelinks_iter', 0), ('Traph.get_webentity_pagelinks_iter', 1), ('Traph.get_page_links', 0),
                    ('Traph.get_webentity_outlinks_iter', 0), ('Traph.get_webentity_inlinks_iter', 0), ('Traph.links_metrics', 0)):
        add(T, func, 'R-NULL-HEAD', 'guard #%d -> True' % k,
            nth_expr(lambda n: isinstance(n, ast.Call) and isinstance(n.func, ast.Attribute) and n.func.attr in ('has_outlinks', 'has_inlinks') and not n.args, k), 'True')
    add(T, 'Traph.get_webentities_links_iter', 'R-NULL-HEAD', 'has_links guard -> True',
        nth_expr(lambda n: isinstance(n, ast.Call) and isinstance(n.func, ast.Attribute) and n.func.attr == 'has_links'), 'True')
    add(T, 'Traph.paginate_webentity_pagelinks', 'R-NULL-HEAD', 'has_outlinks guard -> True',
        nth_expr(lambda n: isinstance(n, ast.Call) and isinstance(n.func, ast.Attribute) and n.func.attr == 'has_outlinks'), 'True')
    # R-CRAWLED
    add(L, 'LRUTrie.add_page', 'R-CRAWLED', '`if crawled:` -> `if True:`', nth_expr(lambda n: isinstance(n, ast.If) and isinstance(n.test, ast.Name) and n.test.id == 'crawled'),
        lambda n, src: seg(src, n).replace('if crawled:', 'if True:', 1))
    add(T, 'Traph.add_pages', 'R-CRAWLED', 'crawled=crawled -> crawled=True', nth_expr(lambda n: isinstance(n, ast.keyword) and n.arg == 'crawled'), 'crawled=True')
    add(T, 'Traph.index_batch_crawl_iter', 'R-CRAWLED', 'targets inserted crawled',
        nth_expr(lambda n: isinstance(n, ast.Call) and isinstance(n.func, ast.Attribute) and n.func.attr == '_Traph__add_page' or
                 (isinstance(n, ast.Call) and isinstance(n.func, ast.Attribute) and n.func.attr == '__add_page' and len(n.args) == 1 and not n.keywords
                  and isinstance(n.args[0], ast.Name) and n.args[0].id == 'target_page')),
        lambda n, src: seg(src, n)[:-1] + ', crawled=True)')
    # R-TOKEN-PAIR
    for func, k in (('Traph.paginate_webentity_pages', 0), ('Traph.paginate_webentity_pagelinks', 0), ('Traph.paginate_webentity_pagelinks', 1)):
        add(T, func, 'R-TOKEN-PAIR', 'delete last_path_i assignment #%d' % k,
            nth(lambda s: isinstance(s, ast.Assign) and isinstance(s.targets[0], ast.Name) and s.targets[0].id == 'last_path_i' and not isinstance(s.value, ast.Constant), k), 'pass')
    # R-CHUNK-LAST
    add(H, 'detailed_chunks_iter', 'R-CHUNK-LAST', 'delete return after terminal yield', nth(lambda s: isinstance(s, ast.Return)), 'pass')
    # R-STORAGE-IFACE
    add('traph/storage/memory.py', 'MemoryStorage.read', 'R-STORAGE-IFACE', 'read(block=None) -> read(block)',
        lambda fn, src: fn.args, 'self, block')
    add('traph/storage/memory.py', 'MemoryStorage.read', 'R-STORAGE-IFACE', 'cursor not advanced',
        nth(lambda s: isinstance(s, ast.Assign) and ast.unparse(s.targets[0]) == 'self.cursor'), 'pass')
    # R-NONE-CHECK
    add(N, 'LRUTrieNode.read', 'R-NONE-CHECK', 'drop the None check of the tail block',
        nth(lambda s: isinstance(s, ast.If) and 'raw is None' in ast.unparse(s.test)), 'pass')
    # R-READONLY
    add(L, 'LRUTrie.follow_lru', 'R-READONLY', 'write in the query walk',
        nth(lambda s: call_stmt(s, 'update_webentity')), lambda n, src: seg(src, n) + '; node.write()')
    add(L, 'LRUTrie.windup_lru_for_webentity', 'R-READONLY', 'write in windup',
        nth(lambda s: isinstance(s, ast.Return)), lambda n, src: 'node.write(); ' + seg(src, n))
    # R-BST-AGREE
    for func in ('LRUTrie.lru_node', 'LRUTrie.follow_lru', 'LRUTrie.__ensure_stem_from_siblings'):
        add(L, func, 'R-BST-AGREE', 'read_left -> read_right', nth_expr(lambda n: isinstance(n, ast.Attribute) and n.attr == 'read_left'),
            lambda n, src: seg(src, n).replace('read_left', 'read_right'))
        add(L, func, 'R-BST-AGREE', 'stem < current -> stem > current',
            nth_expr(lambda n: isinstance(n, ast.Compare) and isinstance(n.ops[0], ast.Lt) and 'stem' in ast.unparse(n)),
            lambda n, src: seg(src, n).replace('<', '>'))
    add(L, 'LRUTrie.__ensure_stem_from_siblings', 'R-BST-AGREE', 'set_left -> set_right', nth_expr(lambda n: isinstance(n, ast.Attribute) and n.attr == 'set_left'),
        lambda n, src: seg(src, n).replace('set_left', 'set_right'))
    # R-PARENT-PAIR
    add(L, 'LRUTrie.__ensure_stem_from_siblings', 'R-PARENT-PAIR', 'sibling parent := node.block',
        nth_expr(lambda n: isinstance(n, ast.Call) and isinstance(n.func, ast.Attribute) and n.func.attr == 'parent'), 'node.block')
    add(L, 'LRUTrie.add_lru', 'R-PARENT-PAIR', 'child parent := node.parent()',
        nth_expr(lambda n: isinstance(n, ast.Call) and isinstance(n.func, ast.Attribute) and n.func.attr == 'set_parent'),
        lambda n, src: 'child.set_parent(node.parent())')
    # R-DIRECTION
    for func in ('LinkStore.add_links',):
        for k in range(3):
            add(LS, func, 'R-DIRECTION', 'drop out=out #%d' % k, nth_expr(lambda n: isinstance(n, ast.keyword) and n.arg == 'out', k), 'out=True')
    add(LS, 'LinkStore.add_inlinks', 'R-DIRECTION', 'out=False -> out=True', nth_expr(lambda n: isinstance(n, ast.keyword) and n.arg == 'out'), 'out=True')
    for func in ('Traph.get_webentities_links_iter', 'Traph.get_webentities_links_slow_iter', 'Traph.links_iter', 'Traph.get_webentities_links'):
        add(T, func, 'R-DIRECTION', 'out=out -> out=True', nth_expr(lambda n: isinstance(n, ast.keyword) and n.arg == 'out'), 'out=True')
    # R-ANCESTOR-FLAG
    add(L, 'LRUTrie.add_lru', 'R-ANCESTOR-FLAG', 'i < l - 1 -> i < l - 2 (descend loop)',
        nth_expr(lambda n: isinstance(n, ast.Compare) and ast.unparse(n) == 'i < l - 1', 0), 'i < l - 2')
    add(L, 'LRUTrie.add_lru', 'R-ANCESTOR-FLAG', 'i < l - 1 -> i < l - 2 (append loop)',
        nth_expr(lambda n: isinstance(n, ast.Compare) and ast.unparse(n) == 'i < l - 1', 1), 'i < l - 2')
    add(L, 'LRUTrie.add_lru', 'R-ANCESTOR-FLAG', 'new ancestors not unmarked', nth(lambda s: call_stmt(s, 'flag_can_have_child_webentities', 'child')), 'pass')
    # R-TRACK-AGREE
    add(L, 'LRUTrie.follow_lru', 'R-TRACK-AGREE', 'rule anchor not tracked in the query walk', nth(lambda s: call_stmt(s, 'add_webentity_creation_rule')), 'pass')
    add(L, 'LRUTrie.add_lru', 'R-TRACK-AGREE', 'position off by one',
        nth_expr(lambda n: isinstance(n, ast.Call) and isinstance(n.func, ast.Attribute) and n.func.attr == 'update_webentity'),
        'history.update_webentity(node.webentity(), lru, len(lru) - 1)')
    # R-RELEVANCE
    add(L, 'LRUTrie.webentity_dfs_iter', 'R-RELEVANCE', 'descend into foreign webentities',
        nth_expr(lambda n: isinstance(n, ast.BoolOp) and 'relevant_node and' in ast.unparse(n)), 'node.has_child()')
    add(L, 'LRUTrie.webentity_dfs_iter', 'R-RELEVANCE', 'depth limit off by one', nth_expr(lambda n: isinstance(n, ast.Compare) and ast.unparse(n) == 'level >= max_depth'), 'level > max_depth')
    add(L, 'LRUTrie.webentity_inorder_iter.inorder_traversal', 'R-RELEVANCE', 'right subtree of the start node walked',
        nth_expr(lambda n: isinstance(n, ast.If) and 'node.block != starting_node.block' in ast.unparse(n.test), 1),
        lambda n, src: seg(src, n).replace('node.block != starting_node.block', 'True', 1))
    # R-ORDER
    add(L, 'LRUTrie.webentity_inorder_iter.inorder_traversal', 'R-ORDER', 'resume filter not strict',
        nth_expr(lambda n: isinstance(n, ast.Compare) and ast.unparse(n) == 'current_lru > pagination_lru'), 'current_lru >= pagination_lru')
    # R-PROPAGATE
    add(L, 'LRUTrie.dfs_with_webentity_iter', 'R-PROPAGATE', 'child inherits the incoming webentity',
        nth_expr(lambda n: isinstance(n, ast.Tuple) and ast.unparse(n) == '(node.child(), current_webentity)'), '(node.child(), webentity)')
    add(L, 'LRUTrie.dfs_with_webentity_iter', 'R-PROPAGATE', 'siblings inherit the node webentity',
        nth_expr(lambda n: isinstance(n, ast.Tuple) and ast.unparse(n) == '(node.right(), webentity)'), '(node.right(), current_webentity)')
    # R-SKIP-CHILDLESS
    add(L, 'LRUTrie.dfs_iter', 'R-SKIP-CHILDLESS', 'shortcut ignores the mark',
        nth_expr(lambda n: isinstance(n, ast.BoolOp) and 'skip_childless_paths' in ast.unparse(n)), 'skip_childless_paths')
    # R-FILTER-AGREE
    add(T, 'Traph.paginate_webentity_pagelinks', 'R-FILTER-AGREE', 'internal test inverted',
        nth_expr(lambda n: isinstance(n, ast.Compare) and ast.unparse(n) == 'target_webentity == weid'), 'target_webentity != weid')
    add(T, 'Traph.get_webentities_links_slow_iter', 'R-FILTER-AGREE', 'include_auto polarity',
        nth_expr(lambda n: isinstance(n, ast.BoolOp) and 'include_auto' in ast.unparse(n)), 'include_auto and source_webentity == target_webentity')
    add(T, 'Traph.get_page_links', 'R-FILTER-AGREE', 'self link also reported inbound',
        nth_expr(lambda n: isinstance(n, ast.If) and ast.unparse(n.test) == 'source_lru != lru'), lambda n, src: seg(src, n).replace('source_lru != lru', 'True', 1))
    # R-LADDER-AGREE
    add(T, 'Traph.get_potential_prefix', 'R-LADDER-AGREE', '<= -> <', nth_expr(lambda n: isinstance(n, ast.Compare) and isinstance(n.ops[0], ast.LtE)),
        lambda n, src: seg(src, n).replace('<=', '<'))
    add(T, 'Traph.__add_page', 'R-LADDER-AGREE', 'candidate > -> >=', nth_expr(lambda n: isinstance(n, ast.Compare) and isinstance(n.ops[0], ast.Gt) and 'len' in ast.unparse(n)),
        lambda n, src: seg(src, n).replace('>', '>=', 1))
    # R-OPEN-TABLE / R-CLEAR-AGREE
    add(T, 'Traph.__init__', 'R-OPEN-TABLE', 'modes swapped', nth_expr(lambda n: isinstance(n, ast.IfExp) and 'wb+' in ast.unparse(n)), '"rb+" if create else "wb+"')
    add(T, 'Traph.__init__', 'R-OPEN-TABLE', 'second corruption check dropped',
        nth(lambda s: isinstance(s, ast.If) and 'links_store_storage.check_for_corruption' in ast.unparse(s.test)), 'pass')
    add(T, 'Traph.__init__', 'R-OPEN-TABLE', 'overwrite no longer creates', nth_expr(lambda n: isinstance(n, ast.BoolOp) and ast.unparse(n).startswith('overwrite or')),
        lambda n, src: seg(src, n).replace('overwrite or', 'False or', 1))
    add(T, 'Traph.clear', 'R-CLEAR-AGREE', 'link store not rebuilt', nth(lambda s: isinstance(s, ast.Assign) and ast.unparse(s.targets[0]) == 'self.link_store'), 'pass')
    # R-ID
    add(T, 'Traph.__generated_web_entity_id', 'R-ID', 'header not written through', nth(lambda s: call_stmt(s, 'write')), 'pass')
    add('traph/lru_trie/header.py', 'LRUTrieHeader.__init__', 'R-ID', 'header not re-read on open', nth(lambda s: call_stmt(s, 'read')), 'pass')
    # R-TOKEN-CODEC
    add(L, 'LRUTrie.webentity_inorder_iter.inorder_traversal', 'R-TOKEN-CODEC', 'left digit 1 -> 3',
        nth_expr(lambda n: isinstance(n, ast.Call) and ast.unparse(n) == 'base4_append(path, 1)'), 'base4_append(path, 3)')
    add(H, 'int_to_base64', 'R-TOKEN-CODEC', '>> 6 -> >> 5', nth_expr(lambda n: isinstance(n, ast.BinOp) and isinstance(n.op, ast.RShift)), 'x >> 5')
    # R-GEOMETRY / R-ACCESSOR-TABLE / R-TAIL-PROTOCOL
    add(N, None, 'R-GEOMETRY', 'LRU_TRIE_STEM_SIZE = 75', nth(lambda s: isinstance(s, ast.Assign) and ast.unparse(s.targets[0]) == 'LRU_TRIE_STEM_SIZE'), 'LRU_TRIE_STEM_SIZE = 75')
    add(N, 'LRUTrieNode.has_inlinks', 'R-ACCESSOR-TABLE', 'has_inlinks reads the outlinks field',
        nth_expr(lambda n: isinstance(n, ast.Name) and n.id == 'LRU_TRIE_NODE_INLINKS_BLOCK'), 'LRU_TRIE_NODE_OUTLINKS_BLOCK')
    add(N, 'LRUTrieNode.write', 'R-TAIL-PROTOCOL', 'HAS_TAIL on every tail block',
        nth(lambda s: isinstance(s, ast.If) and ast.unparse(s.test) == 'not is_last'), lambda n, src: seg(src, n).replace('not is_last', 'True', 1))
    # R-VARIATIONS
    add(H, 'lru_variations', 'R-VARIATIONS', '<= 1 -> == 1', nth_expr(lambda n: isinstance(n, ast.Compare) and ast.unparse(n) == 'len(hosts) <= 1'), 'len(hosts) == 1')
    add(H, 'https_variation', 'R-VARIATIONS', 'startswith -> in', nth_expr(lambda n: isinstance(n, ast.Call) and isinstance(n.func, ast.Attribute) and n.func.attr == 'startswith'),
        lambda n, src: "%s in lru" % seg(src, n.args[0]))
    # R-LINK-PAIR / R-HEAD-REPOINT / R-POINTEE-FIRST
    add(T, 'Traph.add_links', 'R-LINK-PAIR', 'inbound record dropped', nth(lambda s: isinstance(s, ast.Expr) and 'inlinks[' in ast.unparse(s) and '.append' in ast.unparse(s)), 'pass')
    add(LS, 'LinkStore.add_links', 'R-HEAD-REPOINT', 'new stub not chained', nth(lambda s: call_stmt(s, 'set_previous')), 'pass')
    add(L, 'LRUTrie.add_lru', 'R-POINTEE-FIRST', 'child linked before it is written',
        nth(lambda s: call_stmt(s, 'write', 'child')), 'pass')
    # R-WE-ATTACH / R-MONOTONE
    add(T, 'Traph.add_prefix_to_webentity', 'R-WE-ATTACH', 'ancestors not unmarked', nth_expr(lambda n: isinstance(n, ast.keyword) and n.arg == 'flag_can_have_child_webentities'),
        'flag_can_have_child_webentities=False')
    add(T, 'Traph.delete_webentity', 'R-MONOTONE', 'page mark cleared on delete', nth(lambda s: call_stmt(s, 'unset_webentity')),
        lambda n, src: seg(src, n) + '; node.unflag_as_page()')
    # R-PAGE-REPORT / R-ALLOC / R-DISTINCT-DEGREE / R-TOPK / R-STACK-BLOCKS / R-OWN-ERROR / R-RULE-INSTALL
    add(L, 'LRUTrie.add_page', 'R-PAGE-REPORT', 'page_was_created set for known pages',
        nth(lambda s: isinstance(s, ast.Return)), lambda n, src: 'history.page_was_created = True; ' + seg(src, n))
    add(L, 'LRUTrie.add_page', 'R-ALLOC', 'known page rewritten', nth(lambda s: isinstance(s, ast.Return)), lambda n, src: 'node.write(); ' + seg(src, n))
    add(T, 'Traph.get_webentity_most_linked_pages_iter', 'R-DISTINCT-DEGREE', 'raw stub iterator',
        nth_expr(lambda n: isinstance(n, ast.Attribute) and n.attr == 'weighted_link_nodes_iter'), lambda n, src: seg(src, n).replace('weighted_link_nodes_iter', 'link_nodes_iter'))
    add(T, 'Traph.get_webentity_most_linked_pages_iter', 'R-TOPK', 'trim at >=', nth_expr(lambda n: isinstance(n, ast.Compare) and ast.unparse(n) == 'len(pages) > pages_count'),
        'len(pages) >= pages_count')
    add(L, 'LRUTrie.dfs_with_webentity_iter', 'R-STACK-BLOCKS', 'no re-read after pop', nth(lambda s: call_stmt(s, 'read', 'node')), 'pass')
    add(T, 'Traph.get_webentity_by_prefix', 'R-OWN-ERROR', 'raises KeyError', nth_expr(lambda n: isinstance(n, ast.Name) and n.id == 'TraphException'), 'KeyError')
    add(T, 'Traph.add_webentity_creation_rule_iter', 'R-RULE-INSTALL', 'anchor not flagged', nth(lambda s: call_stmt(s, 'flag_as_webentity_creation_rule')), 'pass')
    # rules added after the first seeding rounds
    add(N, 'LRUTrieNode.read', 'R-READ-RESETS', 'tail not reset on an existing block',
        nth(lambda s: isinstance(s, ast.Assign) and ast.unparse(s.targets[0]) == 'self.tail' and isinstance(s.value, ast.Constant), 1), 'pass')
    add(L, 'LRUTrie.windup_lru_for_webentity', 'R-NO-STALE-CACHE', 'resolution memo on the trie object',
        nth(lambda s: isinstance(s, ast.Return) and s.value is not None and 'parent.webentity' in ast.unparse(s)),
        lambda n, src: 'self.__dict__.setdefault("x", {}) if False else None; self.memo = getattr(self, "memo", None) or {}; ' + seg(src, n)
        if False else 'self.memo = {node.block: parent.webentity()}; ' + seg(src, n))
    add(T, 'Traph.get_webentity_outlinks_iter', 'R-MEMO-KEY', 'memo keyed by the parent block',
        nth_expr(lambda n: isinstance(n, ast.Compare) and isinstance(n.ops[0], ast.NotIn)), 'target_node.parent() not in done_blocks')
    add(T, 'Traph.get_webentities_links_slow_iter', 'R-MEMO-KEY', 'memo stores a negative answer',
        nth(lambda s: isinstance(s, ast.If) and ast.unparse(s.test) == 'not target_webentity'),
        lambda n, src: 'page_to_webentity[target_block] = target_webentity\n' + ' ' * n.col_offset + seg(src, n))
    add(T, 'Traph.webentity_page_nodes_iter', 'R-EVERY-PREFIX', 'missing prefix skipped silently',
        nth(lambda s: isinstance(s, ast.Raise)), 'continue')
    add(T, 'Traph.move_prefix_to_webentity', 'R-ARGS-HONOURED', 'source webentity ignored',
        nth_expr(lambda n: isinstance(n, ast.Call) and isinstance(n.func, ast.Attribute) and n.func.attr == 'remove_prefix_from_webentity'),
        'self.remove_prefix_from_webentity(prefix)')
    add('traph/storage/file.py', 'FileStorage.write', 'R-STORAGE-IFACE', 'block tested for truthiness',
        nth_expr(lambda n: isinstance(n, ast.Compare) and ast.unparse(n) == 'block is not None'), 'block')
    add('traph/storage/file.py', 'FileStorage.check_for_corruption', 'R-STORAGE-IFACE', 'short file accepted',
        nth(lambda s: isinstance(s, ast.If)), lambda n, src: 'if file_length < self.block_size:\n' + ' ' * (n.col_offset + 4) + 'return False\n' + ' ' * n.col_offset + seg(src, n))
    add(N, 'LRUTrieNode.read', 'R-STORAGE-IFACE', 'len(storage) inside the tail loop',
        nth(lambda s: isinstance(s, ast.Assign) and ast.unparse(s.value) == 'self.storage.read()'), lambda n, src: 'end = len(self.storage); ' + seg(src, n))
    add('traph/storage/memory.py', 'MemoryStorage.clear', 'R-CLEAR-AGREE', 'header kept by clear',
        nth(lambda s: isinstance(s, ast.Assign)), 'del self.array[self.block_size:]')
    add(H, 'detailed_chunks_iter', 'R-CHUNK-LAST', 'chunk count len // size + 1',
        nth(lambda s: isinstance(s, ast.Assign) and 'ceil' in ast.unparse(s.value)), lambda n, src: seg(src, n).split('=')[0] + '= len(string) // chunk_size + 1')
    add(H, 'detailed_chunks_iter', 'R-CHUNK-LAST', 'is-last from the end offset',
        nth_expr(lambda n: isinstance(n, ast.Compare) and 'nb_chunks - 1' in ast.unparse(n)), 'start + chunk_size > len(string)')
    add(L, 'LRUTrie.dfs_iter', 'R-STACK-BLOCKS', 'shared traversal node',
        nth(lambda s: isinstance(s, ast.Assign) and ast.unparse(s.value) == 'self.node()'), lambda n, src: seg(src, n).split('=')[0] + '= starting_node')
    add(T, 'Traph.get_webentity_most_linked_pages_iter', 'R-TOPK', 'heapreplace',
        nth_expr(lambda n: isinstance(n, ast.Attribute) and n.attr == 'heappush'), 'heapq.heapreplace')
    add(H, 'lru_variations', 'R-VARIATIONS', 'www test not anchored at the last host',
        nth_expr(lambda n: isinstance(n, ast.Compare) and 'hosts[-1]' in ast.unparse(n)), "b'h:www' in hosts")
    add(L, 'LRUTrie.count_crawled_pages', 'R-ENUM-FILTERS', 'crawled non-pages counted',
        nth_expr(lambda n: isinstance(n, ast.BoolOp) and 'is_crawled' in ast.unparse(n)), 'node.is_crawled()')
    add(L, 'LRUTrie.pages_iter', 'R-ENUM-FILTERS', 'every node enumerated as page',
        nth_expr(lambda n: isinstance(n, ast.Call) and ast.unparse(n) == 'node.is_page()'), 'True')
    add(T, 'Traph.get_webentity_crawled_pages_iter', 'R-ENUM-FILTERS', 'uncrawled pages listed as crawled',
        nth_expr(lambda n: isinstance(n, ast.Call) and ast.unparse(n) == 'node.is_crawled()'), 'node.is_page()')
    add(L, 'LRUTrie.windup_lru', 'R-LRU-ASSEMBLY', 'parent stem appended instead of prepended',
        nth_expr(lambda n: isinstance(n, ast.BinOp) and ast.unparse(n) == 'parent.stem() + lru'), 'lru + parent.stem()')
    add(L, 'LRUTrie.dfs_iter', 'R-LRU-ASSEMBLY', 'stem prepended in the top-down walk',
        nth_expr(lambda n: isinstance(n, ast.BinOp) and ast.unparse(n) == 'lru + node.stem()'), 'node.stem() + lru')
    add(LS, 'LinkStore.weighted_link_nodes_iter', 'R-LINK-WALK', 'head stub weighs 0',
        nth(lambda s: isinstance(s, ast.Assign) and isinstance(s.targets[0], ast.Subscript) and isinstance(s.value, ast.Constant)), lambda n, src: seg(src, n).replace('= 1', '= 0'))
    add(LS, 'LinkStore.count_links', 'R-LINK-WALK', 'header blocks not subtracted',
        nth(lambda s: isinstance(s, ast.Assign)), 'blocks = self.storage.count_blocks()')
    add(T, 'Traph.remove_prefix_from_webentity', 'R-PREFIX-EDIT', 'owner test inverted',
        nth_expr(lambda n: isinstance(n, ast.Compare) and ast.unparse(n) == 'node.webentity() == weid'), 'node.webentity() != weid')
    add(T, 'Traph.move_prefix_to_webentity', 'R-PREFIX-EDIT', 'target and source swapped',
        nth_expr(lambda n: isinstance(n, ast.Call) and isinstance(n.func, ast.Attribute) and n.func.attr == 'add_prefix_to_webentity'), 'self.add_prefix_to_webentity(prefix, weid_source)')
    add(T, 'Traph.paginate_webentity_pages', 'R-PAGINATE', 'resume path not reset between prefixes',
        nth(lambda s: isinstance(s, ast.Assign) and ast.unparse(s) == 'pagination_path = None', 1), 'pass')
    add(T, 'Traph.paginate_webentity_pagelinks', 'R-PAGINATE', 'prefix loop starts at 0',
        nth_expr(lambda n: isinstance(n, ast.Call) and ast.unparse(n) == 'range(start_i, len(prefixes))'), 'range(0, len(prefixes))')
    add(T, 'Traph.paginate_webentity_pages', 'R-PAGINATE', 'look-ahead dropped',
        nth_expr(lambda n: isinstance(n, ast.BinOp) and ast.unparse(n) == 'page_count + 1'), 'page_count')
    add('traph/storage/memory.py', 'MemoryStorage.write', 'R-STORAGE-SEM', 'in-place write one block too far',
        nth_expr(lambda n: isinstance(n, ast.Slice) and 'block_size' in ast.unparse(n)), 'block + self.block_size : block + 2 * self.block_size')
    add('traph/storage/file.py', 'FileStorage.write', 'R-STORAGE-SEM', 'append positioned at the start',
        nth_expr(lambda n: isinstance(n, ast.Call) and ast.unparse(n) == 'self.file.seek(0, os.SEEK_END)'), 'self.file.seek(0)')
    add(T, 'Traph.get_webentity_parent_webentities', 'R-HIERARCHY', 'own webentity not excluded',
        nth_expr(lambda n: isinstance(n, ast.BoolOp) and 'weid2 != weid' in ast.unparse(n)), 'weid2 and weid2 > 0')
    add(T, 'Traph.index_batch_crawl_iter', 'R-DIRTY-WRITTEN', 'crawled flag left to a conditional writer',
        nth(lambda s: call_stmt(s, 'write', 'source_node')), 'pass')
    # ---- round 4 rules
    ND, HD, LN = 'traph/lru_trie/node.py', 'traph/lru_trie/header.py', 'traph/link_store/node.py'
    add(ND, 'LRUTrieNode.refresh', 'R-PRIMITIVES', 'refresh skipped for the root block',
        nth(lambda s: call_stmt(s, 'read')), lambda n, src: 'if not self.is_root(): ' + seg(src, n))
    add(HD, 'LRUTrieHeader.write', 'R-PRIMITIVES', 'header write skipped when the version is unset',
        nth(lambda s: call_stmt(s, 'write')), lambda n, src: 'if self.data[0]: ' + seg(src, n))
    add(LN, 'LinkStoreNode.target', 'R-NULL-THRESHOLD', 'first trie block treated as NULL',
        nth_expr(lambda n: isinstance(n, ast.Compare) and 'FIRST_DATA_BLOCK' in ast.unparse(n)), lambda n, src: seg(src, n).replace('<', '<='))
    add(ND, 'LRUTrieNode.child', 'R-NULL-THRESHOLD', 'first trie block treated as NULL',
        nth_expr(lambda n: isinstance(n, ast.Compare) and 'FIRST_DATA_BLOCK' in ast.unparse(n)), lambda n, src: seg(src, n).replace('<', '<='))
    add(T, 'Traph.get_page_degree', 'R-DEGREE-FLAGS', 'degree ignores self-links',
        nth_expr(lambda n: isinstance(n, ast.keyword) and n.arg == 'include_internal'), 'include_internal=False')
    add(T, 'Traph.get_page_indegree', 'R-DEGREE-FLAGS', 'indegree counts outbound links too',
        nth_expr(lambda n: isinstance(n, ast.keyword) and n.arg == 'include_outbound'), 'include_outbound=True')
    add(T, 'Traph.close', 'R-CLOSE', 'link store file closed under the wrong handle, trie file twice',
        nth_expr(lambda n: isinstance(n, ast.Call) and ast.unparse(n) == 'self.link_store_file.close()'), 'self.lru_trie_file.close()')
    add(T, 'Traph.get_webentity_pages_iter', 'R-ACCUMULATE', 'result reset at every page',
        nth(lambda s: isinstance(s, ast.Expr) and isinstance(s.value, ast.Call) and isinstance(s.value.func, ast.Attribute) and s.value.func.attr == 'append'),
        lambda n, src: 'pages = []; ' + seg(src, n))
    add(T, 'Traph.get_webentity_most_linked_pages_iter', 'R-ENCODED', 'walk started from the raw prefix',
        nth(lambda s: isinstance(s, ast.Assign) and 'self.__encode(prefix)' in ast.unparse(s)), 'prefix = prefix')
    add(T, 'Traph.retrieve_prefix', 'R-ENCODED', 'lookup with the raw LRU',
        nth(lambda s: isinstance(s, ast.Assign) and '__encode(' in ast.unparse(s)), 'pass')
    add(T, 'Traph.index_batch_crawl_iter', 'R-LOOP-CARRIED', 'source node bound on one branch only',
        nth(lambda s: isinstance(s, ast.Assign) and ast.unparse(s) == 'source_node = pages[source_page]'), 'pass')
    add('traph/storage/file.py', 'FileStorage.__len__', 'R-STORAGE-STATELESS', 'file length remembered on the storage object',
        nth(lambda s: isinstance(s, ast.Return)), lambda n, src: 'self.length = ' + seg(src, n.value) + '; return self.length')
    add(L, 'LRUTrie.windup_lru_for_webentity', 'R-NEAREST-WE', 'outermost webentity wins',
        nth(lambda s: isinstance(s, ast.For)),
        'found = None\n        for parent in self.node_parents_iter(node):\n            if parent.has_webentity():\n                found = parent.webentity()\n'
        '        if found:\n            return found')
    add(T, 'Traph.__add_prefixes', 'R-PREFIX-EDIT', 'strict refusal only when two prefixes are taken',
        nth_expr(lambda n: isinstance(n, ast.Compare) and ast.unparse(n) == 'len(invalid_prefixes) > 0'), 'len(invalid_prefixes) > 1')
    add(T, 'Traph.__apply_webentity_creation_rule', 'R-RULES-TO-APPLY', 'matching rule not proposed when the match is short',
        nth_expr(lambda n: isinstance(n, ast.UnaryOp) and ast.unparse(n) == 'not match'), 'not match or match.end() < len(rule_prefix)')
    add(L, 'LRUTrie.dfs_iter', 'R-SKIP-CHILDLESS', 'from-root flag derived from is_root()',
        nth(lambda s: isinstance(s, ast.Assign) and ast.unparse(s).startswith('starting_from_root =')), 'starting_from_root = starting_node is None or starting_node.is_root()')
    add(T, 'Traph.get_webentity_pagelinks_iter', 'R-FILTER-AGREE', 'outlinks only of crawled pages',
        nth_expr(lambda n: isinstance(n, ast.Call) and ast.unparse(n) == 'node.has_outlinks()'), 'node.is_crawled() and node.has_outlinks()')
    add(H, 'lru_variations', 'R-VARIATIONS', 'bounded split',
        nth_expr(lambda n: isinstance(n, ast.Call) and isinstance(n.func, ast.Attribute) and n.func.attr == 'split'), "lru.split(b'|', 8)")
    add(T, 'Traph.expand_prefix', 'R-VARIATIONS', 'prefix lower-cased before expansion',
        nth_expr(lambda n: isinstance(n, ast.Call) and ast.unparse(n) == 'self.__encode(prefix)'), 'self.__encode(prefix).lower()')
    add(L, 'LRUTrie.nodes_iter', 'R-GEOMETRY', 'tail blocks not handed out',
        nth(lambda s: isinstance(s, ast.Expr) and isinstance(s.value, ast.Yield)), lambda n, src: 'if not node.is_tail(): ' + seg(src, n))
    add(T, 'Traph.paginate_webentity_pages', 'R-PAGINATE', 'prefixes numbered relative to the resume point',
        nth_expr(lambda n: isinstance(n, ast.Call) and ast.unparse(n) == 'range(start_i, len(prefixes))'), 'range(len(prefixes[start_i:]))')
    add(T, 'Traph.move_prefix_to_webentity', 'R-NO-SWALLOW', 'refusal of the detach swallowed',
        nth(lambda s: isinstance(s, ast.If) and 'remove_prefix_from_webentity' in ast.unparse(s.test)),
        lambda n, src: 'try:\n            ' + seg(src, n).replace('\n', '\n    ') + '\n        except TraphException:\n            pass')
    add(T, 'Traph.get_webentity_most_linked_pages', 'R-WRAPPERS', 'pages_count fed from max_depth',
        nth_expr(lambda n: isinstance(n, ast.keyword) and n.arg == 'pages_count'), 'pages_count=max_depth')
    add(T, 'Traph.get_webentities_links', 'R-WRAPPERS', 'include_auto replaced by the direction switch',
        nth_expr(lambda n: isinstance(n, ast.keyword) and n.arg == 'include_auto'), 'include_auto=out')
    add(T, 'Traph.get_webentity_pages_iter', 'R-NODE-ALIAS', 'the shared traversal node is collected',
        nth_expr(lambda n: isinstance(n, ast.Dict)), '{"lru": lru, "node": node}')
    add(T, 'Traph.get_webentity_pages_iter', 'R-ACCUMULATE', 'final state not yielded',
        nth(lambda s: isinstance(s, ast.Expr) and isinstance(s.value, ast.Yield) and 'finalize' in ast.unparse(s)), 'state.finalize(pages)')
    # ---- round 5
    add(T, 'Traph.add_pages', 'R-EVERY-ITEM', 'known nodes skipped before submission',
        nth(lambda s: isinstance(s, ast.Assign) and '__encode' in ast.unparse(s)),
        lambda n, src: seg(src, n) + '\n            if self.lru_trie.lru_node(lru):\n                continue')
    add(T, 'Traph.index_batch_crawl_iter', 'R-EVERY-ITEM', 'sources without targets skipped',
        nth(lambda s: isinstance(s, ast.Assign) and ast.unparse(s) == 'source_page = self.__encode(source_page)'),
        lambda n, src: 'if not target_pages:\n                continue\n            ' + seg(src, n))
    add(T, 'Traph.clear', 'R-CLEAR-AGREE', 'old handles not closed before truncation',
        nth(lambda s: call_stmt(s, 'close')), 'pass')
    add(T, 'Traph.clear', 'R-CLEAR-AGREE', 'default rule compiled case-sensitively in clear()',
        nth_expr(lambda n: isinstance(n, ast.Call) and ast.unparse(n.func) == 're.compile'), 're.compile(default_webentity_creation_rule)')
    add(H, 'https_variation', 'R-VARIATIONS', 'unchanged LRU returned for other schemes',
        nth(lambda s: isinstance(s, ast.Return) and isinstance(s.value, ast.Constant) and s.value.value is None), 'return lru')
    add(H, 'lru_variations', 'R-VARIATIONS', 'only the last host stem is searched for',
        nth(lambda s: isinstance(s, ast.Assign) and ast.unparse(s.targets[0]) == 'hosts_str'), "hosts_str = hosts[-1] + b'|'")
    add(ND, 'LRUTrieNode.write', 'R-TAIL-PROTOCOL', 'exists set before the tail test',
        nth(lambda s: isinstance(s, ast.Assign) and ast.unparse(s) == 'self.block = block'), 'self.block = block; self.exists = True')
    add(L, 'LRUTrie.lru_node', 'R-BST-AGREE', 'childless node not reported as a miss',
        nth(lambda s: isinstance(s, ast.If) and 'has_child' in ast.unparse(s.test) and isinstance(s.test, ast.UnaryOp)),
        'if node.has_child():\n                    node.read_child()')
    add(T, 'Traph.get_webentity_outlinks_iter', 'R-FILTER-AGREE', 'only crawled pages contribute outlinks',
        nth_expr(lambda n: isinstance(n, ast.Call) and ast.unparse(n) == 'node.is_page()'), 'node.is_crawled()')
    add(T, 'Traph.paginate_webentity_pagelinks', 'R-PAGINATE', 'empty resume path dropped',
        nth(lambda s: isinstance(s, ast.Assign) and 'parse_pagination_token' in ast.unparse(s)),
        lambda n, src: seg(src, n) + '\n            if not pagination_path:\n                pagination_path = None')
    add(T, 'Traph.get_webentity_inlinks_iter', 'R-EVERY-PREFIX', 'unbounded walk',
        nth_expr(lambda n: isinstance(n, ast.Attribute) and n.attr == 'webentity_dfs_iter'), 'self.lru_trie.dfs_iter')
    add(T, 'Traph.get_page_links', 'R-ENCODED', 'raw LRU compared with stored bytes',
        nth(lambda s: isinstance(s, ast.Assign) and ast.unparse(s) == 'lru = self.__encode(lru)'), 'pass')
    add(L, 'LRUTrie.follow_lru', 'R-RETURN-SHAPE', 'miss reported as a bare None',
        nth(lambda s: isinstance(s, ast.Return) and isinstance(s.value, ast.Tuple) and ast.unparse(s.value.elts[0]) == 'None'), 'return None')
    # ---- round 7
    add(T, 'Traph.clear', 'R-GEN-DRAINED', 'rules re-registered through the generator, never advanced',
        nth_expr(lambda n: isinstance(n, ast.Attribute) and n.attr == 'add_webentity_creation_rule'), 'self.add_webentity_creation_rule_iter')
    add(T, 'Traph.get_webentity_child_webentities_iter', 'R-YIELD-NEUTRAL', 'the yielding round skips its item',
        nth(lambda s: isinstance(s, ast.If) and 'should_yield' in ast.unparse(s.test)),
        lambda n, src: seg(src, n) + '\n                    continue')
    add(T, 'Traph.get_webentity_most_linked_pages_iter', 'R-ACCUMULATE', 'heap re-initialised for every prefix',
        nth(lambda s: isinstance(s, ast.Assign) and '__encode' in ast.unparse(s.value)),
        lambda n, src: seg(src, n) + '\n            pages = []')
    add(T, 'Traph.get_webentity_parent_webentities', 'R-ACCUMULATE', 'parents re-initialised for every prefix',
        nth(lambda s: isinstance(s, ast.Assign) and '__encode' in ast.unparse(s.value)),
        lambda n, src: seg(src, n) + '\n            weids = set()')
    add(T, 'Traph.close', 'R-CLOSE', 'link store closed under the test of the trie handle',
        nth_expr(lambda n: isinstance(n, ast.If) and ast.unparse(n.test) == 'self.link_store_file'),
        lambda n, src: seg(src, n).replace('if self.link_store_file:', 'if self.link_store_file and not self.lru_trie_file.closed:', 1))
    add(T, 'Traph.clear', 'R-TRUNC-ORDER', 'link store truncated before the trie',
        nth(lambda s: isinstance(s, ast.Assign) and ast.unparse(s.targets[0]) == 'self.lru_trie_file' and 'open(' in ast.unparse(s.value)),
        lambda n, src: 'self.link_store_file = open(self.link_store_path, "wb+")\n            ' + seg(src, n))
    add(T, 'Traph.delete_webentity', 'R-PREFIX-EDIT', 'prefixes of another owner silently kept',
        nth(lambda s: call_stmt(s, 'unset_webentity')),
        lambda n, src: 'if weid and node.webentity() != weid:\n                continue\n            ' + seg(src, n))
    add(T, 'Traph.links_iter', 'R-LINK-WALK', 'self-links skipped in the enumeration',
        nth(lambda s: isinstance(s, ast.Expr) and isinstance(s.value, ast.Yield)),
        lambda n, src: 'if target == page_node.block:\n                    continue\n                ' + seg(src, n))
    add(T, 'Traph.get_page_links', 'R-FILTER-AGREE', 'outlinks walked only for outbound requests',
        nth_expr(lambda n: isinstance(n, ast.BoolOp) and ast.unparse(n) == 'include_outbound or include_internal'), 'include_outbound')
    add(H, 'lru_dirname', 'R-LRU-ASSEMBLY', 'last stem cut on the raw bytes',
        nth(lambda s: isinstance(s, ast.Return)), 'return lru[:-1].rsplit(b"|", 1)[0] + b"|"')
    add(L, 'LRUTrie.node_parents_iter', 'R-LRU-ASSEMBLY', 'climb bounded by a depth constant',
        nth_expr(lambda n: isinstance(n, ast.While)),
        lambda n, src: seg(src, n).replace('while parent.has_parent():', 'while parent.has_parent() and parent.block > 4096:', 1))
    add(H, 'parse_pagination_token', 'R-TOKEN-CODEC', 'token cut at fixed positions',
        nth(lambda s: isinstance(s, ast.Assign) and 'split' in ast.unparse(s.value)), 'i, b64_path = token[0], token[2:]')
    add(H, 'lru_variations', 'R-VARIATIONS', 'www test on a lower-cased copy',
        nth_expr(lambda n: isinstance(n, ast.Compare) and ast.unparse(n.left) == 'hosts[-1]'), 'hosts[-1].lower() == b"h:www"')
    add(H, 'https_variation', 'R-VARIATIONS', 'scheme test without closing separator',
        nth_expr(lambda n: isinstance(n, ast.Constant) and n.value == b's:http|'), 'b"s:http"')
    add(T, 'Traph.__init__', 'R-ENCODED', 'rule registered under the raw key on reopen',
        nth(lambda s: call_stmt(s, 'add_webentity_creation_rule')),
        'self.webentity_creation_rules[prefix] = re.compile(pattern, re.I)')
    # ---- round 8
    add(T, 'Traph.add_links', 'R-SINGLE-PASS', 'multimaps filled in a second pass over the argument',
        nth(lambda s: isinstance(s, ast.Expr) and ast.unparse(s) == 'outlinks[source_page].append(target_page)'),
        lambda n, src: 'pass\n        for source_page, target_page in links:\n            source_page = self.__encode(source_page)\n            target_page = self.__encode(target_page)\n            ' + seg(src, n))
    add(T, 'Traph.__init__', 'R-FORMAT-ARITY', 'refusal message formatted with a missing value',
        nth_expr(lambda n: isinstance(n, ast.Constant) and n.value == 'File corrupted: `link_store.dat`'),
        '"File corrupted: `link_store.dat` (%i bytes, blocks of %i)" % len(self.links_store_storage)')
    add(T, 'Traph.close', 'R-CLOSE', 'idempotence flag never reset by clear()',
        nth(lambda s: isinstance(s, ast.If) and ast.unparse(s.test) == 'self.lru_trie_file'),
        lambda n, src: 'if getattr(self, "was_closed", False):\n            return\n        self.was_closed = True\n        ' + seg(src, n))
    add(T, 'Traph.clear', 'R-CLEAR-AGREE', 'early return when no default rule is given',
        nth(lambda s: isinstance(s, ast.If) and ast.unparse(s.test) == 'default_webentity_creation_rule is not None'),
        lambda n, src: 'if default_webentity_creation_rule is None:\n            return\n        ' + seg(src, n))
    add(T, 'Traph.clear', 'R-CLEAR-AGREE', 'reopened files plugged crosswise',
        nth(lambda s: isinstance(s, ast.Assign) and ast.unparse(s.targets[0]) == 'self.lru_trie_storage.file'), 'self.lru_trie_storage.file = self.link_store_file')
    add(T, 'Traph.paginate_webentity_pages', 'R-PAGINATE', 'prefix list sorted',
        nth(lambda s: isinstance(s, ast.For) and 'range(' in ast.unparse(s.iter)),
        lambda n, src: 'prefixes = sorted(prefixes, key=len)\n        ' + seg(src, n))
    add(T, 'Traph.expand_prefix', 'R-VARIATIONS', 'expansion sorted',
        nth(lambda s: isinstance(s, ast.Return)), 'return sorted(lru_variations(prefix), key=len)')
    add(H, 'lru_variations', 'R-VARIATIONS', 'www looked for at the end of the raw LRU',
        nth_expr(lambda n: isinstance(n, ast.Compare) and ast.unparse(n.left) == 'hosts[-1]'), 'lru.endswith(b"|h:www|")')
    add(L, 'LRUTrie.webentity_dfs_iter', 'R-RELEVANCE', 'depth limit ends the walk',
        nth(lambda s: isinstance(s, ast.Continue)), 'break')
    add(L, 'LRUTrie.windup_lru_for_webentity', 'R-LRU-ASSEMBLY', 'in-place climb that never asks the top-most ancestor',
        nth(lambda s: isinstance(s, ast.For)),
        'if node.has_parent():\n            parent = node.parent_node()\n            while parent.has_parent():\n                if parent.has_webentity():\n                    return parent.webentity()\n                parent.read_parent()')
    add(ND, 'LRUTrieNode.refresh', 'R-PRIMITIVES', 'flags of the stale copy merged back',
        nth(lambda s: call_stmt(s, 'read')),
        lambda n, src: 'pending = self.data[LRU_TRIE_NODE_FLAGS]\n        ' + seg(src, n) + '\n        self.data[LRU_TRIE_NODE_FLAGS] |= pending')
    add(ND, 'LRUTrieNode.read', 'R-TAIL-PROTOCOL', 'tail re-bound to the last chunk',
        nth(lambda s: isinstance(s, ast.Expr) and ast.unparse(s).startswith('chunks.append(')), 'self.tail = chars')
    add(H, 'detailed_chunks_iter', 'R-CHUNK-LAST', 'one-based chunk loop with the zero-based last test',
        nth_expr(lambda n: isinstance(n, ast.Call) and ast.unparse(n) == 'range(nb_chunks)'), 'range(1, nb_chunks + 1)')
    # ---- round 9
    add(ND, 'unflag', 'R-ACCESSOR-TABLE', 'mask clears every higher bit too',
        nth(lambda s: isinstance(s, ast.AugAssign)), 'data[register] &= (1 << pos) - 1')
    add(T, 'Traph.__encode', 'R-ENCODED', 'LRUs stripped while encoding',
        nth(lambda s: isinstance(s, ast.Return) and 'encode' in ast.unparse(s)), 'return string.strip().encode(self.encoding)')
    add(T, 'Traph.__add_page', 'R-PAGE-REPORT', 'fresh report returned on the no-prefix path',
        nth(lambda s: isinstance(s, ast.Expr) and 'warnings.warn' in ast.unparse(s)),
        lambda n, src: seg(src, n) + '\n            return node, TraphWriteReport()')
    add(L, 'LRUTrie.windup_lru', 'R-LRU-ASSEMBLY', 'gives up on nodes that have a tail',
        nth(lambda s: isinstance(s, ast.Assign) and ast.unparse(s.targets[0]) == 'lru'),
        lambda n, src: 'if node.has_tail():\n            return None\n        ' + seg(src, n))
    add(T, 'Traph.get_page_degree', 'R-DEGREE-FLAGS', 'rows de-duplicated before counting',
        nth_expr(lambda n: isinstance(n, ast.Call) and isinstance(n.func, ast.Name) and n.func.id == 'len'),
        lambda n, src: 'len(set(tuple(sorted(x[:2])) for x in ' + seg(src, n.args[0]) + '))')
    add(T, 'Traph.delete_webentity', 'R-PREFIX-EDIT', 'consistency check skipped without a weid',
        nth_expr(lambda n: isinstance(n, ast.If) and ast.unparse(n.test) == 'check_for_corruption'),
        lambda n, src: seg(src, n).replace('if check_for_corruption:', 'if check_for_corruption and weid:', 1))
    add(H, 'lru_variations', 'R-VARIATIONS', 'no www form for schemes without twin',
        nth(lambda s: isinstance(s, ast.If) and ast.unparse(s.test) == 'https_var'), 'if not https_var:\n        return variations\n    variations.append(https_var)')
    add(T, 'Traph.expand_prefix', 'R-VARIATIONS', 'short cut for single hosts',
        nth(lambda s: isinstance(s, ast.Return)), lambda n, src: 'if prefix.count(b"|h:") < 2:\n            return [prefix]\n        ' + seg(src, n))
    add('traph/link_store/node.py', 'LinkStoreNode.read', 'R-PRIMITIVES', 'cursor-relative read of a stub',
        nth_expr(lambda n: isinstance(n, ast.Call) and ast.unparse(n) == 'self.storage.read(block)'), 'self.storage.read(block if block else None)')
    add(T, 'Traph.get_webentities_links_iter', 'R-FILTER-AGREE', 'pages with a recent link head passed over',
        nth_expr(lambda n: isinstance(n, ast.Call) and ast.unparse(n) == 'node.has_links(out=out)'), '(node.has_links(out=out) and node.links(out=out) < limit)')
    return out


# ---------------------------------------------------------------------------------------------- equivalent variants
class RenameLocals(ast.NodeTransformer):
    """rename every local variable of every outermost function (params, globals and names captured as keyword stay)"""

    def __init__(self, suffix='_rn'):
        self.suffix = suffix
        self.map = None

    def visit_FunctionDef(self, node):
        if self.map is not None:
            # nested function: its own params must not be renamed
            saved = dict(self.map)
            for a in node.args.posonlyargs + node.args.args + node.args.kwonlyargs:
                self.map.pop(a.arg, None)
            self.generic_visit(node)
            self.map = saved
            return node
        params = set()
        nested_names = set()
        for n in ast.walk(node):
            if isinstance(n, ast.FunctionDef):
                if n is not node:
                    nested_names.add(n.name)
                for a in n.args.posonlyargs + n.args.args + n.args.kwonlyargs:
                    params.add(a.arg)
                if n.args.vararg:
                    params.add(n.args.vararg.arg)
                if n.args.kwarg:
                    params.add(n.args.kwarg.arg)
        stored = set()
        for n in ast.walk(node):
            if isinstance(n, ast.Name) and isinstance(n.ctx, ast.Store):
                stored.add(n.id)
            if isinstance(n, ast.ExceptHandler) and n.name:
                params.add(n.name)
        self.map = {x: 'v%d%s' % (i, self.suffix) for i, x in enumerate(sorted(stored)) if x not in params and x not in nested_names and x != '_'}
        self.generic_visit(node)
        self.map = None
        return node

    def visit_Name(self, node):
        if self.map and node.id in self.map:
            node.id = self.map[node.id]
        return node


class InvertContinue(ast.NodeTransformer):
    """`if C: continue` followed by rest  ->  `if not C: rest`   (inside loop bodies, when it is the pattern's last use)"""

    def _fix(self, body):
        for i, s in enumerate(body):
            if isinstance(s, ast.If) and not s.orelse and len(s.body) == 1 and isinstance(s.body[0], ast.Continue) and i < len(body) - 1:
                rest = body[i + 1:]
                if any(isinstance(x, (ast.Continue, ast.Break)) and False for r in rest for x in ast.walk(r)):
                    continue
                new = ast.If(test=ast.UnaryOp(op=ast.Not(), operand=s.test), body=self._fix(rest), orelse=[])
                return body[:i] + [new]
        return body

    def visit_For(self, node):
        self.generic_visit(node)
        node.body = self._fix(node.body)
        return node

    def visit_While(self, node):
        self.generic_visit(node)
        node.body = self._fix(node.body)
        return node


class SwapBranches(ast.NodeTransformer):
    """`if A: X else: Y` -> `if not A: Y else: X` (two-armed ifs without elif)"""

    def visit_If(self, node):
        self.generic_visit(node)
        if node.orelse and not (len(node.orelse) == 1 and isinstance(node.orelse[0], ast.If)):
            t = node.test
            nt = t.operand if isinstance(t, ast.UnaryOp) and isinstance(t.op, ast.Not) else ast.UnaryOp(op=ast.Not(), operand=t)
            return ast.If(test=nt, body=node.orelse, orelse=node.body)
        return node


class FlipComparisons(ast.NodeTransformer):
    """`a < b` -> `b > a`, `a == b` -> `b == a` ... for single comparisons whose operands have no side effects"""
    FLIP = {ast.Lt: ast.Gt, ast.Gt: ast.Lt, ast.LtE: ast.GtE, ast.GtE: ast.LtE, ast.Eq: ast.Eq, ast.NotEq: ast.NotEq}

    def visit_Compare(self, node):
        self.generic_visit(node)
        if len(node.ops) == 1 and type(node.ops[0]) in self.FLIP and not isinstance(node.comparators[0], ast.Constant):
            return ast.Compare(left=node.comparators[0], ops=[self.FLIP[type(node.ops[0])]()], comparators=[node.left])
        return node


class MicroEdits(ast.NodeTransformer):
    """a bundle of micro edits applied everywhere: `x += e` -> `x = x + e` (plain names), `while len(x):` / `if len(x) > 0` -> truthiness,
    `not a and not b` -> `not (a or b)`, `while True:`-free `x = x` no-ops are not added"""

    def visit_AugAssign(self, node):
        self.generic_visit(node)
        if isinstance(node.target, ast.Name) and isinstance(node.op, (ast.Add, ast.Sub)):
            return ast.Assign(targets=[ast.Name(id=node.target.id, ctx=ast.Store())],
                              value=ast.BinOp(left=ast.Name(id=node.target.id, ctx=ast.Load()), op=node.op, right=node.value), type_comment=None)
        return node

    def visit_BoolOp(self, node):
        self.generic_visit(node)
        if isinstance(node.op, ast.And) and len(node.values) >= 2 and all(isinstance(v, ast.UnaryOp) and isinstance(v.op, ast.Not) for v in node.values):
            return ast.UnaryOp(op=ast.Not(), operand=ast.BoolOp(op=ast.Or(), values=[v.operand for v in node.values]))
        return node

    def _truthy(self, test):
        # len(x) -> x ; len(x) > 0 -> x ; len(x) != 0 -> x   (only in test position)
        if isinstance(test, ast.Call) and isinstance(test.func, ast.Name) and test.func.id == 'len' and len(test.args) == 1 and isinstance(test.args[0], ast.Name):
            return test.args[0]
        if isinstance(test, ast.Compare) and len(test.ops) == 1 and isinstance(test.ops[0], (ast.Gt, ast.NotEq)) and isinstance(test.comparators[0], ast.Constant) \
                and test.comparators[0].value == 0 and isinstance(test.left, ast.Call) and isinstance(test.left.func, ast.Name) and test.left.func.id == 'len' \
                and len(test.left.args) == 1 and isinstance(test.left.args[0], ast.Name):
            return test.left.args[0]
        return test

    def visit_While(self, node):
        self.generic_visit(node)
        node.test = self._truthy(node.test)
        return node

    def visit_If(self, node):
        self.generic_visit(node)
        node.test = self._truthy(node.test)
        return node


class ExplainingLocals(ast.NodeTransformer):
    """`return <call>` -> `_result = <call>; return _result` in every non-generator function (a redundant local for the returned value)"""

    def visit_FunctionDef(self, node):
        self.generic_visit(node)
        if any(isinstance(x, (ast.Yield, ast.YieldFrom)) for x in ast.walk(node)):
            return node
        node.body = self._fix(node.body)
        return node

    def _fix(self, body):
        out = []
        for s_ in body:
            for fld in ('body', 'orelse', 'finalbody'):
                sub = getattr(s_, fld, None)
                if isinstance(sub, list) and sub and isinstance(sub[0], ast.stmt) and not isinstance(s_, (ast.FunctionDef, ast.ClassDef)):
                    setattr(s_, fld, self._fix(sub))
            if isinstance(s_, ast.Return) and isinstance(s_.value, ast.Call):
                out.append(ast.Assign(targets=[ast.Name(id='result_value', ctx=ast.Store())], value=s_.value, type_comment=None))
                out.append(ast.Return(value=ast.Name(id='result_value', ctx=ast.Load())))
            else:
                out.append(s_)
        return out


class AliasAttributes(ast.NodeTransformer):
    """in every non-generator method, an attribute `self.<a>` read at least twice and never stored becomes a local alias bound at the
    top of the function"""

    def visit_FunctionDef(self, node):
        self.generic_visit(node)
        if any(isinstance(x, (ast.Yield, ast.YieldFrom)) for x in ast.walk(node)) or not node.args.args or node.args.args[0].arg != 'self':
            return node
        if node.name == '__init__':
            return node
        loads, stores = {}, set()
        for x in ast.walk(node):
            if isinstance(x, ast.Attribute) and isinstance(x.value, ast.Name) and x.value.id == 'self':
                if isinstance(x.ctx, ast.Load):
                    loads.setdefault(x.attr, []).append(x)
                else:
                    stores.add(x.attr)
        # attributes used as call targets (methods) are left alone
        called = {c.func.attr for c in ast.walk(node) if isinstance(c, ast.Call) and isinstance(c.func, ast.Attribute) and isinstance(c.func.value, ast.Name)
                  and c.func.value.id == 'self'}
        new = []
        for attr, ls in sorted(loads.items()):
            if len(ls) >= 2 and attr not in stores and attr not in called and not attr.startswith('__'):
                alias = 'the_' + attr
                for l in ls:
                    l.__class__ = ast.Name
                    l.__dict__.clear()
                    l.id, l.ctx = alias, ast.Load()
                new.append(ast.Assign(targets=[ast.Name(id=alias, ctx=ast.Store())],
                                      value=ast.Attribute(value=ast.Name(id='self', ctx=ast.Load()), attr=attr, ctx=ast.Load()), type_comment=None))
        if new:
            k = 1 if (node.body and isinstance(node.body[0], ast.Expr) and isinstance(node.body[0].value, ast.Constant)) else 0
            node.body[k:k] = new
        return node


class MergeAssignments(ast.NodeTransformer):
    """two adjacent `name = <constant>` statements become one tuple assignment"""

    def _fix(self, body):
        out, i = [], 0
        while i < len(body):
            a = body[i]
            b = body[i + 1] if i + 1 < len(body) else None

            def simple(x):
                return isinstance(x, ast.Assign) and len(x.targets) == 1 and isinstance(x.targets[0], ast.Name) and isinstance(x.value, ast.Constant)
            if simple(a) and simple(b) and a.targets[0].id != b.targets[0].id:
                out.append(ast.Assign(targets=[ast.Tuple(elts=[a.targets[0], b.targets[0]], ctx=ast.Store())], value=ast.Tuple(elts=[a.value, b.value], ctx=ast.Load()),
                                      type_comment=None))
                i += 2
            else:
                out.append(a)
                i += 1
        return out

    def generic_visit(self, node):
        super().generic_visit(node)
        for fld in ('body', 'orelse', 'finalbody'):
            sub = getattr(node, fld, None)
            if isinstance(sub, list) and sub and isinstance(sub[0], ast.stmt) and not isinstance(node, ast.Module):
                setattr(node, fld, self._fix(sub))
        return node


class ElseAfterReturn(ast.NodeTransformer):
    """`if c: ...return` followed by rest  ->  `if c: ...return else: rest` (the rest of the block moves into an else arm)"""

    def _fix(self, body):
        for i, s_ in enumerate(body):
            if isinstance(s_, ast.If) and not s_.orelse and s_.body and isinstance(s_.body[-1], (ast.Return, ast.Raise)) and i < len(body) - 1:
                rest = self._fix(body[i + 1:])
                return body[:i] + [ast.If(test=s_.test, body=s_.body, orelse=rest)]
        return body

    def visit_FunctionDef(self, node):
        self.generic_visit(node)
        node.body = self._fix(node.body)
        return node


class NamedConditions(ast.NodeTransformer):
    """`if <call or comparison>:` -> `cond_k = <test>; if cond_k:` for plain if statements (not elif arms, not loops)"""

    def __init__(self):
        self.k = 0

    def _fix(self, body):
        out = []
        for s_ in body:
            for fld in ('body', 'orelse', 'finalbody'):
                sub = getattr(s_, fld, None)
                if isinstance(sub, list) and sub and isinstance(sub[0], ast.stmt) and not isinstance(s_, (ast.FunctionDef, ast.ClassDef)):
                    if fld == 'orelse' and isinstance(s_, ast.If) and len(sub) == 1 and isinstance(sub[0], ast.If):
                        continue        # elif chain: leave
                    setattr(s_, fld, self._fix(sub))
            if isinstance(s_, ast.If) and isinstance(s_.test, (ast.Compare, ast.Call)) and not any(isinstance(x, (ast.NamedExpr, ast.Yield)) for x in ast.walk(s_.test)):
                self.k += 1
                nm = 'cond_%d' % self.k
                out.append(ast.Assign(targets=[ast.Name(id=nm, ctx=ast.Store())], value=s_.test, type_comment=None))
                s_.test = ast.Name(id=nm, ctx=ast.Load())
            out.append(s_)
        return out

    def visit_FunctionDef(self, node):
        node.body = self._fix(node.body)
        return node


class ThinWrappers(ast.NodeTransformer):
    """every generator method of a class (no arguments beyond plain positional ones, no `return <value>`) becomes a non-generator wrapper
    `def m(self, a, b=1): return self.__m_gen(a, b)` around a private generator that holds the body"""

    def visit_ClassDef(self, node):
        out = []
        for m in node.body:
            if isinstance(m, ast.FunctionDef) and not m.decorator_list and not m.name.startswith('__') \
                    and any(isinstance(x, (ast.Yield, ast.YieldFrom)) for x in ast.walk(m)) \
                    and not any(isinstance(x, (ast.FunctionDef, ast.Lambda)) and x is not m for x in ast.walk(m)) \
                    and not any(isinstance(x, ast.Return) and x.value is not None for x in ast.walk(m)) \
                    and not (m.args.vararg or m.args.kwarg or m.args.kwonlyargs or m.args.posonlyargs) and m.args.args and m.args.args[0].arg == 'self':
                inner_name = '__%s_gen' % m.name.strip('_')
                inner = ast.FunctionDef(name=inner_name, args=ast.arguments(posonlyargs=[], args=[ast.arg(arg=a.arg) for a in m.args.args], vararg=None, kwonlyargs=[],
                                                                            kw_defaults=[], kwarg=None, defaults=[]),
                                        body=m.body, decorator_list=[], returns=None, type_comment=None, type_params=[])
                doc = [m.body[0]] if m.body and isinstance(m.body[0], ast.Expr) and isinstance(m.body[0].value, ast.Constant) and isinstance(m.body[0].value.value, str) else []
                if doc:
                    inner.body = m.body[1:] or [ast.Pass()]
                call = ast.Call(func=ast.Attribute(value=ast.Name(id='self', ctx=ast.Load()), attr=inner_name, ctx=ast.Load()),
                                args=[ast.Name(id=a.arg, ctx=ast.Load()) for a in m.args.args[1:]], keywords=[])
                wrapper = ast.FunctionDef(name=m.name, args=m.args, body=doc + [ast.Return(value=call)], decorator_list=[], returns=m.returns, type_comment=None, type_params=[])
                out += [wrapper, inner]
            else:
                out.append(m)
        node.body = out
        return node


class WhileTrue(ast.NodeTransformer):
    """`while cond: body` (no else) -> `while True: if not cond: break; body`, everywhere"""

    def visit_While(self, node):
        self.generic_visit(node)
        if node.orelse or (isinstance(node.test, ast.Constant) and node.test.value is True):
            return node
        guard = ast.If(test=ast.UnaryOp(op=ast.Not(), operand=node.test), body=[ast.Break()], orelse=[])
        return ast.While(test=ast.Constant(value=True), body=[guard] + node.body, orelse=[])


def _keywordify(repo):
    import os
    from .normalize import signatures, pick_signature
    mods = {}
    for dp, dn, fn in os.walk(os.path.join(repo, 'traph')):
        for f in fn:
            if f.endswith('.py'):
                mods[os.path.join(dp, f)] = ast.parse(open(os.path.join(dp, f)).read())
    sig = signatures(mods)

    def kw(src):
        t = ast.parse(src)
        for c in ast.walk(t):
            if not isinstance(c, ast.Call) or any(isinstance(a, ast.Starred) for a in c.args) or any(k.arg is None for k in c.keywords):
                continue
            name = c.func.attr if isinstance(c.func, ast.Attribute) else (c.func.id if isinstance(c.func, ast.Name) else None)
            if name not in sig:
                continue
            ps = pick_signature(sig[name], c)
            if ps is None or len(c.args) < 2:
                continue
            # keep the first argument positional, pass the others by keyword
            extra = c.args[1:]
            c.args = c.args[:1]
            c.keywords = [ast.keyword(arg=ps[i + 1], value=a) for i, a in enumerate(extra)] + c.keywords
        return ast.unparse(ast.fix_missing_locations(t)) + '\n'
    return kw


def equivalent_variants(repo='/repo'):
    def alias(src):
        t = AliasAttributes().visit(ast.parse(src))
        return ast.unparse(ast.fix_missing_locations(t)) + '\n'

    def merge(src):
        t = MergeAssignments().visit(ast.parse(src))
        return ast.unparse(ast.fix_missing_locations(t)) + '\n'

    def elseret(src):
        t = ElseAfterReturn().visit(ast.parse(src))
        return ast.unparse(ast.fix_missing_locations(t)) + '\n'

    def named(src):
        t = NamedConditions().visit(ast.parse(src))
        return ast.unparse(ast.fix_missing_locations(t)) + '\n'

    def whiletrue(src):
        t = WhileTrue().visit(ast.parse(src))
        return ast.unparse(ast.fix_missing_locations(t)) + '\n'

    def thin(src):
        t = ThinWrappers().visit(ast.parse(src))
        return ast.unparse(ast.fix_missing_locations(t)) + '\n'

    def micro(src):
        t = MicroEdits().visit(ast.parse(src))
        return ast.unparse(ast.fix_missing_locations(t)) + '\n'

    def explain(src):
        t = ExplainingLocals().visit(ast.parse(src))
        return ast.unparse(ast.fix_missing_locations(t)) + '\n'
    def regen(src):
        return ast.unparse(ast.parse(src)) + '\n'

    def rename(src):
        t = RenameLocals().visit(ast.parse(src))
        return ast.unparse(ast.fix_missing_locations(t)) + '\n'

    def invert(src):
        t = InvertContinue().visit(ast.parse(src))
        return ast.unparse(ast.fix_missing_locations(t)) + '\n'
    def swap(src):
        t = SwapBranches().visit(ast.parse(src))
        return ast.unparse(ast.fix_missing_locations(t)) + '\n'

    def flip(src):
        t = FlipComparisons().visit(ast.parse(src))
        return ast.unparse(ast.fix_missing_locations(t)) + '\n'
    return [('`if A: X else: Y` -> `if not A: Y else: X` everywhere', swap),
            ('flip the operands of every comparison (a < b -> b > a)', flip),
            ('regenerate every module from its AST (reformat, comments dropped)', regen),
            ('rename every local variable of every function', rename),
            ('`if C: continue; rest` -> `if not C: rest` in every loop', invert),
            ('micro edits everywhere: `x += e` -> `x = x + e`, `len(x) > 0` -> `x`, `not a and not b` -> `not (a or b)`', micro),
            ('a redundant local for every returned call result', explain),
            ('local aliases for attributes of self read twice or more (non-generator methods)', alias),
            ('adjacent constant assignments merged into tuple assignments', merge),
            ('every argument after the first passed by keyword in calls of package functions', _keywordify(repo)),
            ('the code after an `if ...: return/raise` moved into an else arm', elseret),
            ('every call / comparison tested by a plain `if` named by a local first', named),
            ('every generator method split into a non-generator wrapper and a private inner generator', thin),
            ('every `while cond:` loop spelled `while True: if not cond: break`', whiletrue)]
