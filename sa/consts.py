"""E7: folding of module-level constants (struct formats, block sizes, flag bits, BASE64) without executing the package."""
import ast
import re
import string
import struct

from .program import AnalysisError

UNKNOWN = object()

STRING_CONSTS = {'digits': string.digits, 'ascii_letters': string.ascii_letters, 'ascii_lowercase': string.ascii_lowercase,
                 'ascii_uppercase': string.ascii_uppercase}


def parse_format(fmt):
    """-> (size, number of python values packed/unpacked, list of (count, code))"""
    if not isinstance(fmt, str):
        raise AnalysisError('struct format is not a string: %r' % (fmt,))
    body = fmt
    if body and body[0] in '@=<>!':
        body = body[1:]
    items = re.findall(r'(\d*)([xcbB?hHiIlLqQnNefdspP])', body)
    if ''.join(a + b for a, b in items) != body.replace(' ', ''):
        raise AnalysisError('cannot parse struct format %r' % fmt)
    nvalues = 0
    fields = []
    for cnt, code in items:
        c = int(cnt) if cnt else 1
        fields.append((c, code))
        if code == 'x':
            continue
        if code in 'sp':
            nvalues += 1
        else:
            nvalues += c
    return struct.calcsize(fmt), nvalues, fields


class ConstEnv:
    def __init__(self, P):
        self.P = P
        self.cache = {}

    def module_assign(self, mod, name):
        tree = self.P.modules.get(mod)
        if tree is None:
            return None
        found = None
        for n in tree.body:
            if isinstance(n, ast.Assign):
                for t in n.targets:
                    if isinstance(t, ast.Name) and t.id == name:
                        found = n.value      # last assignment wins
        return found

    def get(self, mod, name, depth=0):
        key = (mod, name)
        if key in self.cache:
            return self.cache[key]
        if depth > 20:
            return UNKNOWN
        self.cache[key] = UNKNOWN
        g = self.P.modglobals.get(mod, {}).get(name)
        if g is not None and g[0] == 'import' and g[1] in self.P.modules:
            v = self.get(g[1], g[2], depth + 1)
        else:
            e = self.module_assign(mod, name)
            v = self.ev(mod, e, depth + 1) if e is not None else UNKNOWN
        self.cache[key] = v
        return v

    def require(self, mod, name):
        v = self.get(mod, name)
        if v is UNKNOWN:
            raise AnalysisError('anchor vanished or not foldable: constant %s.%s' % (mod, name))
        return v

    def ev(self, mod, e, depth=0):
        if isinstance(e, ast.Constant):
            return e.value
        if isinstance(e, ast.Name):
            return self.get(mod, e.id, depth)
        if isinstance(e, ast.BinOp):
            l, r = self.ev(mod, e.left, depth), self.ev(mod, e.right, depth)
            if l is UNKNOWN or r is UNKNOWN:
                return UNKNOWN
            try:
                op = type(e.op)
                if op is ast.Add:
                    return l + r
                if op is ast.Sub:
                    return l - r
                if op is ast.Mult:
                    return l * r
                if op is ast.BitOr:
                    return l | r
                if op is ast.BitAnd:
                    return l & r
                if op is ast.LShift:
                    return l << r
                if op is ast.RShift:
                    return l >> r
                if op is ast.FloorDiv:
                    return l // r
                if op is ast.Mod:
                    return l % r
            except Exception:
                return UNKNOWN
            return UNKNOWN
        if isinstance(e, ast.UnaryOp):
            v = self.ev(mod, e.operand, depth)
            if v is UNKNOWN:
                return UNKNOWN
            if isinstance(e.op, ast.USub):
                return -v
            if isinstance(e.op, ast.Invert):
                return ~v
            if isinstance(e.op, ast.Not):
                return not v
        if isinstance(e, ast.Attribute) and isinstance(e.value, ast.Name):
            g = self.P.modglobals.get(mod, {}).get(e.value.id)
            if g and g[0] == 'extmod' and g[1] == 'string' and e.attr in STRING_CONSTS:
                return STRING_CONSTS[e.attr]
        if isinstance(e, ast.Call):
            f = e.func
            if isinstance(f, ast.Attribute) and isinstance(f.value, ast.Name) and f.attr == 'calcsize':
                g = self.P.modglobals.get(mod, {}).get(f.value.id)
                if g and g[0] == 'extmod' and g[1] == 'struct' and len(e.args) == 1:
                    fmt = self.ev(mod, e.args[0], depth)
                    if isinstance(fmt, str):
                        return parse_format(fmt)[0]
            if isinstance(f, ast.Name) and f.id == 'len' and len(e.args) == 1:
                v = self.ev(mod, e.args[0], depth)
                if v is not UNKNOWN:
                    try:
                        return len(v)
                    except Exception:
                        return UNKNOWN
        if isinstance(e, (ast.List, ast.Tuple)):
            vals = [self.ev(mod, x, depth) for x in e.elts]
            if any(v is UNKNOWN for v in vals):
                return UNKNOWN
            return vals
        if isinstance(e, ast.Dict):
            out = {}
            for k, v in zip(e.keys, e.values):
                kk, vv = self.ev(mod, k, depth), self.ev(mod, v, depth)
                if kk is UNKNOWN or vv is UNKNOWN:
                    return UNKNOWN
                out[kk] = vv
            return out
        return UNKNOWN


def const_env(ctx):
    if 'constenv' not in ctx._cache:
        ctx._cache['constenv'] = ConstEnv(ctx.P)
    return ctx._cache['constenv']
