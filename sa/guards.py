"""E5 guard facts: must-analysis (join = intersection) of leaf conditions known true/false at each program point.

Facts:
  ('T'|'F', text, names)   leaf condition `text` evaluated to true/false; dies when one of `names` is rebound/reloaded
  ('H', var, dir)          trie node `var` has a link head in direction dir ('out' | 'in' | 'dir:<expr>')
  ('NN', var)              local `var` is known not None / truthy
"""
import ast

from .cfg import solve_forward
from .dataflow import decompose, names_assigned, node_root, SKIP_KINDS
from .effects import RELOADS


def kw(call, name, default=None):
    for k in call.keywords:
        if k.arg == name:
            return ast.unparse(k.value)
    return default


def head_fact(e):
    """expression -> (var, direction) if its truth means `var has a link head in direction`"""
    if isinstance(e, ast.Call) and isinstance(e.func, ast.Attribute) and isinstance(e.func.value, ast.Name):
        v, m = e.func.value.id, e.func.attr
        if m in ('has_outlinks', 'outlinks') and not e.args and not e.keywords:
            return (v, 'out')
        if m in ('has_inlinks', 'inlinks') and not e.args and not e.keywords:
            return (v, 'in')
        if m in ('has_links', 'links'):
            d = kw(e, 'out')
            if d is None and e.args:
                d = ast.unparse(e.args[0])
            return (v, 'out' if d in (None, 'True') else ('in' if d == 'False' else 'dir:' + d))
    return None


def facts_of(leaves):
    add = set()
    for truth, e in leaves:
        hf = head_fact(e)
        if hf and truth:
            add.add(('H',) + hf)
        # comparisons with 0: x.outlinks() != 0 / == 0 / > 0
        if isinstance(e, ast.Compare) and len(e.ops) == 1 and isinstance(e.comparators[0], ast.Constant) \
                and e.comparators[0].value == 0:
            hf2 = head_fact(e.left)
            if hf2 and ((truth and isinstance(e.ops[0], (ast.NotEq, ast.Gt))) or
                        (not truth and isinstance(e.ops[0], ast.Eq))):
                add.add(('H',) + hf2)
        names = frozenset(x.id for x in ast.walk(e) if isinstance(x, ast.Name))
        add.add(('T' if truth else 'F', ast.unparse(e), names))
        # None-ness of plain locals
        if isinstance(e, ast.Name) and truth:
            add.add(('NN', e.id))
        if isinstance(e, ast.Compare) and len(e.ops) == 1 and isinstance(e.left, ast.Name) \
                and isinstance(e.comparators[0], ast.Constant) and e.comparators[0].value is None:
            if (isinstance(e.ops[0], ast.IsNot) and truth) or (isinstance(e.ops[0], ast.Is) and not truth):
                add.add(('NN', e.left.id))
    return add


def kill(st, names):
    if not names:
        return st
    return frozenset(f for f in st if not (
        (f[0] == 'H' and f[1] in names) or (f[0] == 'NN' and f[1] in names) or
        (f[0] in ('T', 'F') and (f[2] & names or any(('self.' + k) in f[1] for k in ())))))


class GuardFacts:
    def __init__(self, ctx, u):
        self.ctx, self.u = ctx, u
        self.P = ctx.P
        self.cfg = ctx.cfg(u)
        self.node_of = {}     # id(ast node) -> cfg node evaluating it
        for n in self.cfg.nodes:
            root = node_root(n)
            if root is None:
                continue
            for x in ast.walk(root):
                if self.P.owner_of(u.node, x) is u.node or x is root:
                    self.node_of.setdefault(id(x), n)
        self.IN = solve_forward(self.cfg, frozenset(), self.transfer, self.refine, lambda a, b: a & b)

    def reloaded(self, n):
        out = set()
        root = node_root(n)
        if root is None:
            return out
        for c in ast.walk(root):
            if isinstance(c, ast.Call) and isinstance(c.func, ast.Attribute) and isinstance(c.func.value, ast.Name):
                if c.func.attr in RELOADS:
                    out.add(c.func.value.id)
        return out

    def attr_stores(self, n):
        """self.x attributes assigned at this node -> kill facts mentioning 'self.x'"""
        out = set()
        a = n.ast
        if n.kind == 'stmt' and isinstance(a, (ast.Assign, ast.AugAssign, ast.AnnAssign)):
            tg = a.targets if isinstance(a, ast.Assign) else [a.target]
            for t in tg:
                for x in ast.walk(t):
                    if isinstance(x, ast.Attribute) and isinstance(x.ctx, ast.Store):
                        out.add(ast.unparse(x))
        return out

    def transfer(self, n, st):
        k = names_assigned(n) | self.reloaded(n)
        st = kill(st, k)
        attrs = self.attr_stores(n)
        if attrs:
            st = frozenset(f for f in st if not (f[0] in ('T', 'F') and any(a in f[1] for a in attrs)))
        # x = <expr known not None> is not tracked; assignment `v = call()` kills NN(v) (done by names_assigned)
        return st

    def refine(self, lab, st):
        if lab[0] in ('T', 'F') and lab[1] is not None:
            leaves = []
            decompose(lab[1], lab[0] == 'T', leaves)
            return st | frozenset(facts_of(leaves))
        return st

    def facts_at(self, expr):
        """facts holding when `expr` (an AST node inside this unit) is evaluated"""
        n = self.node_of.get(id(expr))
        if n is None or n.id not in self.IN:
            return None          # unreachable or unknown
        st = set(self.IN[n.id])
        root = node_root(n)
        # short-circuit context inside the node
        path = self._path(root, expr)
        for par, child in zip(path, path[1:]):
            if isinstance(par, ast.BoolOp):
                idx = next(i for i, v in enumerate(par.values) if v is child)
                for v in par.values[:idx]:
                    leaves = []
                    decompose(v, isinstance(par.op, ast.And), leaves)
                    st |= facts_of(leaves)
            elif isinstance(par, ast.IfExp) and child is not par.test:
                leaves = []
                decompose(par.test, child is par.body, leaves)
                st |= facts_of(leaves)
        return st

    def _path(self, root, target):
        path = []

        def rec(x):
            path.append(x)
            if x is target:
                return True
            for ch in ast.iter_child_nodes(x):
                if rec(ch):
                    return True
            path.pop()
            return False
        rec(root)
        return path

    def is_test_leaf(self, expr):
        n = self.node_of.get(id(expr))
        if n is None or n.kind != 'test':
            return False
        from .dataflow import test_leaves
        return any(l is expr for l in test_leaves(n.ast))


def guard_facts(ctx, u):
    key = ('gf', u)
    if key not in ctx._cache:
        ctx._cache[key] = GuardFacts(ctx, u)
    return ctx._cache[key]


_FLIP = {'<': '>', '>': '<', '<=': '>=', '>=': '<=', '==': '==', '!=': '!='}
_NEG = {'<': '>=', '>': '<=', '<=': '>', '>=': '<', '==': '!=', '!=': '=='}


def holds_cmp(facts, a, op, b):
    """is the comparison `a op b` known to hold, whatever way the source spells it (operands flipped, negated branch)?"""
    a, b = a.replace(' ', ''), b.replace(' ', '')
    want_true = {a + op + b, b + _FLIP[op] + a}
    want_false = {a + _NEG[op] + b, b + _FLIP[_NEG[op]] + a}
    for f in facts or ():
        if f[0] in ('T', 'F'):
            t = f[1].replace(' ', '')
            if (f[0] == 'T' and t in want_true) or (f[0] == 'F' and t in want_false):
                return True
    return False
