"""Shared context, finding/obligation records, rule registry."""
import ast
import time

from .program import Program, AnalysisError, norm_stmt
from .effects import Effects


class Finding:
    """one violated obligation: names a specific construct"""

    def __init__(self, rule, path, func, line, stmt, msg, detail=None):
        self.rule, self.path, self.func, self.line, self.stmt, self.msg = rule, path, func, line, stmt, msg
        self.detail = detail

    def key(self):
        # never keyed by line number
        return (self.rule, self.path, self.func, self.stmt)

    def to_json(self):
        d = {'rule': self.rule, 'file': self.path, 'function': self.func, 'line': self.line,
             'statement': self.stmt, 'message': self.msg}
        if self.detail is not None:
            d['detail'] = self.detail
        return d

    def text(self):
        return '%s %s:%d %s: %s  [%s]' % (self.rule, self.path, self.line, self.func, self.msg, self.stmt)


class RuleResult:
    def __init__(self, rule):
        self.rule = rule
        self.obligations = []     # list of dicts: {'where':..., 'what':..., 'ok': bool}
        self.findings = []
        self.info = {}            # extra recorded facts (tables, counts)
        self._seen = set()

    def ob(self, where, what, ok=True, **extra):
        d = {'rule': self.rule, 'where': where, 'what': what, 'ok': bool(ok)}
        d.update(extra)
        self.obligations.append(d)
        return d

    def fail(self, finding):
        if finding.key() + (finding.msg,) in self._seen:
            return
        self._seen.add(finding.key() + (finding.msg,))
        self.findings.append(finding)

    def require(self, n, floor, what):
        # `floor` is the count confirmed by reading the pinned tree; a refactoring that merges duplicated code legitimately
        # lowers it, so the armed floor leaves a third of slack - what it guards against is a rule matching (almost) nothing
        floor = max(1, (floor * 2) // 3)
        if n < floor:
            raise AnalysisError('%s: only %d %s found, expected at least %d - the rule would pass vacuously'
                                % (self.rule, n, what, floor))


class Ctx:
    """one parse of the repository shared by all rules of a run"""

    def __init__(self, root, tier='quick'):
        self.root = root
        self.tier = tier
        t0 = time.time()
        self.P = Program(root).solve()
        for _phase in range(3):
            if not self.P.desugar_records():
                break
            self.P = Program(root, premodules=self.P).solve()
        missed = self.P.check_resolution()
        if missed:
            raise AnalysisError('call(s) on a possibly-package receiver resolve to nothing: ' + '; '.join(missed))
        self.E = Effects(self.P)
        self.t_engines = time.time() - t0
        self._cfg = {}
        self._cache = {}

    def cfg(self, u):
        from .cfg import CFG
        if u not in self._cfg:
            self._cfg[u] = CFG(u.node)
        return self._cfg[u]

    def where(self, u, node=None):
        line = getattr(node, 'lineno', None) or u.node.lineno
        return '%s:%d %s' % (self.P.path_of(u), line, u.qual)

    def finding(self, rule, u, node, msg, detail=None, stmt=None):
        P = self.P
        st = node if isinstance(node, ast.stmt) else (P.stmt_of(node) if node is not None else None)
        if stmt is None:
            stmt = norm_stmt(st) if st is not None else norm_stmt(node) if node is not None else ''
        line = getattr(node, 'lineno', None) or (getattr(st, 'lineno', None)) or u.node.lineno
        return Finding(rule, P.path_of(u), u.qual, line, stmt, msg, detail)


RULES = {}


def rule(name):
    def deco(fn):
        RULES[name] = fn
        fn.rule_name = name
        return fn
    return deco


def run_rule(ctx, name):
    if name in ctx._cache:
        return ctx._cache[name]
    if name not in RULES:
        raise AnalysisError('unknown rule %s' % name)
    rr = RuleResult(name)
    try:
        RULES[name](ctx, rr)
    except AnalysisError as e:
        # a rule that has already recognised a wrong construct keeps that verdict; only a rule with nothing to report has "no verdict"
        if not rr.findings:
            raise
        rr.info['stopped_early'] = str(e)[:300]
    ctx._cache[name] = rr
    return rr
