"""AST-level inlining of *new* helper functions.

The rules anchor on the repository's vocabulary of functions (sa/vocabulary.json: every class method and module function of the
pinned tree).  A function that is not in the vocabulary was introduced later - typically by an extract-method refactoring.
Before the program model is built, calls of such helpers from vocabulary functions are inlined back (parameter substitution,
tail-return elimination, fresh names for the helper's locals), so that every rule sees the code in the shape it anchors on.
Inlining preserves the semantics of the analysed program; helpers that cannot be inlined (generators, recursion, returns inside
loops, *args) are left alone and analysed as ordinary functions.
"""
import ast
import copy
import json
import os

HERE = os.path.dirname(os.path.abspath(__file__))


def load_vocabulary():
    p = os.path.join(HERE, 'vocabulary.json')
    return set(json.load(open(p)))


def collect_defs(modules):
    """{qual: (mod, class or None, FunctionDef)}"""
    out = {}
    for mod, tree in modules.items():
        for n in tree.body:
            if isinstance(n, ast.ClassDef):
                for m in n.body:
                    if isinstance(m, ast.FunctionDef):
                        out['%s.%s' % (n.name, m.name)] = (mod, n, m)
            elif isinstance(n, ast.FunctionDef):
                out['%s:%s' % (mod, n.name)] = (mod, None, n)
    return out


def _is_static(fn):
    return any(isinstance(d, ast.Name) and d.id == 'staticmethod' for d in fn.decorator_list)


def _tail_returns_only(stmts):
    """every Return is in tail position of the statement list (through if/else chains only)"""
    for i, s in enumerate(stmts):
        last = i == len(stmts) - 1
        if isinstance(s, ast.Return):
            continue        # anything after it is dead
        has_ret = any(isinstance(x, ast.Return) for x in ast.walk(s))
        if not has_ret:
            continue
        if isinstance(s, ast.If):
            # returns inside an if are fine when each branch's returns are tail within the branch (the rest is duplicated)
            if not _tail_returns_only(s.body) or not _tail_returns_only(s.orelse):
                return False
            continue
        return False        # return inside a loop / try / with
    return True


def _always_returns(stmts):
    for s in stmts:
        if isinstance(s, (ast.Return, ast.Raise)):
            return True
        if isinstance(s, ast.If) and s.orelse and _always_returns(s.body) and _always_returns(s.orelse):
            return True
    return False


def _elim_returns(stmts, assign):
    """rewrite a statement list whose returns are all tail: `return v` -> assign(v); code after an if that returns is moved
    into the non-returning branch"""
    out = []
    for i, s in enumerate(stmts):
        if isinstance(s, ast.Return):
            out.extend(assign(s.value))
            return out
        if isinstance(s, ast.If) and any(isinstance(x, ast.Return) for x in ast.walk(s)):
            rest = stmts[i + 1:]
            body = _elim_returns(s.body + ([] if _always_returns(s.body) else copy.deepcopy(rest)), assign)
            orelse = _elim_returns(s.orelse + ([] if (s.orelse and _always_returns(s.orelse)) else copy.deepcopy(rest)), assign)
            out.append(ast.copy_location(ast.If(test=s.test, body=body or [ast.Pass()], orelse=orelse), s))
            return out
        out.append(s)
    out.extend(assign(None, implicit=True))
    return out


class _Rename(ast.NodeTransformer):
    def __init__(self, mapping, subst):
        self.mapping, self.subst = mapping, subst

    def visit_Name(self, node):
        if node.id in self.subst and isinstance(node.ctx, ast.Load):
            return copy.deepcopy(self.subst[node.id])
        if node.id in self.mapping:
            return ast.copy_location(ast.Name(id=self.mapping[node.id], ctx=node.ctx), node)
        return node


def _inlinable(fn):
    a = fn.args
    if a.vararg or a.kwarg or a.posonlyargs:
        return False
    for d in fn.decorator_list:
        if not (isinstance(d, ast.Name) and d.id == 'staticmethod'):
            return False
    for x in ast.walk(fn):
        if isinstance(x, (ast.Yield, ast.YieldFrom, ast.Lambda, ast.Global, ast.Nonlocal)):
            return False
        if isinstance(x, (ast.FunctionDef, ast.ClassDef)) and x is not fn:
            return False
        if isinstance(x, ast.Call):
            f = x.func
            if (isinstance(f, ast.Attribute) and f.attr == fn.name) or (isinstance(f, ast.Name) and f.id == fn.name):
                return False        # (possibly) recursive
    body = [s for s in fn.body if not (isinstance(s, ast.Expr) and isinstance(s.value, ast.Constant))]
    return _tail_returns_only(body)


class Inliner:
    def __init__(self, modules, vocabulary):
        self.modules = modules
        self.vocab = vocabulary
        self.defs = collect_defs(modules)
        self.renamed = _undo_private_renames(modules, self.defs, vocabulary)
        if self.renamed:
            self.defs = collect_defs(modules)
        self.new = {q: v for q, v in self.defs.items() if q not in vocabulary and not (q.split('.')[-1].startswith('__') and q.endswith('__'))}
        self.inl = {q: v for q, v in self.new.items() if _inlinable(v[2])}
        self.gen_helpers = {}
        self.tail_gen_helpers = {}
        self.eager_prefix = {}
        for q_, (m_, c_, f_) in self.new.items():
            if q_ in self.inl:
                continue
            is_gen = any(isinstance(x, (ast.Yield, ast.YieldFrom)) for x in ast.walk(f_))
            a_ = f_.args
            simple = not (a_.vararg or a_.kwarg or a_.posonlyargs) and not [d for d in f_.decorator_list if not (isinstance(d, ast.Name) and d.id == 'staticmethod')]
            rec = any(isinstance(x, ast.Call) and ((isinstance(x.func, ast.Attribute) and x.func.attr == f_.name) or (isinstance(x.func, ast.Name) and x.func.id == f_.name))
                      for x in ast.walk(f_))
            rets = [x for x in ast.walk(f_) if isinstance(x, ast.Return)]
            nested = any(isinstance(x, (ast.FunctionDef, ast.Lambda, ast.ClassDef)) and x is not f_ for x in ast.walk(f_))
            # a bare `return` inside the helper would end the caller too: only helpers without return
            if is_gen and simple and not rec and not rets and not nested:
                self.gen_helpers[q_] = (m_, c_, f_)
            # in tail position (`return helper(...)` as the last statement of a non-generator wrapper) a bare return of the helper
            # ends the request just as it would end the wrapper's generator
            if is_gen and simple and not rec and not nested and all(r_.value is None for r_ in rets):
                self.tail_gen_helpers[q_] = (m_, c_, f_)
        self.counter = 0
        self.inlined_sites = 0
        self.report = []
        self.local_closures = {}

    # ------------------------------------------------------------------ which helper does a call denote?
    def target(self, call, mod, cls):
        f = call.func
        if isinstance(f, ast.Attribute) and isinstance(f.value, ast.Name):
            if cls is not None and f.value.id in ('self', cls.name):
                q = '%s.%s' % (cls.name, f.attr)
                if q in self.inl:
                    return q
        if isinstance(f, ast.Name):
            if f.id in self.local_closures:
                return self.local_closures[f.id]
            q = '%s:%s' % (mod, f.id)
            if q in self.inl:
                return q
            # imported module-level helper
            tree = self.modules[mod]
            for n in tree.body:
                if isinstance(n, ast.ImportFrom) and n.module:
                    for a in n.names:
                        if (a.asname or a.name) == f.id:
                            for q2, (m2, c2, fn2) in self.inl.items():
                                if c2 is None and fn2.name == a.name and (m2 == n.module or m2.endswith('.' + n.module)):
                                    return q2
        return None

    # ------------------------------------------------------------------ expansion of one call
    def expand(self, call, q, result_target, tuple_targets=None):
        """-> (statements, result expression)"""
        mod, cls, fn = self.inl[q]
        self.counter += 1
        pre = '_i%d_' % self.counter
        params = [a.arg for a in fn.args.args]
        static = _is_static(fn)
        if cls is not None and not static:
            params = params[1:]       # self
        defaults = dict(zip([a.arg for a in fn.args.args][len(fn.args.args) - len(fn.args.defaults):], fn.args.defaults))
        for a, d in zip(fn.args.kwonlyargs, fn.args.kw_defaults):
            params.append(a.arg)
            if d is not None:
                defaults[a.arg] = d
        bound = {}
        for p, a in zip(params, call.args):
            bound[p] = a
        for k in call.keywords:
            if k.arg:
                bound[k.arg] = k.value
        for p in params:
            if p not in bound:
                if p in defaults:
                    bound[p] = defaults[p]
                else:
                    return None
        body = [copy.deepcopy(s) for s in fn.body if not (isinstance(s, ast.Expr) and isinstance(s.value, ast.Constant))]
        stored = {x.id for s in body for x in ast.walk(s) if isinstance(x, ast.Name) and isinstance(x.ctx, (ast.Store, ast.Del))}
        subst, pre_stmts, mapping = {}, [], {}
        for p in params:
            a = bound[p]
            simple = isinstance(a, (ast.Constant, ast.Name)) or (isinstance(a, ast.Attribute) and isinstance(a.value, ast.Name))
            if simple and p not in stored:
                subst[p] = a
            else:
                mapping[p] = pre + p
                pre_stmts.append(ast.copy_location(ast.Assign(targets=[ast.Name(id=pre + p, ctx=ast.Store())], value=a), call))
        for n in stored:
            if n not in mapping:
                mapping[n] = pre + n
        rn = _Rename(mapping, subst)
        body = [rn.visit(s) for s in body]
        res_name = result_target or (pre + 'ret')

        def assign(value, implicit=False):
            if implicit and not any(isinstance(x, ast.Return) for s in fn.body for x in ast.walk(s)):
                return []
            v = value if value is not None else ast.Constant(value=None)
            if tuple_targets is not None and isinstance(v, ast.Tuple) and len(v.elts) == len(tuple_targets):
                tmp = [pre + 'r%d' % k for k in range(len(v.elts))]
                out_ = [ast.copy_location(ast.Assign(targets=[ast.Name(id=t, ctx=ast.Store())], value=e), v) for t, e in zip(tmp, v.elts)]
                out_ += [ast.copy_location(ast.Assign(targets=[ast.Name(id=t, ctx=ast.Store())], value=ast.Name(id=tm, ctx=ast.Load())), v)
                         for t, tm in zip(tuple_targets, tmp)]
                return out_
            if tuple_targets is not None:
                # a non-tuple value (e.g. the result of another call) is unpacked by the caller's own targets
                tg = ast.Tuple(elts=[ast.Name(id=t, ctx=ast.Store()) for t in tuple_targets], ctx=ast.Store())
                return [ast.copy_location(ast.Assign(targets=[tg], value=v), value if value is not None else call)]
            return [ast.copy_location(ast.Assign(targets=[ast.Name(id=res_name, ctx=ast.Store())], value=v), value if value is not None else call)]
        body = _elim_returns(body, assign)
        for s in pre_stmts + body:
            ast.fix_missing_locations(s)
        self.inlined_sites += 1
        self.report.append('%s inlined at line %d' % (q, call.lineno))
        return pre_stmts + body, ast.copy_location(ast.Name(id=res_name, ctx=ast.Load()), call)

    # ------------------------------------------------------------------ statement rewriting
    def own_exprs(self, s):
        """(field, expression) pairs evaluated by statement s itself (not by nested statements)"""
        if isinstance(s, (ast.Assign, ast.AugAssign, ast.AnnAssign, ast.Return, ast.Expr)):
            return [('value', s.value)] if getattr(s, 'value', None) is not None else []
        if isinstance(s, ast.If):
            return [('test', s.test)]
        if isinstance(s, ast.For):
            return [('iter', s.iter)]
        if isinstance(s, ast.Raise):
            return [('exc', s.exc)] if s.exc is not None else []
        if isinstance(s, ast.Assert):
            return [('test', s.test)]
        return []

    def _gen_helper_of(self, s, mod, cls):
        """(call, helper qual) when statement s only re-yields a new generator helper"""
        call = None
        if isinstance(s, ast.Expr) and isinstance(s.value, ast.YieldFrom) and isinstance(s.value.value, ast.Call):
            call = s.value.value
        elif isinstance(s, ast.For) and isinstance(s.iter, ast.Call) and not s.orelse and len(s.body) == 1 and isinstance(s.body[0], ast.Expr) \
                and isinstance(s.body[0].value, ast.Yield) and s.body[0].value.value is not None \
                and ast.dump(s.body[0].value.value) == ast.dump(s.target).replace('Store()', 'Load()'):
            call = s.iter
        if call is None:
            return None
        f = call.func
        q = None
        if isinstance(f, ast.Attribute) and isinstance(f.value, ast.Name) and cls is not None and f.value.id in ('self', cls.name):
            q = '%s.%s' % (cls.name, f.attr)
        elif isinstance(f, ast.Name):
            q = '%s:%s' % (mod, f.id)
        if q in self.gen_helpers:
            return call, q
        return None

    def expand_generator(self, call, q, outer_names=None):
        """outer_names: set of names used by the caller when the expansion becomes the caller's tail (helper locals are then kept
        under their own names unless they clash)"""
        mod, cls, fn = self.gen_helpers[q]
        self.counter += 1
        pre = '_i%d_' % self.counter
        params = [a.arg for a in fn.args.args]
        if cls is not None and not _is_static(fn):
            params = params[1:]
        defaults = dict(zip([a.arg for a in fn.args.args][len(fn.args.args) - len(fn.args.defaults):], fn.args.defaults))
        bound = {}
        for p_, a_ in zip(params, call.args):
            bound[p_] = a_
        for k in call.keywords:
            if k.arg:
                bound[k.arg] = k.value
        for p_ in params:
            if p_ not in bound:
                if p_ in defaults:
                    bound[p_] = defaults[p_]
                else:
                    return None
        body = [copy.deepcopy(s_) for s_ in fn.body if not (isinstance(s_, ast.Expr) and isinstance(s_.value, ast.Constant))]
        stored = {x.id for s_ in body for x in ast.walk(s_) if isinstance(x, ast.Name) and isinstance(x.ctx, (ast.Store, ast.Del))}
        subst, pre_stmts, mapping = {}, [], {}
        identity = set()
        for p_ in params:
            a_ = bound[p_]
            if outer_names is not None and isinstance(a_, ast.Name) and a_.id == p_:
                identity.add(p_)         # the wrapper hands its own parameter over under the same name
                continue
            simple = isinstance(a_, (ast.Constant, ast.Name)) or (isinstance(a_, ast.Attribute) and isinstance(a_.value, ast.Name))
            if simple and p_ not in stored:
                subst[p_] = a_
            elif outer_names is not None and p_ not in outer_names:
                identity.add(p_)
                pre_stmts.append(ast.copy_location(ast.Assign(targets=[ast.Name(id=p_, ctx=ast.Store())], value=a_), call))
            else:
                mapping[p_] = pre + p_
                pre_stmts.append(ast.copy_location(ast.Assign(targets=[ast.Name(id=pre + p_, ctx=ast.Store())], value=a_), call))
        for n_ in stored:
            if n_ not in mapping and n_ not in identity:
                if outer_names is not None and n_ not in outer_names:
                    continue
                mapping[n_] = pre + n_
        rn = _Rename(mapping, subst)
        body = [rn.visit(s_) for s_ in body]
        for s_ in pre_stmts + body:
            ast.fix_missing_locations(s_)
        self.inlined_sites += 1
        self.report.append('%s (generator) inlined at line %d' % (q, call.lineno))
        return pre_stmts + body

    def _inline_tail_generator(self, q, mod, cls, fn):
        """a non-generator function that ends with `return <new generator helper>(...)` is the request split into an eager prefix and
        the generator proper: the helper's body is put back; the statements of the prefix are remembered (they run at creation time)"""
        if not fn.body or any(isinstance(x, (ast.Yield, ast.YieldFrom)) for x in ast.walk(fn)):
            return
        last = fn.body[-1]
        if not (isinstance(last, ast.Return) and isinstance(last.value, ast.Call)):
            return
        if any(isinstance(x, ast.Return) and x is not last for x in ast.walk(fn)):
            return
        call = last.value
        f = call.func
        hq = None
        if isinstance(f, ast.Attribute) and isinstance(f.value, ast.Name) and cls is not None and f.value.id in ('self', cls.name):
            hq = '%s.%s' % (cls.name, f.attr)
        elif isinstance(f, ast.Name):
            hq = '%s:%s' % (mod, f.id)
        if hq not in self.tail_gen_helpers or hq == q:
            return
        saved = self.gen_helpers
        self.gen_helpers = self.tail_gen_helpers
        outer = {x.id for s_ in fn.body[:-1] for x in ast.walk(s_) if isinstance(x, ast.Name)} | {a_.arg for a_ in fn.args.args + fn.args.kwonlyargs}
        try:
            r = self.expand_generator(call, hq, outer_names=outer)
        finally:
            self.gen_helpers = saved
        if r is None:
            return
        self.eager_prefix[q] = [copy.deepcopy(s_) for s_ in fn.body[:-1] if not (isinstance(s_, ast.Expr) and isinstance(s_.value, ast.Constant))]
        fn.body = fn.body[:-1] + r
        self._tail_inlined = getattr(self, '_tail_inlined', set()) | {hq}

    def rewrite_block(self, stmts, mod, cls):
        out = []
        for s in stmts:
            gh = self._gen_helper_of(s, mod, cls)
            if gh is not None:
                r = self.expand_generator(*gh)
                if r is not None:
                    out.extend(self.rewrite_block(r, *self._ctx_of(gh[1])))
                    continue
            pre = []
            for field, e in self.own_exprs(s):
                calls = [c for c in ast.walk(e) if isinstance(c, ast.Call) and self.target(c, mod, cls)]
                calls.sort(key=lambda c: (c.end_lineno, c.end_col_offset))
                for c in calls:
                    q = self.target(c, mod, cls)
                    # direct assignment `x = helper(...)`: let the helper assign x itself
                    direct = None
                    tup = None
                    if isinstance(s, ast.Assign) and s.value is c and len(s.targets) == 1 and isinstance(s.targets[0], ast.Name):
                        direct = s.targets[0].id
                    if isinstance(s, ast.Assign) and s.value is c and len(s.targets) == 1 and isinstance(s.targets[0], ast.Tuple) \
                            and all(isinstance(x, ast.Name) for x in s.targets[0].elts):
                        tup = [x.id for x in s.targets[0].elts]
                        direct = '_unused'
                    r = self.expand(c, q, direct if tup is None else None, tuple_targets=tup)
                    if r is None:
                        continue
                    new_stmts, res = r
                    pre.extend(self.rewrite_block(new_stmts, *self._ctx_of(q)))
                    if direct:
                        s = None
                        break
                    self._replace(s, c, res)
                if s is None:
                    break
            out.extend(pre)
            if s is None:
                continue
            for fld in ('body', 'orelse', 'finalbody'):
                sub = getattr(s, fld, None)
                if isinstance(sub, list) and sub and isinstance(sub[0], ast.stmt) and not isinstance(s, (ast.FunctionDef, ast.ClassDef)):
                    setattr(s, fld, self.rewrite_block(sub, mod, cls))
            for h in getattr(s, 'handlers', []):
                h.body = self.rewrite_block(h.body, mod, cls)
            out.append(s)
        return out

    def _inline_closures(self, q, mod, cls, fn):
        """nested helper functions that are not part of the vocabulary (closures extracted by a refactoring) are inlined at their
        call sites inside the enclosing function; free variables keep their names, the closure's own locals get fresh ones"""
        nested = []

        def find(stmts):
            for s_ in stmts:
                if isinstance(s_, ast.FunctionDef):
                    nested.append(s_)
                    continue
                for fld in ('body', 'orelse', 'finalbody'):
                    sub = getattr(s_, fld, None)
                    if isinstance(sub, list) and sub and isinstance(sub[0], ast.stmt) and not isinstance(s_, ast.ClassDef):
                        find(sub)
                for h in getattr(s_, 'handlers', []):
                    find(h.body)
        find(fn.body)
        todo = {}
        for nf in nested:
            nq = '%s.<locals>.%s' % (q, nf.name)
            if nq in self.vocab or not _inlinable(nf):
                continue
            # the name must only be used as a call target inside fn
            uses = [x for x in ast.walk(fn) if isinstance(x, ast.Name) and x.id == nf.name and isinstance(x.ctx, ast.Load)]
            calls = [c for c in ast.walk(fn) if isinstance(c, ast.Call) and isinstance(c.func, ast.Name) and c.func.id == nf.name]
            if len(uses) != len(calls) or not calls:
                continue
            todo[nf.name] = (nq, nf)
        if not todo:
            return
        for name, (nq, nf) in todo.items():
            self.inl[nq] = (mod, None, nf)
            self.local_closures[name] = nq
        try:
            fn.body = self.rewrite_block(fn.body, mod, cls)
        finally:
            for name, (nq, nf) in todo.items():
                self.local_closures.pop(name, None)
                self.inl.pop(nq, None)
        # drop the nested definitions that are no longer referenced
        for name, (nq, nf) in todo.items():
            still = any(isinstance(x, ast.Name) and x.id == name and isinstance(x.ctx, ast.Load) for x in ast.walk(fn))
            if not still:
                for n_ in ast.walk(fn):
                    for fld in ('body', 'orelse', 'finalbody'):
                        seq = getattr(n_, fld, None)
                        if isinstance(seq, list) and nf in seq:
                            seq.remove(nf)
                            if not seq:
                                seq.append(ast.copy_location(ast.Pass(), nf))

    def _returns_tuples(self, q, n):
        fn = self.inl[q][2]
        rets = [x for x in ast.walk(fn) if isinstance(x, ast.Return)]
        return bool(rets) and all(isinstance(x.value, ast.Tuple) and len(x.value.elts) == n for x in rets)

    def _ctx_of(self, q):
        mod, cls, fn = self.inl[q] if q in self.inl else self.gen_helpers[q]
        return mod, cls

    def _replace(self, stmt, old, new):
        for parent in ast.walk(stmt):
            for fld, val in ast.iter_fields(parent):
                if val is old:
                    setattr(parent, fld, new)
                    return
                if isinstance(val, list):
                    for i, x in enumerate(val):
                        if x is old:
                            val[i] = new
                            return

    # ------------------------------------------------------------------ driver
    def run(self):
        for q, (mod, cls, fn) in self.defs.items():
            if q in self.inl:
                continue
            self._inline_closures(q, mod, cls, fn)
            self._inline_tail_generator(q, mod, cls, fn)
            fn.body = self.rewrite_block(fn.body, mod, cls)
            # nested functions of vocabulary functions
            for sub in ast.walk(fn):
                if isinstance(sub, ast.FunctionDef) and sub is not fn:
                    sub.body = self.rewrite_block(sub.body, mod, cls)
        # drop helpers that are no longer called anywhere
        for q, (mod, cls, fn) in list(self.inl.items()) + list(self.gen_helpers.items()) + [(k_, v_) for k_, v_ in self.tail_gen_helpers.items() if k_ not in self.gen_helpers]:
            still = False
            for m2, tree in self.modules.items():
                for c in ast.walk(tree):
                    if isinstance(c, ast.Call):
                        f = c.func
                        nm = f.attr if isinstance(f, ast.Attribute) else (f.id if isinstance(f, ast.Name) else None)
                        if nm == fn.name and not any(c is x for x in ast.walk(fn)):
                            still = True
            if not still:
                holder = cls.body if cls is not None else self.modules[mod].body
                if fn in holder:
                    holder.remove(fn)
                    if cls is not None and not cls.body:
                        cls.body.append(ast.Pass())
        if self.inlined_sites:
            for q, (mod, cls, fn) in self.defs.items():
                if q not in self.inl:
                    _collapse_aliases(fn)
        for tree in self.modules.values():
            ast.fix_missing_locations(tree)
        return self


def _own_nodes(fn):
    out = []

    def rec(n):
        for ch in ast.iter_child_nodes(n):
            if isinstance(ch, (ast.FunctionDef, ast.AsyncFunctionDef, ast.Lambda, ast.ClassDef)):
                continue
            out.append(ch)
            rec(ch)
    rec(fn)
    return out


def _collapse_aliases(fn, prefix=r'_i\d+_'):
    """after inlining: `x = _iN_y` where x is bound only there makes _iN_y an alias of x from its birth - rename it to x and drop
    the copy; bare expression statements of generated names (result of an inlined procedure call) are dropped"""
    import re
    gen = re.compile(prefix)
    params = {a.arg for a in fn.args.args + fn.args.kwonlyargs}
    for _round in range(200):
        nodes = _own_nodes(fn)
        hit = None
        for a in nodes:
            if isinstance(a, ast.Assign) and len(a.targets) == 1 and isinstance(a.targets[0], ast.Name) and isinstance(a.value, ast.Name) \
                    and gen.match(a.value.id) and a.targets[0].id not in params and a.targets[0].id != a.value.id:
                A, B = a.targets[0].id, a.value.id
                stores = [x for x in nodes if isinstance(x, ast.Name) and x.id == A and isinstance(x.ctx, ast.Store)]
                if len(stores) == 1:
                    hit = (a, A, B)
                    break
                # `for B, ... in X: A = B; ...` with no other binding of A inside that loop: B is A from its birth in each round
                for f in nodes:
                    if isinstance(f, ast.For) and f.body and f.body[0] is a and any(isinstance(x, ast.Name) and x.id == B for x in ast.walk(f.target)):
                        inner = [x for s_ in f.body for x in ast.walk(s_) if isinstance(x, ast.Name) and x.id == A and isinstance(x.ctx, ast.Store)]
                        outside_B = [x for x in nodes if isinstance(x, ast.Name) and x.id == B and not any(x is y for y in ast.walk(f))]
                        if len(inner) == 1 and not outside_B:
                            hit = (a, A, B)
                if hit:
                    break
        if hit is None:
            break
        a, A, B = hit
        for x in nodes:
            if isinstance(x, ast.Name) and x.id == B:
                x.id = A
        _drop_stmt(fn, a)
    for x in _own_nodes(fn):
        if isinstance(x, ast.Expr) and isinstance(x.value, ast.Name) and gen.match(x.value.id):
            _drop_stmt(fn, x)
    # a generated result temporary bound once to a constant or a plain name is that constant / name wherever it is read
    for _round in range(200):
        nodes = _own_nodes(fn)
        hit = None
        for a in nodes:
            if isinstance(a, ast.Assign) and len(a.targets) == 1 and isinstance(a.targets[0], ast.Name) and re.match(r'_i\d+_(ret|r\d+)$', a.targets[0].id) \
                    and isinstance(a.value, ast.Constant):
                T_ = a.targets[0].id
                stores = [x for x in nodes if isinstance(x, ast.Name) and x.id == T_ and isinstance(x.ctx, ast.Store)]
                if len(stores) == 1:
                    hit = (a, T_)
                    break
        if hit is None:
            break
        a, T_ = hit
        for x in [x for x in nodes if isinstance(x, ast.Name) and x.id == T_ and isinstance(x.ctx, ast.Load)]:
            _replace_in(fn, x, copy.deepcopy(a.value))
        _drop_stmt(fn, a)
    # a generated temporary bound once and read once by the statement that follows is that expression
    for _round in range(200):
        nodes = _own_nodes(fn)
        done = False
        for holder in [fn] + [n for n in nodes if isinstance(n, ast.stmt)]:
            for field in ('body', 'orelse', 'finalbody'):
                seq = getattr(holder, field, None)
                if not (isinstance(seq, list) and seq and isinstance(seq[0], ast.stmt)):
                    continue
                for i, a in enumerate(seq[:-1]):
                    if isinstance(a, ast.Assign) and len(a.targets) == 1 and isinstance(a.targets[0], ast.Name) and re.match(r'_i\d+_(ret|r\d+)$', a.targets[0].id):
                        T_ = a.targets[0].id
                        stores = [x for x in nodes if isinstance(x, ast.Name) and x.id == T_ and isinstance(x.ctx, ast.Store)]
                        loads = [x for x in nodes if isinstance(x, ast.Name) and x.id == T_ and isinstance(x.ctx, ast.Load)]
                        nxt = seq[i + 1]
                        # only the expressions the next statement evaluates itself (not its nested blocks)
                        own_next = []
                        for f2, v2 in ast.iter_fields(nxt):
                            if f2 in ('body', 'orelse', 'finalbody', 'handlers'):
                                continue
                            vs = v2 if isinstance(v2, list) else [v2]
                            for v3 in vs:
                                if isinstance(v3, ast.AST):
                                    own_next += list(ast.walk(v3))
                        if len(stores) == 1 and len(loads) == 1 and any(l is loads[0] for l in own_next):
                            _replace_in(nxt, loads[0], a.value)
                            seq.remove(a)
                            done = True
                            break
                if done:
                    break
            if done:
                break
        if not done:
            break


def _drop_stmt(root, stmt):
    for n in ast.walk(root):
        for field in ('body', 'orelse', 'finalbody'):
            seq = getattr(n, field, None)
            if isinstance(seq, list) and stmt in seq:
                seq.remove(stmt)
                if not seq and field == 'body':
                    seq.append(ast.copy_location(ast.Pass(), stmt))
                return


def _undo_private_renames(modules, defs, vocabulary):
    """a private helper of the vocabulary that is gone while exactly one new private helper appeared in the same class / module
    was renamed: give it its vocabulary name back (definition and call sites), so that the rules find their anchor"""
    renamed = []
    groups = {}
    for q in vocabulary:
        if '<locals>' in q:
            continue
        owner, name = (q.rsplit('.', 1) if ':' not in q else q.rsplit(':', 1))
        if name.startswith('_') and not name.endswith('__') and q not in defs:
            groups.setdefault(owner, {'missing': [], 'new': []})['missing'].append(name)
    for q, (mod, cls, fn) in defs.items():
        owner = cls.name if cls is not None else mod
        if q not in vocabulary and fn.name.startswith('_') and not fn.name.endswith('__') and owner in groups:
            groups[owner]['new'].append((q, fn))
    for owner, g in groups.items():
        if len(g['missing']) == 1 and len(g['new']) == 1:
            old_name = g['missing'][0]
            q, fn = g['new'][0]
            new_name = fn.name
            fn.name = old_name
            for tree in modules.values():
                for x in ast.walk(tree):
                    if isinstance(x, ast.Attribute) and x.attr == new_name:
                        x.attr = old_name
                    elif isinstance(x, ast.Name) and x.id == new_name:
                        x.id = old_name
            renamed.append((owner, new_name, old_name))
    return renamed


def _replace_in(root, old, new_expr):
    for n in ast.walk(root):
        for field, val in ast.iter_fields(n):
            if val is old:
                setattr(n, field, ast.copy_location(new_expr, old))
                return True
            if isinstance(val, list):
                for i, x in enumerate(val):
                    if x is old:
                        val[i] = ast.copy_location(new_expr, old)
                        return True
    return False
