"""E8b: de-sugaring of statement forms into the core forms the rules are written against (run after the inliner).

N1  `yield from E`                                  ->  `for _yf in E: yield _yf`
N2  `R.update(<comp>)` / `R.extend(<comp>)` / `R.update({k: v for ...})` as a statement
                                                    ->  the loop that adds / appends / stores each element
N3  a name bound once to a generator expression and consumed once as the iterable of another comprehension or `for`
                                                    ->  the generator expression is substituted for the name
N25 `v = <call>; self.a = v` -> `self.a = <call>`, later `v` reads `self.a`
N24 `while True: if <t>: break; body` -> `while not <t>: body`
N23 `x = A if C else B` -> `if C: x = A else: x = B`
N22 `f = True; while f: body; f = <test>` -> `while True: body; if not <test>: break`
N21 `R |= {comp}` / `R += [comp]` / `R = set(<gen>)` / `R = [comp]` over a package walk (`*_iter(...)`) -> loop with add/append
N4  `for x in (elt for y in it if c): body`          ->  `for y in it: if c: x = elt; body`
N6  `for x in (a, b): body` (2..4 simple elements, no break/continue/yield, x not re-bound)
                                                    ->  body[x:=a]; body[x:=b]
N7  `x = self.a.b` / `push = stack.append` bound once at function top level, attribute not re-bound in the function
                                                    ->  the attribute expression is substituted for x
N11 `for x in chain((a,), it): body` -> body[x:=a]; for x in it: body
N16 `x = x + e` -> `x += e`
N19 `if c: ...return else: rest` -> `if c: ...return; rest`;  N20 `c = <test>; if c:` (c read nowhere else) -> test inlined
N18 `x = <expr>; return x` (x read nowhere else) -> `return <expr>`
N15 a local only bound to k-tuple displays and only read as `*x` / `x[const]` -> k locals
N14 `for x in iter(f, sentinel): body` -> `while True: x = f(); if x is sentinel: break; body`
N13 `Class.method(obj, args)` of a package class -> `obj.method(args)`
N12 module-level `S = struct.Struct(F)`: S.pack/unpack/size -> struct.pack/unpack/calcsize with F
N9  calls of package functions -> the pinned tree's calling convention per parameter (sa/callconv.json)
N5  `a, b = v1, v2` (same length, no starred, no name of the left read on the right)
                                                    ->  `a = v1; b = v2`
Nothing else is touched; comprehensions that build a value (`xs = [f(x) for x in ys]`) stay as they are, the rules know them.
The evaluation order of independent pure expressions may differ from the source; no rule depends on it.
"""
import ast
import copy
import json
import os


def signatures(modules):
    """{function or method name: parameter list (without self)} for the names that have exactly one parameter list in the package
    (constructors are listed under their class name); *args / **kwargs functions are left out"""
    sigs = {}

    def add(name, fn, method):
        a = fn.args
        if a.vararg or a.kwarg or a.posonlyargs:
            sigs.setdefault(name, set()).add(None)
            return
        ps = [x.arg for x in a.args]
        static = any(isinstance(d, ast.Name) and d.id == 'staticmethod' for d in fn.decorator_list)
        if method and not static:
            ps = ps[1:]
        nreq = len(ps) - len(a.defaults)
        sigs.setdefault(name, set()).add((tuple(ps + [x.arg for x in a.kwonlyargs]), nreq))
    for tree in modules.values():
        for n in tree.body:
            if isinstance(n, ast.ClassDef):
                for m in n.body:
                    if isinstance(m, ast.FunctionDef):
                        add(n.name if m.name == '__init__' else m.name, m, True)
            elif isinstance(n, ast.FunctionDef):
                add(n.name, n, False)
    return {k: [(list(x[0]), x[1]) for x in v] for k, v in sigs.items() if None not in v}


def pick_signature(cands, call):
    """the parameter list of the callee of `call` among the homonyms: the only one that accepts this call shape"""
    ok = []
    for ps, nreq in cands:
        kws = [k.arg for k in call.keywords]
        given = set(ps[:len(call.args)]) | set(kws)
        if len(call.args) + len(kws) <= len(ps) and all(k in ps for k in kws) and not any(k in ps[:len(call.args)] for k in kws) \
                and all(p_ in given for p_ in ps[:nreq]):
            ok.append(ps)
    return ok[0] if len(ok) == 1 else None


def load_callconv():
    p = os.path.join(os.path.dirname(os.path.abspath(__file__)), 'callconv.json')
    return json.load(open(p)) if os.path.exists(p) else {}


def _loc(new, old):
    for n in ast.walk(new):
        if not hasattr(n, 'lineno') or getattr(n, 'lineno', None) is None:
            pass
    ast.copy_location(new, old)
    for n in ast.walk(new):
        if not hasattr(n, 'lineno'):
            n.lineno = old.lineno
            n.col_offset = old.col_offset
            n.end_lineno = getattr(old, 'end_lineno', old.lineno)
            n.end_col_offset = getattr(old, 'end_col_offset', old.col_offset)
    return new


def _comp_to_loop(gens, leaf_stmts, at):
    """nest `for g.target in g.iter: if g.ifs: ...` around leaf_stmts"""
    body = leaf_stmts
    for g in reversed(gens):
        for c in reversed(g.ifs):
            body = [_loc(ast.If(test=c, body=body, orelse=[]), at)]
        body = [_loc(ast.For(target=copy.deepcopy(g.target), iter=g.iter, body=body, orelse=[], type_comment=None), at)]
        for x in ast.walk(body[0].target):
            if isinstance(x, ast.Name):
                x.ctx = ast.Store()
    return body


class Normalizer:
    def __init__(self, modules):
        self.modules = modules
        self.changes = 0
        self.counter = 0

    def run(self):
        self.unbound_method_calls()
        self.inline_struct_objects()
        self.canonical_calls()
        for mod, tree in self.modules.items():
            for fn in [n for n in ast.walk(tree) if isinstance(n, (ast.FunctionDef, ast.AsyncFunctionDef))]:
                self.inline_generator_names(fn)
                self.inline_attribute_aliases(fn)
                self.scalarise_tuple_locals(fn)
            self.rewrite_blocks(tree)
        return self

    # ------------------------------------------------------------------ N13
    def unbound_method_calls(self):
        """`Class.method(obj, args)` for a package class is `obj.method(args)`"""
        classes = {}
        for tree in self.modules.values():
            for n in tree.body:
                if isinstance(n, ast.ClassDef):
                    classes[n.name] = {m.name for m in n.body if isinstance(m, ast.FunctionDef)}
        for tree in self.modules.values():
            for c in ast.walk(tree):
                if isinstance(c, ast.Call) and isinstance(c.func, ast.Attribute) and isinstance(c.func.value, ast.Name) and c.func.value.id in classes \
                        and c.func.attr in classes[c.func.value.id] and c.args and not isinstance(c.args[0], ast.Starred) and not c.func.attr.startswith('__'):
                    obj = c.args.pop(0)
                    c.func = ast.copy_location(ast.Attribute(value=obj, attr=c.func.attr, ctx=ast.Load()), c.func)
                    self.changes += 1

    # ------------------------------------------------------------------ N12
    def inline_struct_objects(self):
        """module-level `S = struct.Struct(F)`: S.pack(...) / S.unpack(d) / S.size are struct.pack(F, ...) / struct.unpack(F, d) /
        struct.calcsize(F)"""
        for mod, tree in self.modules.items():
            objs = {}
            for n in tree.body:
                if isinstance(n, ast.Assign) and len(n.targets) == 1 and isinstance(n.targets[0], ast.Name) and isinstance(n.value, ast.Call) \
                        and ast.unparse(n.value.func) == 'struct.Struct' and len(n.value.args) == 1:
                    objs[n.targets[0].id] = n.value.args[0]
            if not objs:
                continue
            for par in ast.walk(tree):
                for field, val in ast.iter_fields(par):
                    vals = val if isinstance(val, list) else [val]
                    for i, x in enumerate(vals):
                        new = None
                        if isinstance(x, ast.Call) and isinstance(x.func, ast.Attribute) and isinstance(x.func.value, ast.Name) and x.func.value.id in objs \
                                and x.func.attr in ('pack', 'unpack', 'unpack_from', 'pack_into'):
                            new = ast.Call(func=ast.Attribute(value=ast.Name(id='struct', ctx=ast.Load()), attr=x.func.attr, ctx=ast.Load()),
                                           args=[copy.deepcopy(objs[x.func.value.id])] + x.args, keywords=x.keywords)
                        elif isinstance(x, ast.Attribute) and isinstance(x.value, ast.Name) and x.value.id in objs and x.attr == 'size' and isinstance(x.ctx, ast.Load):
                            new = ast.Call(func=ast.Attribute(value=ast.Name(id='struct', ctx=ast.Load()), attr='calcsize', ctx=ast.Load()),
                                           args=[copy.deepcopy(objs[x.value.id])], keywords=[])
                        if new is not None:
                            new = _loc(new, x)
                            if isinstance(val, list):
                                val[i] = new
                            else:
                                setattr(par, field, new)
                            self.changes += 1

    # ------------------------------------------------------------------ N9
    def canonical_calls(self):
        """calls of package functions are rewritten to the calling convention of the pinned tree (callconv.json): a parameter
        the pinned tree always passes by keyword is passed by keyword, one it always passes by position is passed by position"""
        conv = load_callconv()
        if not conv:
            return
        sig = signatures(self.modules)
        for tree in self.modules.values():
            for c in ast.walk(tree):
                if not isinstance(c, ast.Call):
                    continue
                name = c.func.attr if isinstance(c.func, ast.Attribute) else (c.func.id if isinstance(c.func, ast.Name) else None)
                if name not in sig or name not in conv or any(isinstance(a, ast.Starred) for a in c.args) or any(k.arg is None for k in c.keywords):
                    continue
                params, cv = pick_signature(sig[name], c), conv[name]
                if params is None:
                    continue
                changed = False
                # trailing positional arguments whose convention is keyword
                while c.args and cv.get(params[len(c.args) - 1]) == 'kw':
                    a = c.args.pop()
                    c.keywords.insert(0, ast.keyword(arg=params[len(c.args)], value=a))
                    changed = True
                # leading keyword arguments whose convention is positional
                while len(c.args) < len(params) and cv.get(params[len(c.args)]) == 'pos':
                    k = [k_ for k_ in c.keywords if k_.arg == params[len(c.args)]]
                    if not k:
                        break
                    c.keywords.remove(k[0])
                    c.args.append(k[0].value)
                    changed = True
                if changed:
                    # keywords in parameter order
                    c.keywords.sort(key=lambda k_: params.index(k_.arg))
                    self.changes += 1

    # ------------------------------------------------------------------ N3
    def inline_generator_names(self, fn):
        own = []

        def collect(node):
            for ch in ast.iter_child_nodes(node):
                if isinstance(ch, (ast.FunctionDef, ast.AsyncFunctionDef, ast.Lambda, ast.ClassDef)):
                    continue
                own.append(ch)
                collect(ch)
        collect(fn)
        binds = {}
        for n in own:
            if isinstance(n, ast.Assign) and len(n.targets) == 1 and isinstance(n.targets[0], ast.Name) and isinstance(n.value, ast.GeneratorExp):
                binds.setdefault(n.targets[0].id, []).append(n)
        for name, defs in binds.items():
            stores = [n for n in own if isinstance(n, ast.Name) and n.id == name and isinstance(n.ctx, ast.Store)]
            loads = [n for n in own if isinstance(n, ast.Name) and n.id == name and isinstance(n.ctx, ast.Load)]
            if len(defs) != 1 or len(stores) != 1 or len(loads) != 1:
                continue
            use = loads[0]
            # the single use must be an iterable position
            holder = None
            for n in own:
                if isinstance(n, ast.comprehension) and n.iter is use:
                    holder = ('comp', n)
                if isinstance(n, ast.For) and n.iter is use:
                    holder = ('for', n)
            if holder is None:
                continue
            holder[1].iter = defs[0].value
            # drop the binding statement
            self._remove_stmt(fn, defs[0])
            self.changes += 1

    # ------------------------------------------------------------------ N15
    def scalarise_tuple_locals(self, fn):
        """a local that is only ever bound to tuple displays of one arity k and only read as `*x` in a call or as `x[const]`
        is k locals"""
        own = []

        def collect(node):
            for ch in ast.iter_child_nodes(node):
                if isinstance(ch, (ast.FunctionDef, ast.AsyncFunctionDef, ast.Lambda, ast.ClassDef)):
                    continue
                own.append(ch)
                collect(ch)
        collect(fn)
        params = {a.arg for a in fn.args.args + fn.args.kwonlyargs}
        parent = {}
        for n in [fn] + own:
            for ch in ast.iter_child_nodes(n):
                parent[id(ch)] = n
        cands = {}
        for a in own:
            if isinstance(a, ast.Assign) and len(a.targets) == 1 and isinstance(a.targets[0], ast.Name) and isinstance(a.value, ast.Tuple) \
                    and not any(isinstance(e, ast.Starred) for e in a.value.elts):
                cands.setdefault(a.targets[0].id, []).append(a)
        for name, defs in cands.items():
            if name in params:
                continue
            ks = {len(a.value.elts) for a in defs}
            if len(ks) != 1 or list(ks)[0] < 2:
                continue
            k = list(ks)[0]
            stores = [n for n in own if isinstance(n, ast.Name) and n.id == name and isinstance(n.ctx, (ast.Store, ast.Del))]
            loads = [n for n in own if isinstance(n, ast.Name) and n.id == name and isinstance(n.ctx, ast.Load)]
            if len(stores) != len(defs) or not loads:
                continue
            okk = True
            for l in loads:
                par = parent.get(id(l))
                if isinstance(par, ast.Starred) and isinstance(parent.get(id(par)), ast.Call) and par in parent[id(par)].args:
                    continue
                if isinstance(par, ast.Subscript) and par.value is l and isinstance(par.slice, ast.Constant) and isinstance(par.slice.value, int) \
                        and 0 <= par.slice.value < k and isinstance(par.ctx, ast.Load):
                    continue
                okk = False
            if not okk:
                continue
            parts = ['_t_%s_%d' % (name, i) for i in range(k)]
            for a in defs:
                a.targets[0] = ast.copy_location(ast.Tuple(elts=[ast.Name(id=p_, ctx=ast.Store()) for p_ in parts], ctx=ast.Store()), a.targets[0])
            for l in loads:
                par = parent.get(id(l))
                if isinstance(par, ast.Starred):
                    call = parent[id(par)]
                    i = call.args.index(par)
                    call.args[i:i + 1] = [ast.copy_location(ast.Name(id=p_, ctx=ast.Load()), l) for p_ in parts]
                else:
                    self._replace_node(fn, par, ast.Name(id=parts[par.slice.value], ctx=ast.Load()))
            self.changes += 1

    # ------------------------------------------------------------------ N7
    def inline_attribute_aliases(self, fn):
        """`x = self.a.b` / `push = stack.append`, x bound exactly once at the top level of the function and the aliased attribute
        not assigned in the function: every load of x is the attribute expression"""
        own = []

        def collect(node):
            for ch in ast.iter_child_nodes(node):
                if isinstance(ch, (ast.FunctionDef, ast.AsyncFunctionDef, ast.Lambda, ast.ClassDef)):
                    continue
                own.append(ch)
                collect(ch)
        collect(fn)
        params = {a.arg for a in fn.args.args + fn.args.kwonlyargs}
        for st in list(fn.body):
            if not (isinstance(st, ast.Assign) and len(st.targets) == 1 and isinstance(st.targets[0], ast.Name) and isinstance(st.value, ast.Attribute)):
                continue
            name = st.targets[0].id
            if name in params:
                continue
            # the chain a.b.c rooted at a Name
            chain, e = [], st.value
            while isinstance(e, ast.Attribute):
                chain.append(e.attr)
                e = e.value
            if not isinstance(e, ast.Name):
                continue
            root = e.id
            stores = [n for n in own if isinstance(n, ast.Name) and n.id == name and isinstance(n.ctx, (ast.Store, ast.Del))]
            if len(stores) != 1:
                continue
            loads = [n for n in own if isinstance(n, ast.Name) and n.id == name and isinstance(n.ctx, ast.Load)]
            txt = ast.unparse(st.value)
            # the aliased attribute (or a prefix of it) must not be re-bound in this function
            rebound = any(isinstance(n, ast.Attribute) and isinstance(n.ctx, (ast.Store, ast.Del)) and (txt == ast.unparse(n) or txt.startswith(ast.unparse(n) + '.')) for n in own)
            if rebound:
                continue
            # node / header objects are tracked by variable in the freshness and dirty-written dataflows: keep their aliases
            # (the header objects are the only node-like objects held in attributes; `file.read(n)` of a file handle is not a reload)
            if chain[0] == 'header' or any(isinstance(c, ast.Call) and isinstance(c.func, ast.Attribute) and c.func.value in loads
                                           and (c.func.attr in ('write', 'refresh') or c.func.attr.startswith(('set_', 'unset_', 'flag_', 'unflag_', 'increment', 'read_'))) for c in own):
                continue
            if root != 'self':
                # bound-method alias of a local object: only when every use is a call of the alias, and the root is never re-bound
                root_stores = [n for n in own if isinstance(n, ast.Name) and n.id == root and isinstance(n.ctx, ast.Store)]
                calls_only = all(any(isinstance(c, ast.Call) and c.func is l for c in own) for l in loads)
                if len(root_stores) > 1 or not calls_only or root in params and False:
                    continue
            for l in loads:
                self._replace_node(fn, l, st.value)
            fn.body.remove(st)
            if not fn.body:
                fn.body.append(_loc(ast.Pass(), st))
            self.changes += 1
            own[:] = []
            collect(fn)

    def _replace_node(self, root, old, new_expr):
        for n in ast.walk(root):
            for field, val in ast.iter_fields(n):
                if val is old:
                    setattr(n, field, ast.copy_location(copy.deepcopy(new_expr), old))
                    return
                if isinstance(val, list):
                    for i, x in enumerate(val):
                        if x is old:
                            val[i] = ast.copy_location(copy.deepcopy(new_expr), old)
                            return

    def _remove_stmt(self, root, stmt):
        for n in ast.walk(root):
            for field in ('body', 'orelse', 'finalbody'):
                seq = getattr(n, field, None)
                if isinstance(seq, list) and stmt in seq:
                    seq.remove(stmt)
                    if not seq and field == 'body':
                        seq.append(_loc(ast.Pass(), stmt))
                    return

    # ------------------------------------------------------------------ N1, N2, N4, N5 on statement lists
    def rewrite_blocks(self, tree):
        # N25: a freshly made value held in a local before it is stored in an attribute: `v = <call>; self.a = v` (adjacent, v bound
        # once, self.a bound once in the function) -> `self.a = <call>` and every later `v` reads `self.a`
        for fn in [f for f in ast.walk(tree) if isinstance(f, (ast.FunctionDef, ast.AsyncFunctionDef))]:
            stores = {}
            for x in ast.walk(fn):
                if isinstance(x, ast.Name) and isinstance(x.ctx, ast.Store):
                    stores[x.id] = stores.get(x.id, 0) + 1
            attr_stores = {}
            for x in ast.walk(fn):
                if isinstance(x, ast.Attribute) and isinstance(x.ctx, ast.Store):
                    attr_stores[ast.unparse(x)] = attr_stores.get(ast.unparse(x), 0) + 1
            for n in ast.walk(fn):
                for field in ('body', 'orelse', 'finalbody'):
                    seq = getattr(n, field, None)
                    if not (isinstance(seq, list) and len(seq) >= 2 and isinstance(seq[0], ast.stmt)):
                        continue
                    i = 0
                    while i < len(seq) - 1:
                        a, b = seq[i], seq[i + 1]
                        if isinstance(a, ast.Assign) and len(a.targets) == 1 and isinstance(a.targets[0], ast.Name) and isinstance(a.value, ast.Call) \
                                and isinstance(b, ast.Assign) and len(b.targets) == 1 and isinstance(b.targets[0], ast.Attribute) and isinstance(b.targets[0].value, ast.Name) \
                                and b.targets[0].value.id == 'self' and isinstance(b.value, ast.Name) and b.value.id == a.targets[0].id \
                                and stores.get(a.targets[0].id) == 1 \
                                and not any(isinstance(x, ast.Attribute) and isinstance(x.ctx, ast.Store) and ast.unparse(x) == ast.unparse(b.targets[0])
                                            for st_ in seq[i + 2:] for x in ast.walk(st_)) \
                                and not any(isinstance(x, ast.Name) and x.id == a.targets[0].id for x in ast.walk(a.value)):
                            v = a.targets[0].id
                            b.value = a.value
                            del seq[i]
                            load = copy.deepcopy(b.targets[0])
                            load.ctx = ast.Load()
                            sub = _Subst(v, load)
                            for k_, st_ in enumerate(fn.body):
                                fn.body[k_] = sub.visit(st_)
                            self.changes += 1
                            continue
                        i += 1
        # N22: a loop steered by a flag: `f = True; while f: body; f = <test>` (the flag assigned once, as the last statement of the body,
        # and read nowhere else) -> `while True: body; if not <test>: break`
        for fn in [f for f in ast.walk(tree) if isinstance(f, (ast.FunctionDef, ast.AsyncFunctionDef))]:
            names = {}
            for x in ast.walk(fn):
                if isinstance(x, ast.Name):
                    names.setdefault(x.id, []).append(x)
            for n in ast.walk(fn):
                for field in ('body', 'orelse', 'finalbody'):
                    seq = getattr(n, field, None)
                    if not (isinstance(seq, list) and len(seq) >= 2 and isinstance(seq[0], ast.stmt)):
                        continue
                    for i in range(len(seq) - 1):
                        a, w = seq[i], seq[i + 1]
                        if not (isinstance(a, ast.Assign) and len(a.targets) == 1 and isinstance(a.targets[0], ast.Name) and isinstance(a.value, ast.Constant)
                                and a.value.value is True and isinstance(w, ast.While) and isinstance(w.test, ast.Name) and w.test.id == a.targets[0].id
                                and not w.orelse and w.body):
                            continue
                        f_ = a.targets[0].id
                        last = w.body[-1]
                        if not (isinstance(last, ast.Assign) and len(last.targets) == 1 and isinstance(last.targets[0], ast.Name) and last.targets[0].id == f_):
                            continue
                        if len(names.get(f_, [])) != 3:
                            continue
                        if any(isinstance(x, ast.Continue) for b_ in w.body for x in ast.walk(b_)):
                            continue
                        w.test = _loc(ast.Constant(value=True), w)
                        brk = _loc(ast.If(test=_loc(ast.UnaryOp(op=ast.Not(), operand=last.value), last), body=[_loc(ast.Break(), last)], orelse=[]), last)
                        w.body[-1] = brk
                        seq[i] = _loc(ast.Pass(), a)
                        self.changes += 1
        # N20: `c = <test>` immediately followed by `if c:` / `if not c:`, c read nowhere else -> the test is inlined
        for fn in [f for f in ast.walk(tree) if isinstance(f, (ast.FunctionDef, ast.AsyncFunctionDef))]:
            names = {}
            for x in ast.walk(fn):
                if isinstance(x, ast.Name):
                    names.setdefault(x.id, []).append(x)
            for n in ast.walk(fn):
                for field in ('body', 'orelse', 'finalbody'):
                    seq = getattr(n, field, None)
                    if not (isinstance(seq, list) and len(seq) >= 2 and isinstance(seq[0], ast.stmt)):
                        continue
                    i = 0
                    while i < len(seq) - 1:
                        a, nx = seq[i], seq[i + 1]
                        if isinstance(a, ast.Assign) and len(a.targets) == 1 and isinstance(a.targets[0], ast.Name) and isinstance(nx, ast.If) \
                                and isinstance(a.value, (ast.Compare, ast.Call, ast.BoolOp, ast.UnaryOp)) and len(names.get(a.targets[0].id, [])) == 2 \
                                and not (isinstance(a.value, ast.Call) and isinstance(a.value.func, ast.Attribute) and a.value.func.attr in ('read', 'get', 'pop', 'search', 'match')):
                            t_ = nx.test
                            neg = False
                            while isinstance(t_, ast.UnaryOp) and isinstance(t_.op, ast.Not):
                                neg = not neg
                                t_ = t_.operand
                            if isinstance(t_, ast.Name) and t_.id == a.targets[0].id:
                                nx.test = a.value if not neg else _loc(ast.UnaryOp(op=ast.Not(), operand=a.value), nx)
                                del seq[i]
                                self.changes += 1
                                continue
                        i += 1
        # N19: no else arm after a body that always leaves (return / raise): `if c: ...return else: rest` -> `if c: ...return; rest`
        for n in ast.walk(tree):
            for field in ('body', 'orelse', 'finalbody'):
                seq = getattr(n, field, None)
                if not (isinstance(seq, list) and seq and isinstance(seq[0], ast.stmt)):
                    continue
                i = 0
                while i < len(seq):
                    s_ = seq[i]
                    if isinstance(s_, ast.If) and s_.orelse and s_.body and isinstance(s_.body[-1], (ast.Return, ast.Raise)) \
                            and not (len(s_.orelse) == 1 and isinstance(s_.orelse[0], ast.If) and False):
                        rest = s_.orelse
                        s_.orelse = []
                        seq[i + 1:i + 1] = rest
                        self.changes += 1
                    i += 1
        # N18: `x = <expr>` immediately followed by `return x`, x read nowhere else -> `return <expr>`
        for fn in [f for f in ast.walk(tree) if isinstance(f, (ast.FunctionDef, ast.AsyncFunctionDef))]:
            names = {}
            for x in ast.walk(fn):
                if isinstance(x, ast.Name):
                    names.setdefault(x.id, []).append(x)
            for n in ast.walk(fn):
                for field in ('body', 'orelse', 'finalbody'):
                    seq = getattr(n, field, None)
                    if not (isinstance(seq, list) and len(seq) >= 2 and isinstance(seq[0], ast.stmt)):
                        continue
                    i = 0
                    while i < len(seq) - 1:
                        a, r = seq[i], seq[i + 1]
                        if isinstance(a, ast.Assign) and len(a.targets) == 1 and isinstance(a.targets[0], ast.Name) and isinstance(r, ast.Return) \
                                and isinstance(r.value, ast.Name) and r.value.id == a.targets[0].id and len(names.get(r.value.id, [])) == 2 \
                                and not isinstance(a.value, (ast.Yield, ast.YieldFrom)):
                            seq[i:i + 2] = [_loc(ast.Return(value=a.value), r)]
                            self.changes += 1
                            continue
                        i += 1
        for n in ast.walk(tree):
            for field in ('body', 'orelse', 'finalbody'):
                seq = getattr(n, field, None)
                if isinstance(seq, list) and seq and isinstance(seq[0], ast.stmt):
                    i = 0
                    while i < len(seq):
                        new = self.rewrite_stmt(seq[i])
                        if new is not None:
                            seq[i:i + 1] = new
                            self.changes += 1
                            # re-examine the replacement (a produced `for` may itself iterate a generator expression)
                            continue
                        i += 1

    def rewrite_stmt(self, s):
        # N1
        if isinstance(s, ast.Expr) and isinstance(s.value, ast.YieldFrom):
            self.counter += 1
            v = '_yf%d' % self.counter
            y = ast.Expr(value=ast.Yield(value=ast.Name(id=v, ctx=ast.Load())))
            return [_loc(ast.For(target=ast.Name(id=v, ctx=ast.Store()), iter=s.value.value, body=[_loc(y, s)], orelse=[], type_comment=None), s)]
        # N2
        if isinstance(s, ast.Expr) and isinstance(s.value, ast.Call) and isinstance(s.value.func, ast.Attribute) and len(s.value.args) == 1 and not s.value.keywords:
            c = s.value
            a = c.args[0]
            recv = c.func.value
            if isinstance(recv, (ast.Name, ast.Attribute)):
                if c.func.attr in ('update', 'extend') and isinstance(a, (ast.GeneratorExp, ast.ListComp, ast.SetComp)):
                    meth = 'add' if c.func.attr == 'update' else 'append'
                    leaf = ast.Expr(value=ast.Call(func=ast.Attribute(value=copy.deepcopy(recv), attr=meth, ctx=ast.Load()), args=[a.elt], keywords=[]))
                    return _comp_to_loop(a.generators, [_loc(leaf, s)], s)
                if c.func.attr == 'update' and isinstance(a, ast.DictComp):
                    tgt = ast.Subscript(value=copy.deepcopy(recv), slice=a.key, ctx=ast.Store())
                    leaf = ast.Assign(targets=[tgt], value=a.value, type_comment=None)
                    return _comp_to_loop(a.generators, [_loc(leaf, s)], s)
        # N21: a collection built or grown from a comprehension over a package walk (`*_iter(...)`) as a statement
        def _comp_of(e):
            """(comprehension, 'set' | 'list') for {..for..}, [..for..], set(<gen>), list(<gen>)"""
            if isinstance(e, ast.SetComp):
                return e, 'set'
            if isinstance(e, ast.ListComp):
                return e, 'list'
            if isinstance(e, ast.Call) and isinstance(e.func, ast.Name) and e.func.id in ('set', 'list') and len(e.args) == 1 and not e.keywords \
                    and isinstance(e.args[0], (ast.GeneratorExp, ast.ListComp, ast.SetComp)):
                return e.args[0], e.func.id
            return None, None

        def _walks(comp):
            return any(isinstance(c_, ast.Call) and isinstance(c_.func, ast.Attribute) and c_.func.attr.endswith('_iter') for g_ in comp.generators for c_ in ast.walk(g_.iter))
        if isinstance(s, ast.AugAssign) and isinstance(s.target, (ast.Name, ast.Attribute)) and isinstance(s.op, (ast.BitOr, ast.Add)):
            comp, kind = _comp_of(s.value)
            if comp is not None and ((kind == 'set') == isinstance(s.op, ast.BitOr)) and _walks(comp) \
                    and ast.unparse(s.target) not in {ast.unparse(x) for x in ast.walk(comp) if isinstance(x, (ast.Name, ast.Attribute))}:
                recv = copy.deepcopy(s.target)
                for x in ast.walk(recv):
                    if hasattr(x, 'ctx'):
                        x.ctx = ast.Load()
                leaf = ast.Expr(value=ast.Call(func=ast.Attribute(value=recv, attr='add' if kind == 'set' else 'append', ctx=ast.Load()), args=[comp.elt], keywords=[]))
                return _comp_to_loop(comp.generators, [_loc(leaf, s)], s)
        if isinstance(s, ast.Assign) and len(s.targets) == 1 and isinstance(s.targets[0], ast.Name):
            comp, kind = _comp_of(s.value)
            if comp is not None and _walks(comp) and s.targets[0].id not in {x.id for x in ast.walk(comp) if isinstance(x, ast.Name)}:
                init = ast.Assign(targets=[s.targets[0]], value=ast.Call(func=ast.Name(id=kind, ctx=ast.Load()), args=[], keywords=[]), type_comment=None)
                leaf = ast.Expr(value=ast.Call(func=ast.Attribute(value=ast.Name(id=s.targets[0].id, ctx=ast.Load()), attr='add' if kind == 'set' else 'append', ctx=ast.Load()),
                                               args=[comp.elt], keywords=[]))
                return [_loc(init, s)] + _comp_to_loop(comp.generators, [_loc(leaf, s)], s)
        # N24: `while True: if <t>: break; body` -> `while not <t>: body`  (the loop guard spelled as a leading break)
        if isinstance(s, ast.While) and isinstance(s.test, ast.Constant) and s.test.value is True and not s.orelse and len(s.body) >= 2 \
                and isinstance(s.body[0], ast.If) and not s.body[0].orelse and len(s.body[0].body) == 1 and isinstance(s.body[0].body[0], ast.Break):
            t_ = s.body[0].test
            cond = t_.operand if isinstance(t_, ast.UnaryOp) and isinstance(t_.op, ast.Not) else _loc(ast.UnaryOp(op=ast.Not(), operand=t_), t_)
            return [_loc(ast.While(test=cond, body=s.body[1:], orelse=[]), s)]
        # N23: `x = A if C else B` on a plain name -> `if C: x = A else: x = B`
        if isinstance(s, ast.Assign) and len(s.targets) == 1 and isinstance(s.targets[0], ast.Name) and isinstance(s.value, ast.IfExp) \
                and not any(isinstance(x, (ast.Yield, ast.YieldFrom, ast.NamedExpr)) for x in ast.walk(s.value)):
            t_ = s.targets[0]
            a1 = _loc(ast.Assign(targets=[ast.Name(id=t_.id, ctx=ast.Store())], value=s.value.body, type_comment=None), s)
            a2 = _loc(ast.Assign(targets=[ast.Name(id=t_.id, ctx=ast.Store())], value=s.value.orelse, type_comment=None), s)
            return [_loc(ast.If(test=s.value.test, body=[a1], orelse=[a2]), s)]
        # N4
        if isinstance(s, ast.For) and isinstance(s.iter, ast.GeneratorExp) and not s.orelse:
            g = s.iter
            bind = ast.Assign(targets=[s.target], value=g.elt, type_comment=None)
            trivial = isinstance(g.elt, ast.Name) and isinstance(s.target, ast.Name) and len(g.generators) == 1 and isinstance(g.generators[0].target, ast.Name) \
                and g.generators[0].target.id == g.elt.id
            if trivial:
                # for x in (y for y in it if c)  ->  for x in it: if c[y:=x]
                gen = g.generators[0]
                ren = _Rename(gen.target.id, s.target.id)
                ifs = [ren.visit(copy.deepcopy(c_)) for c_ in gen.ifs]
                body = s.body
                for c_ in reversed(ifs):
                    body = [_loc(ast.If(test=c_, body=body, orelse=[]), s)]
                return [_loc(ast.For(target=s.target, iter=gen.iter, body=body, orelse=[], type_comment=None), s)]
            return _comp_to_loop(g.generators, [_loc(bind, s)] + s.body, s)
        # N16: `x = x + e` / `x = x - e` on a plain name -> augmented assignment
        if isinstance(s, ast.Assign) and len(s.targets) == 1 and isinstance(s.targets[0], ast.Name) and isinstance(s.value, ast.BinOp) \
                and isinstance(s.value.op, (ast.Add, ast.Sub)) and isinstance(s.value.left, ast.Name) and s.value.left.id == s.targets[0].id:
            return [_loc(ast.AugAssign(target=ast.Name(id=s.targets[0].id, ctx=ast.Store()), op=s.value.op, value=s.value.right), s)]
        # N14: `for x in iter(f, sentinel): body` -> while True: x = f(); if x is/== sentinel: break; body
        if isinstance(s, ast.For) and isinstance(s.iter, ast.Call) and isinstance(s.iter.func, ast.Name) and s.iter.func.id == 'iter' and len(s.iter.args) == 2 \
                and not s.iter.keywords and not s.orelse and isinstance(s.iter.args[1], ast.Constant):
            f_, sent = s.iter.args
            call = ast.Call(func=f_, args=[], keywords=[])
            bind = ast.Assign(targets=[s.target], value=call, type_comment=None)
            load_t = copy.deepcopy(s.target)
            for x in ast.walk(load_t):
                if isinstance(x, ast.Name):
                    x.ctx = ast.Load()
            cmp_ = ast.Compare(left=load_t, ops=[ast.Is() if sent.value is None else ast.Eq()], comparators=[sent])
            brk = ast.If(test=cmp_, body=[ast.Break()], orelse=[])
            loop = ast.While(test=ast.Constant(value=True), body=[_loc(bind, s), _loc(brk, s)] + s.body, orelse=[])
            return [_loc(loop, s)]
        # N11: `for x in chain((a,), it): body` (body without break/continue) -> x = a; body; for x in it: body
        if isinstance(s, ast.For) and isinstance(s.iter, ast.Call) and not s.orelse and isinstance(s.target, ast.Name) \
                and ast.unparse(s.iter.func) in ('chain', 'itertools.chain') and len(s.iter.args) == 2 and not s.iter.keywords \
                and isinstance(s.iter.args[0], (ast.Tuple, ast.List)) and 1 <= len(s.iter.args[0].elts) <= 2 \
                and all(isinstance(e, (ast.Name, ast.Attribute)) for e in s.iter.args[0].elts):
            inner = [x for b in s.body for x in ast.walk(b)]
            if not any(isinstance(x, (ast.Break, ast.Continue, ast.Yield, ast.YieldFrom)) for x in inner) \
                    and not any(isinstance(x, ast.Name) and x.id == s.target.id and isinstance(x.ctx, (ast.Store, ast.Del)) for x in inner):
                out = []
                for e in s.iter.args[0].elts:
                    sub = _Subst(s.target.id, e)
                    out += [sub.visit(copy.deepcopy(b)) for b in s.body]
                out.append(_loc(ast.For(target=s.target, iter=s.iter.args[1], body=s.body, orelse=[], type_comment=None), s))
                return out
        # N6: a loop over a literal tuple/list of 2..4 simple expressions, body without break/continue and without re-binding the
        # loop variable, is the body repeated for each element
        if isinstance(s, ast.For) and isinstance(s.iter, (ast.Tuple, ast.List)) and 2 <= len(s.iter.elts) <= 4 and not s.orelse \
                and isinstance(s.target, ast.Name) and all(isinstance(e, (ast.Name, ast.Attribute)) for e in s.iter.elts):
            v = s.target.id
            body_ = s.body
            # a leading `if C: continue` guard is `if not C: <rest>`
            if len(body_) >= 2 and isinstance(body_[0], ast.If) and not body_[0].orelse and len(body_[0].body) == 1 and isinstance(body_[0].body[0], ast.Continue):
                t0 = body_[0].test
                neg = t0.operand if isinstance(t0, ast.UnaryOp) and isinstance(t0.op, ast.Not) else _loc(ast.UnaryOp(op=ast.Not(), operand=t0), t0)
                if isinstance(t0, ast.Compare) and len(t0.ops) == 1 and isinstance(t0.ops[0], (ast.In, ast.NotIn)):
                    neg = _loc(ast.Compare(left=t0.left, ops=[ast.NotIn() if isinstance(t0.ops[0], ast.In) else ast.In()], comparators=t0.comparators), t0)
                body_ = [_loc(ast.If(test=neg, body=body_[1:], orelse=[]), body_[0])]
            inner = [x for b in body_ for x in ast.walk(b)]
            if not any(isinstance(x, (ast.Break, ast.Continue, ast.Yield, ast.YieldFrom)) for x in inner) \
                    and not any(isinstance(x, ast.Name) and x.id == v and isinstance(x.ctx, (ast.Store, ast.Del)) for x in inner):
                out = []
                for e in s.iter.elts:
                    sub = _Subst(v, e)
                    out += [sub.visit(copy.deepcopy(b)) for b in body_]
                return out
        # N5
        if isinstance(s, ast.Assign) and len(s.targets) == 1 and isinstance(s.targets[0], ast.Tuple) and isinstance(s.value, ast.Tuple) \
                and len(s.targets[0].elts) == len(s.value.elts) and len(s.value.elts) >= 2 \
                and not any(isinstance(e, ast.Starred) for e in s.targets[0].elts + s.value.elts):
            left = set()
            for t in s.targets[0].elts:
                for x in ast.walk(t):
                    if isinstance(x, ast.Name):
                        left.add(x.id)
                    if isinstance(x, ast.Attribute):
                        left.add(ast.unparse(x))
            right = set()
            for v in s.value.elts:
                for x in ast.walk(v):
                    if isinstance(x, ast.Name):
                        right.add(x.id)
                    if isinstance(x, ast.Attribute):
                        right.add(ast.unparse(x))
            pure = all(not isinstance(x, (ast.Call, ast.Yield, ast.Await)) for v in s.value.elts for x in ast.walk(v)) or len(left & right) == 0
            if not (left & right) and pure:
                return [_loc(ast.Assign(targets=[t], value=v, type_comment=None), s) for t, v in zip(s.targets[0].elts, s.value.elts)]
        return None


class _Rename(ast.NodeTransformer):
    def __init__(self, old, new):
        self.old, self.new = old, new

    def visit_Name(self, node):
        if node.id == self.old:
            return ast.copy_location(ast.Name(id=self.new, ctx=node.ctx), node)
        return node


class _Subst(ast.NodeTransformer):
    def __init__(self, name, expr):
        self.name, self.expr = name, expr

    def visit_Name(self, node):
        if node.id == self.name and isinstance(node.ctx, ast.Load):
            return ast.copy_location(copy.deepcopy(self.expr), node)
        return node
