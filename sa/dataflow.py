"""E5 helpers: generic forward solver with a separate reporting pass, condition decomposition, AST utilities."""
import ast

from .cfg import solve_forward

SKIP_KINDS = ('entry', 'exit', 'raise_exit', 'def', 'handler')


def solve_and_report(cfg, init, transfer, refine, join):
    """run to fixpoint silently, then replay transfer once per node on the final IN state with reporting on"""
    IN = solve_forward(cfg, init, lambda n, st: transfer(n, st, False), refine, join)
    for n in cfg.nodes:
        if n.id in IN:
            transfer(n, IN[n.id], True)
    return IN


def node_root(n):
    """the expression/statement evaluated at CFG node n (None for structural nodes)"""
    a = n.ast
    if a is None or n.kind in SKIP_KINDS or n.kind == 'for_next':
        return None
    if n.kind == 'for_iter':
        return a.iter
    if isinstance(a, ast.With):
        # only the context expressions belong to this node
        m = ast.Module(body=[ast.Expr(value=i.context_expr) for i in a.items], type_ignores=[])
        return m
    return a


def calls_in_order(P, u, root):
    """Call nodes owned by u inside root, inner/earlier first (approximate evaluation order)"""
    if root is None:
        return []
    out = [c for c in ast.walk(root) if isinstance(c, ast.Call) and P.owner_of(u.node, c) is u.node]
    out.sort(key=lambda c: (c.end_lineno, c.end_col_offset))
    return out


def has_yield(P, u, root):
    if root is None:
        return False
    for y in ast.walk(root):
        if isinstance(y, (ast.Yield, ast.YieldFrom)) and P.owner_of(u.node, y) is u.node:
            return True
    return False


def decompose(e, truth, out):
    """leaf conditions known (truth, expr) when `e` evaluated to `truth`"""
    if isinstance(e, ast.UnaryOp) and isinstance(e.op, ast.Not):
        decompose(e.operand, not truth, out)
    elif isinstance(e, ast.BoolOp) and isinstance(e.op, ast.And):
        if truth:
            for v in e.values:
                decompose(v, True, out)
    elif isinstance(e, ast.BoolOp) and isinstance(e.op, ast.Or):
        if not truth:
            for v in e.values:
                decompose(v, False, out)
    else:
        out.append((truth, e))


def test_leaves(e):
    leaves = []

    def rec(x):
        if isinstance(x, ast.UnaryOp) and isinstance(x.op, ast.Not):
            rec(x.operand)
        elif isinstance(x, ast.BoolOp):
            for v in x.values:
                rec(v)
        else:
            leaves.append(x)
    rec(e)
    return leaves


def names_in_target(t):
    if isinstance(t, ast.Name):
        return [t.id]
    if isinstance(t, (ast.Tuple, ast.List)):
        out = []
        for e in t.elts:
            out += names_in_target(e)
        return out
    if isinstance(t, ast.Starred):
        return names_in_target(t.value)
    return []


def names_assigned(n):
    """names (re)bound at CFG node n"""
    a = n.ast
    out = set()
    if a is None:
        return out
    if n.kind == 'for_next':
        for x in ast.walk(a.target):
            if isinstance(x, ast.Name):
                out.add(x.id)
    elif n.kind == 'stmt':
        if isinstance(a, (ast.Assign, ast.AugAssign, ast.AnnAssign)):
            tg = a.targets if isinstance(a, ast.Assign) else [a.target]
            for t in tg:
                for x in ast.walk(t):
                    if isinstance(x, ast.Name) and isinstance(x.ctx, ast.Store):
                        out.add(x.id)
        elif isinstance(a, ast.With):
            for it in a.items:
                if it.optional_vars is not None:
                    out |= set(names_in_target(it.optional_vars))
        for x in ast.walk(a) if not isinstance(a, (ast.With,)) else []:
            if isinstance(x, ast.NamedExpr) and isinstance(x.target, ast.Name):
                out.add(x.target.id)
            if isinstance(x, ast.comprehension):
                pass
    elif n.kind == 'handler' and a.name:
        out.add(a.name)
    return out


def kwarg(call, name):
    for k in call.keywords:
        if k.arg == name:
            return k.value
    return None


def bound_args(fu, call):
    """[(param name, arg expr)] for a call of unit fu (positional + keyword), self skipped for methods"""
    params = fu.call_params
    out = []
    for i, a in enumerate(call.args):
        if isinstance(a, ast.Starred):
            break
        if i < len(params):
            out.append((params[i], a))
    for k in call.keywords:
        if k.arg is not None:
            out.append((k.arg, k.value))
    return out
