"""E5 helpers: generic forward solver with a separate reporting pass, condition decomposition, AST utilities."""
import ast

from .cfg import solve_forward

SKIP_KINDS = ('entry', 'exit', 'raise_exit', 'def', 'handler')


def solve_and_report(cfg, init, transfer, refine, join):
    """run to fixpoint silently, then replay transfer once per node on the final IN state with reporting on"""
    IN = solve_forward(cfg, init, lambda n, st: transfer(n, st, False), refine, join)
    for n in cfg.nodes:
        if n.id in IN:
            transfer(n, IN[n.id], True)
    return IN


def node_root(n):
    """the expression/statement evaluated at CFG node n (None for structural nodes)"""
    a = n.ast
    if a is None or n.kind in SKIP_KINDS or n.kind == 'for_next':
        return None
    if n.kind == 'for_iter':
        return a.iter
    if isinstance(a, ast.With):
        # only the context expressions belong to this node
        m = ast.Module(body=[ast.Expr(value=i.context_expr) for i in a.items], type_ignores=[])
        return m
    return a


def calls_in_order(P, u, root):
    """Call nodes owned by u inside root, inner/earlier first (approximate evaluation order)"""
    if root is None:
        return []
    out = [c for c in ast.walk(root) if isinstance(c, ast.Call) and P.owner_of(u.node, c) is u.node]
    out.sort(key=lambda c: (c.end_lineno, c.end_col_offset))
    return out


def has_yield(P, u, root):
    if root is None:
        return False
    for y in ast.walk(root):
        if isinstance(y, (ast.Yield, ast.YieldFrom)) and P.owner_of(u.node, y) is u.node:
            return True
    return False


def decompose(e, truth, out):
    """leaf conditions known (truth, expr) when `e` evaluated to `truth`"""
    if isinstance(e, ast.UnaryOp) and isinstance(e.op, ast.Not):
        decompose(e.operand, not truth, out)
    elif isinstance(e, ast.BoolOp) and isinstance(e.op, ast.And):
        if truth:
            for v in e.values:
                decompose(v, True, out)
    elif isinstance(e, ast.BoolOp) and isinstance(e.op, ast.Or):
        if not truth:
            for v in e.values:
                decompose(v, False, out)
    else:
        out.append((truth, e))


def test_leaves(e):
    leaves = []

    def rec(x):
        if isinstance(x, ast.UnaryOp) and isinstance(x.op, ast.Not):
            rec(x.operand)
        elif isinstance(x, ast.BoolOp):
            for v in x.values:
                rec(v)
        else:
            leaves.append(x)
    rec(e)
    return leaves


def names_in_target(t):
    if isinstance(t, ast.Name):
        return [t.id]
    if isinstance(t, (ast.Tuple, ast.List)):
        out = []
        for e in t.elts:
            out += names_in_target(e)
        return out
    if isinstance(t, ast.Starred):
        return names_in_target(t.value)
    return []


def names_assigned(n):
    """names (re)bound at CFG node n"""
    a = n.ast
    out = set()
    if a is None:
        return out
    if n.kind == 'for_next':
        for x in ast.walk(a.target):
            if isinstance(x, ast.Name):
                out.add(x.id)
    elif n.kind == 'stmt':
        if isinstance(a, (ast.Assign, ast.AugAssign, ast.AnnAssign)):
            tg = a.targets if isinstance(a, ast.Assign) else [a.target]
            for t in tg:
                for x in ast.walk(t):
                    if isinstance(x, ast.Name) and isinstance(x.ctx, ast.Store):
                        out.add(x.id)
        elif isinstance(a, ast.With):
            for it in a.items:
                if it.optional_vars is not None:
                    out |= set(names_in_target(it.optional_vars))
        for x in ast.walk(a) if not isinstance(a, (ast.With,)) else []:
            if isinstance(x, ast.NamedExpr) and isinstance(x.target, ast.Name):
                out.add(x.target.id)
            if isinstance(x, ast.comprehension):
                pass
    elif n.kind == 'handler' and a.name:
        out.add(a.name)
    return out


def kwarg(call, name):
    for k in call.keywords:
        if k.arg == name:
            return k.value
    return None


def bound_args(fu, call):
    """[(param name, arg expr)] for a call of unit fu (positional + keyword), self skipped for methods"""
    params = fu.call_params
    out = []
    for i, a in enumerate(call.args):
        if isinstance(a, ast.Starred):
            break
        if i < len(params):
            out.append((params[i], a))
    for k in call.keywords:
        if k.arg is not None:
            out.append((k.arg, k.value))
    return out


def single_defs(P, u):
    """{local name: value expr} for locals of u assigned exactly once by a plain `name = expr` (not in a loop target / augmented)"""
    counts, vals = {}, {}
    for a in P.own(u, (ast.Assign, ast.AugAssign, ast.AnnAssign, ast.For, ast.With, ast.NamedExpr)):
        if isinstance(a, ast.Assign):
            for t in a.targets:
                for n in names_in_target(t):
                    counts[n] = counts.get(n, 0) + 1
                if isinstance(t, ast.Name):
                    vals[t.id] = a.value
        elif isinstance(a, (ast.AugAssign, ast.AnnAssign)):
            for n in names_in_target(a.target):
                counts[n] = counts.get(n, 0) + 2
        elif isinstance(a, ast.For):
            for n in names_in_target(a.target):
                counts[n] = counts.get(n, 0) + 2
        elif isinstance(a, ast.NamedExpr):
            counts[a.target.id] = counts.get(a.target.id, 0) + 2
    for prm in u.params:
        counts[prm] = counts.get(prm, 0) + 1        # a parameter that is reassigned has two definitions
    return {n: v for n, v in vals.items() if counts.get(n) == 1}


def resolve_locals(P, u, expr, depth=4, keep=()):
    """copy of expr with single-definition locals replaced by their defining expressions (copy propagation on the AST)"""
    import copy
    defs = single_defs(P, u)

    class R(ast.NodeTransformer):
        def __init__(self, d):
            self.d = d

        def visit_Name(self, node):
            if isinstance(node.ctx, ast.Load) and node.id in defs and node.id not in keep and self.d > 0:
                v = copy.deepcopy(defs[node.id])
                return R(self.d - 1).visit(v)
            return node
    return R(depth).visit(copy.deepcopy(expr))


def rtext(P, u, expr, keep=()):
    return ast.unparse(resolve_locals(P, u, expr, keep=keep)).replace(' ', '')


def reaching_defs(u, cfg):
    """reaching definitions: node id -> {var: frozenset(def)} where def is 'param' or the defining statement / For node"""
    init = {p: frozenset(['param']) for p in u.params}

    def tr(n, st):
        names = names_assigned(n)
        if not names:
            return st
        st = dict(st)
        for v in names:
            st[v] = frozenset([n.ast])
        return st

    def join(a, b):
        out = dict(a)
        for k, v in b.items():
            out[k] = out.get(k, frozenset()) | v
        return out
    return solve_forward(cfg, init, tr, lambda lab, st: st, join)
