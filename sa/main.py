"""CLI: check <PROPERTY-ID> [--tier quick|thorough] [--repo /repo]

exit 0  every obligation of the property's rules discharged (known findings printed as KNOWN-FINDING)
exit 1  VIOLATION property=<id> replay=<report.json>
exit 2  ANALYSIS-ERROR (the analysis cannot give a verdict: unparsable module, vanished anchor, ...)
"""
import argparse
import json
import os
import sys
import time
import traceback

HERE = os.path.dirname(os.path.dirname(os.path.abspath(__file__)))


def load_known():
    p = os.path.join(HERE, 'known_findings.json')
    if not os.path.exists(p):
        return [], []
    d = json.load(open(p))
    return d.get('known', []), d.get('fixed', [])


def matches(kf, prop, f):
    return (kf['property'] == prop and kf['rule'] == f.rule and kf['file'] == f.path
            and kf['function'] == f.func and kf['statement'] == f.stmt)


class View:
    """a rule result restricted to the functions a property is about"""

    def __init__(self, rr, scope, props):
        self.rule, self.info = rr.rule, rr.info
        if scope is None:
            self.obligations, self.findings = rr.obligations, rr.findings
        else:
            def fn(where):
                parts = where.split(' ')
                return parts[1] if len(parts) > 1 else ''
            def pth(where):
                return where.split(' ')[0].rsplit(':', 1)[0]
            self.obligations = [o for o in rr.obligations if props.in_scope(scope, fn(o['where']), pth(o['where']))]
            self.findings = [f for f in rr.findings if props.in_scope(scope, f.func, f.path)]
            self.info = dict(rr.info, scope=scope)


def props_view(rr, scope, props):
    return View(rr, scope, props)


def main(argv=None):
    ap = argparse.ArgumentParser()
    ap.add_argument('prop')
    ap.add_argument('--tier', default=os.environ.get('VERIF_TIER', 'quick'), choices=['quick', 'thorough'])
    ap.add_argument('--repo', default=os.environ.get('VERIF_REPO', '/repo'))
    ap.add_argument('--no-evidence', action='store_true')
    ap.add_argument('--replay', default=None)
    args = ap.parse_args(argv)
    t0 = time.time()
    seed = int(os.environ.get('VERIF_SEED', '0') or 0)
    try:
        from . import props
        from .core import Ctx, run_rule
        from .program import AnalysisError
        from . import rules  # noqa: registers rules
        rules.load_all()
        if args.prop not in props.PROPS:
            print('ANALYSIS-ERROR unknown property %s' % args.prop)
            return 2
        spec = props.PROPS[args.prop]
        ctx = Ctx(args.repo, tier=args.tier)
        results = []
        rule_errors = []
        for rname, scope in spec['rules']:
            try:
                results.append(props_view(run_rule(ctx, rname), scope, props))
            except Exception as e:   # noqa: a rule that crashes gives no verdict; the others still do
                if not isinstance(e, AnalysisError):
                    rule_errors.append((rname, 'internal error in the rule: %r' % (e,)))
                    continue
                # a breach of the call-graph assumptions invalidates every verdict; any other rule that cannot conclude
                # leaves the verdicts of the rules that can untouched
                if rname == 'R-STATIC-SHAPE':
                    raise
                rule_errors.append((rname, str(e)))
        selfval = None
        if args.tier == 'thorough':
            from . import selfval as sv
            kf, _ = load_known()
            selfval = sv.run(args.repo, args.prop, [r for r, _ in spec['rules']],
                             known={(k['rule'], k['function'], k['statement']) for k in kf})
    except Exception as e:  # noqa
        from .program import AnalysisError
        if isinstance(e, AnalysisError):
            print('ANALYSIS-ERROR property=%s %s' % (args.prop, e))
        else:
            print('ANALYSIS-ERROR property=%s internal error: %r' % (args.prop, e))
            traceback.print_exc()
        return 2

    known, fixed = load_known()
    findings = [f for r in results for f in r.findings]
    new, kn = [], []
    for f in findings:
        hit = [k for k in known if matches(k, args.prop, f)]
        (kn if hit else new).append(f)
    obligations = [o for r in results for o in r.obligations]
    n_ob = len(obligations)
    n_ok = sum(1 for o in obligations if o['ok'])
    wall = time.time() - t0

    P = ctx.P
    tot, res, unres = P.resolution_stats()
    print('property %s tier=%s: %d modules, %d function units, %d call sites (%d resolved), inference rounds %d'
          % (args.prop, args.tier, len(P.modules), len(P.units), tot, res, P.rounds))
    for r in results:
        print('  rule %-20s obligations=%-3d failed=%d' % (r.rule, len(r.obligations), len(r.findings)))
    for f in kn:
        print('KNOWN-FINDING: property=%s %s' % (args.prop, f.text()))
    rc = 0
    if selfval is not None:
        print('  self-validation: %d breaking variants, %d reported; %d equivalent variants, %d silent'
              % (selfval['mutants_applied'], selfval['mutants_killed'], selfval['equivalents'], selfval['equivalents_silent']))
        if selfval['problems']:
            for p in selfval['problems']:
                print('ANALYSIS-ERROR self-validation: %s' % p)
            rc = 2
    for rname, msg in rule_errors:
        print('ANALYSIS-ERROR property=%s rule %s gives no verdict: %s' % (args.prop, rname, msg))
    if rule_errors:
        rc = 2
    if new:
        os.makedirs(os.path.join(HERE, 'out'), exist_ok=True)
        rp = os.path.join(HERE, 'out', '%s.violation.json' % args.prop)
        json.dump({'property': args.prop, 'tier': args.tier, 'repo': args.repo,
                   'violations': [f.to_json() for f in new]}, open(rp, 'w'), indent=1)
        for f in new:
            print('  ' + f.text())
        print('VIOLATION property=%s replay=%s' % (args.prop, rp))
        rc = 1

    if not args.no_evidence:
        distinct = len({(o['rule'], o['where'], o['what']) for o in obligations})
        samples = obligations[:12] + [o for o in obligations if not o['ok']][:12]
        ev = {
            'property_id': args.prop, 'tier': args.tier, 'seed': seed, 'level': 'other',
            'coverage': {
                'explanation': spec['explanation'],
                'rules': [{'rule': r.rule, 'obligations': len(r.obligations), 'failed': len(r.findings),
                           'info': r.info} for r in results],
                'obligations': n_ob, 'discharged': n_ok,
                'evaluations': n_ob, 'distinct_nontrivial': distinct,
                'rule': 'one obligation per rule instance (call site, path class, table row or constant relation) '
                        'enumerated from the current source; distinct = distinct (rule, construct, obligation) triples',
                'samples': samples,
                'analysed': {'repo': args.repo, 'modules': sorted(P.paths.values()), 'function_units': len(P.units),
                             'call_sites': tot, 'call_sites_resolved': res, 'inference_rounds': P.rounds,
                             'unresolved_external_calls': len(unres)},
                'known_findings_reported': [f.to_json() for f in kn],
                'rules_without_verdict': [{'rule': r_, 'reason': m_} for r_, m_ in rule_errors],
                'exhaustive': True,
            },
            'assumptions': props.ASSUMPTIONS,
            'wall_s': round(wall, 3),
            'violations': len(new),
        }
        if selfval is not None:
            ev['coverage']['self_validation'] = {k: v for k, v in selfval.items()}
        os.makedirs(os.path.join(HERE, 'evidence'), exist_ok=True)
        json.dump(ev, open(os.path.join(HERE, 'evidence', '%s.json' % args.prop), 'w'), indent=1, default=str)
    print('%s property=%s obligations=%d discharged=%d known=%d new=%d wall=%.2fs'
          % ('OK' if rc == 0 else ('VIOLATED' if rc == 1 else 'BROKEN'), args.prop, n_ob, n_ok, len(kn), len(new), wall))
    return rc


if __name__ == '__main__':
    sys.exit(main())
