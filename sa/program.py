"""E1 + E2: program model and 0-CFA-lite type inference / call resolution (stdlib ast only).

Nothing in here imports or executes the analysed package.  The program is re-parsed from the working tree
on every run.  Anything the engines cannot make sense of raises AnalysisError (exit 2, never a silent pass).
"""
import ast
import collections
import os


class AnalysisError(Exception):
    """The analysis itself cannot proceed soundly (vanished anchor, unparsable module, unresolved call...)."""


FS = frozenset
EMPTY = FS()


def cap(a):
    if a[0] == 'ext' and (a[1].count('.') + a[1].count('(') + a[1].count('[')) > 2:
        return ('ext', 'opaque')
    return a


def T(*atoms):
    return FS(cap(a) for a in atoms)


INT, BYTES, STR, BOOL, NONE, FLOAT = ('int',), ('bytes',), ('str',), ('bool',), ('none',), ('float',)


class Unit:
    """a function / method / nested function"""

    def __init__(self, qual, node, cls, module, parent=None):
        self.qual, self.node, self.cls, self.module, self.parent = qual, node, cls, module, parent
        self.env = collections.defaultdict(lambda: EMPTY)
        self.ret = EMPTY
        self.yld = EMPTY
        self.is_gen = False
        self.params = [a.arg for a in node.args.posonlyargs + node.args.args]
        self.kwonly = [a.arg for a in node.args.kwonlyargs]
        self.nested = {}
        self.name = node.name
        self.is_static = any(isinstance(d, ast.Name) and d.id == 'staticmethod' for d in node.decorator_list)

    @property
    def is_method(self):
        return self.cls is not None and self.parent is None and not self.is_static

    @property
    def call_params(self):
        """parameters as seen by a caller (without self for methods)"""
        return self.params[1:] if self.is_method else self.params

    def defaults(self):
        """param name -> default ast expr"""
        a = self.node.args
        pos = a.posonlyargs + a.args
        out = {}
        for p, d in zip(pos[len(pos) - len(a.defaults):], a.defaults):
            out[p.arg] = d
        for p, d in zip(a.kwonlyargs, a.kw_defaults):
            if d is not None:
                out[p.arg] = d
        return out

    def __repr__(self):
        return self.qual


def setup_packages(root):
    """packages named in setup.py (constant list in the setup() call); fallback: every package dir with __init__"""
    sp = os.path.join(root, 'setup.py')
    pk = None
    if os.path.exists(sp):
        try:
            tree = ast.parse(open(sp).read(), sp)
            for n in ast.walk(tree):
                if isinstance(n, ast.Call) and getattr(n.func, 'id', None) == 'setup':
                    for k in n.keywords:
                        if k.arg == 'packages' and isinstance(k.value, (ast.List, ast.Tuple)):
                            pk = [e.value for e in k.value.elts if isinstance(e, ast.Constant)]
        except SyntaxError as e:
            raise AnalysisError('setup.py does not parse: %s' % e)
    if not pk:
        raise AnalysisError('cannot determine the packages to analyse from setup.py')
    return pk


class Program:
    def __init__(self, root, premodules=None):
        self.root = root
        self.premodules = premodules
        self.modules = {}      # modname -> ast.Module
        self.paths = {}        # modname -> path relative to root
        self.sources = {}
        self.classes = {}      # ClassName -> {method: Unit}
        self.class_mod = {}
        self.class_node = {}
        self.funcs = {}        # (module, name) -> Unit
        self.units = []
        self.fields = collections.defaultdict(lambda: EMPTY)   # (Class, attr) -> types
        self.modglobals = collections.defaultdict(dict)
        self.calls = collections.defaultdict(set)              # Unit -> set(Unit)
        self.callsites = {}    # id(ast.Call) -> (Unit, call node, set(targets), kinds)
        self.changed = False
        self._owner_cache = {}
        self.parent = {}       # id(ast node) -> parent ast node
        self.unit_of_node = {}  # id(FunctionDef) -> Unit
        self.load(root)

    # ------------------------------------------------------------------ loading
    def load(self, root):
        pkgs = setup_packages(root)
        self.packages = pkgs
        for pkg in ([] if self.premodules else pkgs):
            d = os.path.join(root, *pkg.split('.'))
            if not os.path.isdir(d):
                raise AnalysisError('package directory missing: %s' % d)
            for f in sorted(os.listdir(d)):
                if f.endswith('.py'):
                    p = os.path.join(d, f)
                    mod = os.path.relpath(p, root)[:-3].replace(os.sep, '.')
                    if mod.endswith('.__init__'):
                        mod = mod[:-9]
                    src = open(p, encoding='utf-8').read()
                    try:
                        tree = ast.parse(src, p)
                    except SyntaxError as e:
                        raise AnalysisError('module does not parse: %s: %s' % (p, e))
                    self.modules[mod] = tree
                    self.sources[mod] = src
                    self.paths[mod] = os.path.relpath(p, root)
                    for par in ast.walk(tree):
                        for ch in ast.iter_child_nodes(par):
                            self.parent[id(ch)] = par
        if self.premodules:
            # second phase: modules already parsed, inlined and normalised by a first Program (record types de-sugared)
            first = self.premodules
            self.modules, self.paths, self.sources = first.modules, first.paths, first.sources
            self.inliner, self.normalizer = first.inliner, first.normalizer
            for tree in self.modules.values():
                ast.fix_missing_locations(tree)
                for par in ast.walk(tree):
                    for ch in ast.iter_child_nodes(par):
                        self.parent[id(ch)] = par
        else:
            self._inline_and_normalize()
        self._build_tables()

    def _inline_and_normalize(self):
        # helpers introduced after the pinned vocabulary (extract-method refactorings) are inlined back into their callers
        from .inline import Inliner, load_vocabulary
        self.inliner = Inliner(self.modules, load_vocabulary()).run()
        from .normalize import Normalizer
        self.normalizer = Normalizer(self.modules).run()
        for tree in self.modules.values():
            ast.fix_missing_locations(tree)
        if self.inliner.inlined_sites or self.normalizer.changes or getattr(self.inliner, 'renamed', None):
            self.parent = {}
            for tree in self.modules.values():
                for par in ast.walk(tree):
                    for ch in ast.iter_child_nodes(par):
                        self.parent[id(ch)] = par

    def _build_tables(self):
        for mod, tree in self.modules.items():
            for n in tree.body:
                if isinstance(n, ast.ClassDef):
                    if n.name in self.classes:
                        raise AnalysisError('two package classes share the name %s' % n.name)
                    self.classes[n.name] = {}
                    self.class_mod[n.name] = mod
                    self.class_node[n.name] = n
                    self.modglobals[mod][n.name] = ('class', n.name)
                    for m in n.body:
                        if isinstance(m, ast.FunctionDef):
                            u = Unit('%s.%s' % (n.name, m.name), m, n.name, mod)
                            self.classes[n.name][m.name] = u
                            self.add_unit(u)
                elif isinstance(n, ast.FunctionDef):
                    u = Unit('%s:%s' % (mod, n.name), n, None, mod)
                    self.funcs[(mod, n.name)] = u
                    self.modglobals[mod][n.name] = ('func', u)
                    self.add_unit(u)
        for mod, tree in self.modules.items():
            for n in tree.body:
                if isinstance(n, ast.Import):
                    for a in n.names:
                        self.modglobals[mod][a.asname or a.name.split('.')[0]] = (
                            'extmod', a.name if a.asname else a.name.split('.')[0])
                elif isinstance(n, ast.ImportFrom):
                    src = self.resolve_mod(mod, n.module, n.level)
                    for a in n.names:
                        self.modglobals[mod][a.asname or a.name] = ('import', src, a.name)
        self.register_module_values()
        # a module-level function of the vocabulary that moved to another module of the package (and is unique there) is still
        # found under its vocabulary module
        from .inline import load_vocabulary
        byname = collections.defaultdict(list)
        for (m_, n_), u_ in list(self.funcs.items()):
            byname[n_].append(u_)
        for q in load_vocabulary():
            if ':' in q and '<locals>' not in q:
                m_, n_ = q.rsplit(':', 1)
                if (m_, n_) not in self.funcs and len(byname.get(n_, [])) == 1:
                    self.funcs[(m_, n_)] = byname[n_][0]

    def register_module_values(self):
        """module-level names bound to the result of a call of something imported from outside the package (struct.Struct(...),
        re.compile(...)) are external objects; `X = namedtuple('X', fields)` is a record type whose instances are typed as
        positional tuples with field names"""
        for mod, tree in self.modules.items():
            for n in tree.body:
                if not (isinstance(n, ast.Assign) and len(n.targets) == 1 and isinstance(n.targets[0], ast.Name) and isinstance(n.value, ast.Call)):
                    continue
                name, c = n.targets[0].id, n.value
                root = c.func
                while isinstance(root, ast.Attribute):
                    root = root.value
                if not isinstance(root, ast.Name):
                    continue
                g = self.modglobals[mod].get(root.id)
                if g is None or g[0] not in ('extmod', 'import') or (g[0] == 'import' and g[1] in self.modules):
                    continue
                fname = ast.unparse(c.func).split('.')[-1]
                if fname == 'namedtuple' and len(c.args) >= 2:
                    fields = None
                    a1 = c.args[1]
                    if isinstance(a1, ast.Constant) and isinstance(a1.value, str):
                        fields = tuple(a1.value.replace(',', ' ').split())
                    elif isinstance(a1, (ast.List, ast.Tuple)) and all(isinstance(x, ast.Constant) for x in a1.elts):
                        fields = tuple(x.value for x in a1.elts)
                    if fields:
                        self.modglobals[mod][name] = ('ntclass', name, fields)
                        continue
                self.modglobals[mod][name] = ('ext', ast.unparse(c.func) + '()')

    def resolve_mod(self, cur, module, level):
        if level == 0:
            return module
        is_pkg = self.paths[cur].endswith('__init__.py')
        parts = cur.split('.')
        if not is_pkg:
            parts = parts[:-1]
        parts = parts[:len(parts) - (level - 1)]
        return '.'.join(parts + ([module] if module else []))

    def add_unit(self, u):
        self.units.append(u)
        self.unit_of_node[id(u.node)] = u
        for n in ast.walk(u.node):
            if isinstance(n, (ast.Yield, ast.YieldFrom)) and self.owner_of(u.node, n) is u.node:
                u.is_gen = True
        for n in u.node.body:
            self.find_nested(u, n)

    def find_nested(self, u, stmt):
        for n in ast.walk(stmt):
            if isinstance(n, ast.FunctionDef):
                if self.owner_of(u.node, n, strict=True) is u.node:
                    nu = Unit(u.qual + '.<locals>.' + n.name, n, u.cls, u.module, parent=u)
                    u.nested[n.name] = nu
                    self.add_unit(nu)

    def owner_of(self, fn, target, strict=False):
        """innermost FunctionDef/Lambda (descendant of or equal to fn) containing target"""
        key = id(fn)
        if key not in self._owner_cache:
            m = {}

            def rec(node, owner):
                for ch in ast.iter_child_nodes(node):
                    m[id(ch)] = owner
                    if isinstance(ch, (ast.FunctionDef, ast.Lambda)):
                        rec(ch, ch)
                    else:
                        rec(ch, owner)
            rec(fn, fn)
            self._owner_cache[key] = m
        return self._owner_cache[key].get(id(target))

    def own(self, u, kind):
        """nodes of `kind` directly owned by unit u (not by nested defs / lambdas)"""
        for n in ast.walk(u.node):
            if isinstance(n, kind) and n is not u.node and self.owner_of(u.node, n) is u.node:
                yield n

    def stmt_of(self, node):
        """enclosing statement of an expression node"""
        cur = node
        while cur is not None and not isinstance(cur, ast.stmt):
            cur = self.parent.get(id(cur))
        return cur

    def unit(self, qual):
        for u in self.units:
            if u.qual == qual:
                return u
        raise AnalysisError('anchor vanished: function %s not found' % qual)

    def method(self, cls, name):
        m = self.classes.get(cls, {}).get(name)
        if m is None:
            raise AnalysisError('anchor vanished: method %s.%s not found' % (cls, name))
        return m

    def require_class(self, cls):
        if cls not in self.classes:
            raise AnalysisError('anchor vanished: class %s not found' % cls)
        return self.classes[cls]

    def path_of(self, u):
        return self.paths[u.module]

    # ------------------------------------------------------------------ lookup
    def lookup_global(self, mod, name, depth=0):
        g = self.modglobals.get(mod, {}).get(name)
        if g is None:
            return EMPTY
        if g[0] == 'extmod':
            return T(('ext', g[1]))
        if g[0] == 'import':
            if g[1] in self.modules and depth < 5:
                return self.lookup_global(g[1], g[2], depth + 1)
            return T(('ext', '%s.%s' % (g[1], g[2])))
        return T(g)

    def lookup(self, u, name):
        cur = u
        while cur is not None:
            if name in cur.env and cur.env[name]:
                return cur.env[name]
            if name in cur.nested:
                return T(('func', cur.nested[name]))
            if name in cur.params or name in cur.kwonly:
                return cur.env[name]
            cur = cur.parent
        g = self.lookup_global(u.module, name)
        if not g and name in ('list', 'dict', 'set', 'int', 'bytes', 'str'):
            return T(('extclass', name))
        return g

    def setvar(self, u, name, t):
        if not t:
            return
        old = u.env[name]
        new = self.merge_types(old, t)
        if new != old:
            u.env[name] = new
            self.changed = True

    # ------------------------------------------------------------------ helpers on types
    def elem(self, t):
        out = set()
        for a in t:
            if a[0] in ('list', 'set', 'iter'):
                out |= a[1]
            elif a[0] == 'dict':
                out |= a[1]
            elif a[0] == 'tuple':
                for c in a[1]:
                    out |= c
            elif a[0] == 'nt':
                for c in a[2]:
                    out |= c
            elif a == BYTES:
                out.add(BYTES)
            elif a == STR:
                out.add(STR)
        return FS(out)

    def method_of(self, cls, name):
        # private name mangling is transparent: ast keeps source spelling on both sides
        return self.classes.get(cls, {}).get(name)

    # ------------------------------------------------------------------ expression typing
    def ev(self, u, e):
        m = getattr(self, 'ev_' + type(e).__name__, None)
        if m is None:
            return EMPTY
        return m(u, e)

    def ev_Constant(self, u, e):
        v = e.value
        if isinstance(v, bool):
            return T(BOOL)
        if isinstance(v, int):
            return T(INT)
        if isinstance(v, bytes):
            return T(BYTES)
        if isinstance(v, str):
            return T(STR)
        if v is None:
            return T(NONE)
        if isinstance(v, float):
            return T(FLOAT)
        return EMPTY

    def ev_Name(self, u, e):
        return self.lookup(u, e.id)

    def ev_Tuple(self, u, e):
        return T(('tuple', tuple(self.ev(u, x) for x in e.elts)))

    def ev_List(self, u, e):
        if e.elts and not any(isinstance(x, ast.Starred) for x in e.elts):
            return T(('tuple', tuple(self.ev(u, x) for x in e.elts)))
        t = EMPTY
        for x in e.elts:
            t |= self.ev(u, x)
        return T(('list', t))

    def ev_Set(self, u, e):
        t = EMPTY
        for x in e.elts:
            t |= self.ev(u, x)
        return T(('set', t))

    def ev_Dict(self, u, e):
        k = v = EMPTY
        for a, b in zip(e.keys, e.values):
            if a is not None:
                k |= self.ev(u, a)
            v |= self.ev(u, b)
        return T(('dict', k, v))

    def ev_ListComp(self, u, e):
        self.bind_comps(u, e.generators)
        return T(('list', self.ev(u, e.elt)))

    def ev_SetComp(self, u, e):
        self.bind_comps(u, e.generators)
        return T(('set', self.ev(u, e.elt)))

    def ev_GeneratorExp(self, u, e):
        self.bind_comps(u, e.generators)
        return T(('iter', self.ev(u, e.elt)))

    def ev_DictComp(self, u, e):
        self.bind_comps(u, e.generators)
        return T(('dict', self.ev(u, e.key), self.ev(u, e.value)))

    def bind_comps(self, u, gens):
        for g in gens:
            self.assign(u, g.target, self.elem(self.ev(u, g.iter)))
            for c in g.ifs:
                self.ev(u, c)

    def ev_IfExp(self, u, e):
        self.ev(u, e.test)
        return self.ev(u, e.body) | self.ev(u, e.orelse)

    def ev_BoolOp(self, u, e):
        t = EMPTY
        for x in e.values:
            t |= self.ev(u, x)
        return t

    def ev_UnaryOp(self, u, e):
        t = self.ev(u, e.operand)
        return T(BOOL) if isinstance(e.op, ast.Not) else t

    def ev_Compare(self, u, e):
        self.ev(u, e.left)
        for c in e.comparators:
            self.ev(u, c)
        return T(BOOL)

    def ev_BinOp(self, u, e):
        l, r = self.ev(u, e.left), self.ev(u, e.right)
        if isinstance(e.op, ast.Mod) and (STR in l or BYTES in l):
            return FS(a for a in l if a in (STR, BYTES))
        return FS(a for a in (l | r) if a in (INT, BYTES, STR, FLOAT) or a[0] == 'list')

    def ev_JoinedStr(self, u, e):
        for v in e.values:
            self.ev(u, v)
        return T(STR)

    def ev_FormattedValue(self, u, e):
        self.ev(u, e.value)
        return T(STR)

    def ev_Yield(self, u, e):
        if e.value is not None:
            t = self.ev(u, e.value)
            new = self.merge_types(u.yld, t)
            if new != u.yld:
                u.yld = new
                self.changed = True
        return EMPTY

    def ev_YieldFrom(self, u, e):
        t = self.elem(self.ev(u, e.value))
        new = self.merge_types(u.yld, t)
        if new != u.yld:
            u.yld = new
            self.changed = True
        return EMPTY

    def ev_Starred(self, u, e):
        return self.ev(u, e.value)

    def ev_Lambda(self, u, e):
        self.ev(u, e.body)
        return T(('ext', 'lambda'))

    def ev_Subscript(self, u, e):
        base = self.ev(u, e.value)
        self.ev(u, e.slice)
        out = set()
        for a in base:
            if a[0] == 'dict':
                out |= a[2]
            elif a[0] == 'list':
                out |= ({a} if isinstance(e.slice, ast.Slice) else a[1])
            elif a[0] == 'nt':
                for c in a[2]:
                    out |= c
            elif a[0] == 'tuple':
                if isinstance(e.slice, ast.Constant) and isinstance(e.slice.value, int) \
                        and -len(a[1]) <= e.slice.value < len(a[1]):
                    out |= a[1][e.slice.value]
                else:
                    for c in a[1]:
                        out |= c
            elif a in (BYTES, STR):
                out.add(a)
            elif a[0] == 'ext':
                out.add(cap(('ext', a[1] + '[]')))
        return FS(out)

    def ev_Slice(self, u, e):
        for x in (e.lower, e.upper, e.step):
            if x is not None:
                self.ev(u, x)
        return EMPTY

    def ev_Attribute(self, u, e):
        base = self.ev(u, e.value)
        out = set()
        for a in base:
            if a[0] == 'inst':
                m = self.method_of(a[1], e.attr)
                if m is not None:
                    out.add(('bound', a[1], e.attr))
                out |= self.fields[(a[1], e.attr)]
            elif a[0] == 'ext':
                out.add(cap(('ext', a[1] + '.' + e.attr)))
            elif a[0] == 'nt':
                if e.attr in a[1]:
                    out |= a[2][a[1].index(e.attr)]
            elif a[0] in ('dict', 'list', 'set', 'bytes', 'str', 'iter') or (a[0] == 'tuple' and e.attr in ('pop', 'popleft')):
                out.add(('bmeth', a, e.attr))
        return FS(out)

    BUILTIN_RET = {'len': T(INT), 'int': T(INT), 'float': T(FLOAT), 'bool': T(BOOL), 'str': T(STR),
                   'isinstance': T(BOOL), 'max': T(INT), 'min': T(INT)}

    def ev_Call(self, u, e):
        argt = [self.ev(u, a) for a in e.args]
        kwt = {k.arg: self.ev(u, k.value) for k in e.keywords}
        targets = set()
        out = set()
        kinds = set()
        f = e.func
        ft = self.ev(u, f)
        if isinstance(f, ast.Name) and (not ft or all(a[0] == 'extclass' for a in ft)):
            kinds.add('builtin:' + f.id)
            out |= self.builtin_call(u, f.id, e, argt)
        for a in ft:
            if a[0] == 'class':
                out.add(('inst', a[1]))
                kinds.add('ctor')
                init = self.method_of(a[1], '__init__')
                if init:
                    targets.add(init)
                    self.bind(init, argt, kwt, e, skip_self=True)
            elif a[0] == 'bound':
                mu = self.method_of(a[1], a[2])
                kinds.add('method')
                targets.add(mu)
                self.bind(mu, argt, kwt, e, skip_self=True)
                out |= self.result_of(mu)
            elif a[0] == 'func':
                kinds.add('func')
                targets.add(a[1])
                self.bind(a[1], argt, kwt, e, skip_self=False)
                out |= self.result_of(a[1])
            elif a[0] == 'ntclass':
                kinds.add('ext')
                vals = list(argt) + [EMPTY] * (len(a[2]) - len(argt))
                for k_, t_ in kwt.items():
                    if k_ in a[2]:
                        vals[a[2].index(k_)] = t_
                out.add(('nt', a[2], tuple(vals[:len(a[2])])))
            elif a[0] == 'bmeth':
                kinds.add('bmeth')
                out |= self.bmeth_call(u, f, a, argt)
            elif a[0] == 'ext':
                kinds.add('ext')
                if a[1] in ('heapq.heappush', 'heapq.heappushpop', 'heapq.heapreplace') and len(e.args) >= 2:
                    self.widen(u, e.args[0], T(('list', argt[1])))
                if a[1] in ('heapq.heappop', 'heapq.heappushpop', 'heapq.heapreplace') and argt:
                    out |= self.elem(argt[0])
                else:
                    out |= self.ext_call(a[1], argt)
        for tgt in targets:
            if tgt not in self.calls[u]:
                self.calls[u].add(tgt)
                self.changed = True
        self.callsites[id(e)] = (u, e, targets, kinds)
        return FS(out)

    def result_of(self, fu):
        if fu.is_gen:
            return T(('iter', fu.yld))
        return fu.ret

    def bind(self, fu, argt, kwt, call, skip_self):
        params = fu.params[1:] if skip_self and fu.cls and fu.parent is None and not fu.is_static else fu.params
        if any(isinstance(a, ast.Starred) for a in call.args):
            return
        for p, t in zip(params, argt):
            self.setvar(fu, p, t)
        for k, t in kwt.items():
            if k is not None and (k in params or k in fu.kwonly):
                self.setvar(fu, k, t)
            elif k is not None and fu.node.args.kwarg is not None:
                self.setvar(fu, fu.node.args.kwarg.arg, T(('dict', T(STR), t)))

    def ext_call(self, name, argt):
        if name.startswith('struct.pack'):
            return T(BYTES)
        if name.startswith('struct.unpack'):
            return T(('exttuple',))
        if name.startswith('struct.calcsize'):
            return T(INT)
        if name == 'collections.defaultdict':
            v = EMPTY
            for a in argt[:1]:
                for x in a:
                    if x == ('extclass', 'list'):
                        v |= T(('list', EMPTY))
            return T(('dict', EMPTY, v))
        if name == 'collections.Counter':
            return T(('dict', EMPTY, T(INT)))
        if name in ('itertools.chain', 'chain', 'itertools.chain.from_iterable'):
            t = EMPTY
            for a in argt:
                t |= self.elem(a)
            return T(('iter', t))
        return T(('ext', name + '()'))

    def builtin_call(self, u, name, e, argt):
        if name in self.BUILTIN_RET:
            return self.BUILTIN_RET[name]
        if name == 'list':
            return T(('list', self.elem(argt[0]) if argt else EMPTY))
        if name == 'set':
            return T(('set', self.elem(argt[0]) if argt else EMPTY))
        if name == 'dict':
            return T(('dict', EMPTY, EMPTY))
        if name in ('reversed', 'sorted', 'iter'):
            return T(('iter', self.elem(argt[0]) if argt else EMPTY))
        if name == 'range':
            return T(('iter', T(INT)))
        if name == 'enumerate':
            return T(('iter', T(('tuple', (T(INT), self.elem(argt[0]) if argt else EMPTY)))))
        if name == 'open':
            return T(('ext', 'file'))
        if name == 'bytearray':
            return T(('ext', 'bytearray'))
        return EMPTY

    def bmeth_call(self, u, f, a, argt):
        base, name = a[1], a[2]
        if base[0] == 'dict':
            if name == 'items':
                return T(('iter', T(('tuple', (base[1], base[2])))))
            if name == 'keys':
                return T(('iter', base[1]))
            if name == 'values':
                return T(('iter', base[2]))
            if name in ('get', 'pop'):
                return base[2] | T(NONE)
            if name == 'update':
                for t in argt:
                    for x in t:
                        if x[0] == 'dict':
                            self.widen(u, f.value, T(('dict', x[1], x[2])))
                return EMPTY
        if base[0] == 'tuple' and name in ('pop', 'popleft'):
            t = EMPTY
            for c_ in base[1]:
                t |= c_
            return t
        if base[0] in ('list', 'set'):
            if name in ('append', 'add'):
                if argt:
                    self.widen(u, f.value, T((base[0], argt[0])))
                return EMPTY
            if name == 'pop':
                return base[1]
        if base in (BYTES, STR):
            if name in ('split',):
                return T(('list', T(base)))
            if name in ('join', 'replace', 'encode', 'decode', 'lower', 'format'):
                return T(BYTES if (base == BYTES or name == 'encode') and name != 'decode' else STR)
            return T(BOOL)
        return EMPTY

    def widen(self, u, target, t):
        """container stored in a Name / self.attr / Name[...] gained element types"""
        if isinstance(target, ast.Name):
            self.merge_container(u, target.id, t)
        elif isinstance(target, ast.Attribute):
            for a in self.ev(u, target.value):
                if a[0] == 'inst':
                    self.merge_field_container(a[1], target.attr, t)
        elif isinstance(target, ast.Subscript):
            self.widen(u, target.value, T(('dict', self.ev(u, target.slice), t)))

    def merge_types(self, old, t):
        """merge container atoms of same kind structurally"""
        out = set()
        conts = {}
        for a in old | t:
            if a[0] in ('list', 'set', 'iter'):
                conts[a[0]] = self.merge_types(conts.get(a[0], EMPTY), a[1])
            elif a[0] == 'dict':
                k, v = conts.get('dict', (EMPTY, EMPTY))
                conts['dict'] = (self.merge_types(k, a[1]), self.merge_types(v, a[2]))
            elif a[0] == 'tuple':
                key = ('tuple', len(a[1]))
                if key in conts:
                    conts[key] = tuple(self.merge_types(x, y) for x, y in zip(conts[key], a[1]))
                else:
                    conts[key] = a[1]
            else:
                out.add(a)
        for k, v in conts.items():
            if k == 'dict':
                out.add(('dict', v[0], v[1]))
            elif isinstance(k, tuple):
                out.add(('tuple', v))
            else:
                out.add((k, v))
        return FS(out)

    def merge_container(self, u, name, t):
        cur = u
        while cur is not None and not (name in cur.env and cur.env[name]):
            cur = cur.parent
        cur = cur or u
        new = self.merge_types(cur.env[name], t)
        if new != cur.env[name]:
            cur.env[name] = new
            self.changed = True

    def merge_field_container(self, cls, attr, t):
        new = self.merge_types(self.fields[(cls, attr)], t)
        if new != self.fields[(cls, attr)]:
            self.fields[(cls, attr)] = new
            self.changed = True

    # ------------------------------------------------------------------ statements
    def assign(self, u, target, t):
        if isinstance(target, ast.Name):
            new = self.merge_types(u.env[target.id], t)
            if new != u.env[target.id]:
                u.env[target.id] = new
                self.changed = True
        elif isinstance(target, (ast.Tuple, ast.List)):
            n = len(target.elts)
            for i, el in enumerate(target.elts):
                ct = set()
                for a in t:
                    if a[0] == 'tuple' and len(a[1]) == n:
                        ct |= a[1][i]
                    elif a[0] in ('list', 'iter', 'set'):
                        ct |= a[1]
                self.assign(u, el, FS(ct))
        elif isinstance(target, ast.Attribute):
            for a in self.ev(u, target.value):
                if a[0] == 'inst':
                    self.merge_field_container(a[1], target.attr, t)
        elif isinstance(target, ast.Subscript):
            base = self.ev(u, target.value)
            k = self.ev(u, target.slice)
            for a in base:
                if a[0] == 'dict':
                    self.widen(u, target.value, T(('dict', k, t)))
                elif a[0] == 'list':
                    self.widen(u, target.value, T(('list', t)))

    def run_unit(self, u):
        if u.cls and u.parent is None and u.params and not u.is_static:
            self.setvar(u, u.params[0], T(('inst', u.cls)))
        for st in u.node.body:
            self.stmt(u, st)

    def stmt(self, u, s):
        if isinstance(s, ast.FunctionDef):
            return   # nested units run separately
        if isinstance(s, ast.Assign):
            t = self.ev(u, s.value)
            for tg in s.targets:
                self.assign(u, tg, t)
        elif isinstance(s, ast.AugAssign):
            t = self.ev(u, s.value)
            self.assign(u, s.target, t | self.ev(u, s.target))
        elif isinstance(s, ast.AnnAssign):
            if s.value is not None:
                self.assign(u, s.target, self.ev(u, s.value))
        elif isinstance(s, ast.Expr):
            self.ev(u, s.value)
        elif isinstance(s, ast.Return):
            if s.value is not None:
                t = self.ev(u, s.value)
                new = self.merge_types(u.ret, t)
                if new != u.ret:
                    u.ret = new
                    self.changed = True
            else:
                if NONE not in u.ret:
                    u.ret |= T(NONE)
                    self.changed = True
        elif isinstance(s, ast.For):
            self.assign(u, s.target, self.elem(self.ev(u, s.iter)))
            for x in s.body + s.orelse:
                self.stmt(u, x)
        elif isinstance(s, ast.While):
            self.ev(u, s.test)
            for x in s.body + s.orelse:
                self.stmt(u, x)
        elif isinstance(s, ast.If):
            self.ev(u, s.test)
            for x in s.body + s.orelse:
                self.stmt(u, x)
        elif isinstance(s, ast.Try):
            for x in s.body + s.orelse + s.finalbody:
                self.stmt(u, x)
            for h in s.handlers:
                for x in h.body:
                    self.stmt(u, x)
        elif isinstance(s, ast.With):
            for it in s.items:
                t = self.ev(u, it.context_expr)
                if it.optional_vars is not None:
                    self.assign(u, it.optional_vars, t)
            for x in s.body:
                self.stmt(u, x)
        elif isinstance(s, ast.Raise):
            if s.exc is not None:
                self.ev(u, s.exc)
        elif isinstance(s, ast.Assert):
            self.ev(u, s.test)

    def solve(self):
        rounds = 0
        while True:
            rounds += 1
            self.changed = False
            for u in self.units:
                self.run_unit(u)
            if not self.changed:
                break
            if rounds > 60:
                raise AnalysisError('type inference did not converge in 60 rounds')
        self.rounds = rounds
        return self

    def desugar_records(self):
        """second-phase normalisation that needs types: a private record type (`_Frame = namedtuple('_Frame', 'block lru')`) is
        a tuple with names; constructor calls become tuple displays and field reads become constant subscripts, so that the rules
        see the tuples they know.  Returns the number of rewritten nodes (the caller re-solves when it is not 0)."""
        n = 0

        def replace(old, new):
            par = self.parent.get(id(old))
            if par is None:
                return False
            for field, val in ast.iter_fields(par):
                if val is old:
                    setattr(par, field, ast.copy_location(new, old))
                    return True
                if isinstance(val, list):
                    for i, x in enumerate(val):
                        if x is old:
                            val[i] = ast.copy_location(new, old)
                            return True
            return False
        # field reads first (their base types were computed on the unmodified tree)
        for u in self.units:
            for x in list(self.own(u, ast.Attribute)):
                if not isinstance(x.ctx, ast.Load):
                    continue
                bt = self.ev(u, x.value)
                nts = [a for a in bt if a[0] == 'nt']
                if nts and len(nts) == len(bt) and all(x.attr in a[1] for a in nts) and len({a[1].index(x.attr) for a in nts}) == 1:
                    idx = nts[0][1].index(x.attr)
                    if replace(x, ast.Subscript(value=x.value, slice=ast.Constant(value=idx), ctx=ast.Load())):
                        n += 1
        for (u, e, targets, kinds) in list(self.callsites.values()):
            ft = self.ev(u, e.func)
            ncs = [a for a in ft if a[0] == 'ntclass']
            if ncs and len(ncs) == len(ft) and not any(isinstance(a, ast.Starred) for a in e.args):
                fields = ncs[0][2]
                vals = list(e.args) + [None] * (len(fields) - len(e.args))
                okk = True
                for k in e.keywords:
                    if k.arg in fields and vals[fields.index(k.arg)] is None:
                        vals[fields.index(k.arg)] = k.value
                    else:
                        okk = False
                if okk and all(v is not None for v in vals[:len(fields)]) and len(vals) == len(fields):
                    if replace(e, ast.Tuple(elts=vals, ctx=ast.Load())):
                        n += 1
        # a local bound once to a record / tuple of known arity and only ever read through constant subscripts is the unpacked tuple
        for u in self.units:
            binds = {}
            for a in self.own(u, ast.Assign):
                if len(a.targets) == 1 and isinstance(a.targets[0], ast.Name):
                    binds.setdefault(a.targets[0].id, []).append(a)
            for name, defs in binds.items():
                if len(defs) != 1 or name in u.params:
                    continue
                a = defs[0]
                t = self.ev(u, a.value)
                ar = {len(x[2]) if x[0] == 'nt' else len(x[1]) for x in t if x[0] in ('nt', 'tuple')}
                if len(ar) != 1 or any(x[0] not in ('nt', 'tuple') for x in t):
                    continue
                k = list(ar)[0]
                names = [x for x in self.own(u, ast.Name) if x.id == name]
                stores = [x for x in names if isinstance(x.ctx, ast.Store)]
                loads = [x for x in names if isinstance(x.ctx, ast.Load)]
                subs = []
                for l in loads:
                    par = self.parent.get(id(l))
                    if isinstance(par, ast.Subscript) and par.value is l and isinstance(par.slice, ast.Constant) and isinstance(par.slice.value, int) \
                            and 0 <= par.slice.value < k and isinstance(par.ctx, ast.Load):
                        subs.append(par)
                if len(stores) != 1 or len(subs) != len(loads) or not loads:
                    continue
                parts = ['_u_%s_%d' % (name, i) for i in range(k)]
                a.targets[0] = ast.copy_location(ast.Tuple(elts=[ast.Name(id=p_, ctx=ast.Store()) for p_ in parts], ctx=ast.Store()), a.targets[0])
                for sub in subs:
                    replace(sub, ast.Name(id=parts[sub.slice.value], ctx=ast.Load()))
                n += 1
            # the same for a loop variable
            for f in self.own(u, ast.For):
                if not isinstance(f.target, ast.Name):
                    continue
                name = f.target.id
                t = self.elem(self.ev(u, f.iter))
                ar = {len(x[2]) if x[0] == 'nt' else len(x[1]) for x in t if x[0] in ('nt', 'tuple')}
                if len(ar) != 1 or any(x[0] not in ('nt', 'tuple') for x in t):
                    continue
                k = list(ar)[0]
                names = [x for x in self.own(u, ast.Name) if x.id == name]
                stores = [x for x in names if isinstance(x.ctx, ast.Store)]
                loads = [x for x in names if isinstance(x.ctx, ast.Load)]
                subs = []
                for l in loads:
                    par = self.parent.get(id(l))
                    if isinstance(par, ast.Subscript) and par.value is l and isinstance(par.slice, ast.Constant) and isinstance(par.slice.value, int) \
                            and 0 <= par.slice.value < k and isinstance(par.ctx, ast.Load):
                        subs.append(par)
                if len(stores) != 1 or len(subs) != len(loads) or not loads:
                    continue
                parts = ['_u_%s_%d' % (name, i) for i in range(k)]
                f.target = ast.copy_location(ast.Tuple(elts=[ast.Name(id=p_, ctx=ast.Store()) for p_ in parts], ctx=ast.Store()), f.target)
                for sub in subs:
                    replace(sub, ast.Name(id=parts[sub.slice.value], ctx=ast.Load()))
                n += 1
        if n:
            from .inline import _collapse_aliases
            for u in self.units:
                _collapse_aliases(u.node, prefix=r'_u_')
        return n

    # ------------------------------------------------------------------ queries for rules
    def targets(self, call):
        cs = self.callsites.get(id(call))
        return cs[2] if cs else set()

    def kinds(self, call):
        cs = self.callsites.get(id(call))
        return cs[3] if cs else set()

    def inst_classes(self, t, depth=0):
        """class names reachable in a type (through containers)"""
        out = set()
        for a in t:
            if a[0] == 'inst':
                out.add(a[1])
            elif a[0] in ('list', 'set', 'iter') and depth < 4:
                out |= self.inst_classes(a[1], depth + 1)
            elif a[0] == 'dict' and depth < 4:
                out |= self.inst_classes(a[2], depth + 1)
            elif a[0] == 'tuple' and depth < 4:
                for c in a[1]:
                    out |= self.inst_classes(c, depth + 1)
        return out

    def direct_classes(self, t):
        return {a[1] for a in t if a[0] == 'inst'}

    def var_classes(self, u, name):
        return self.direct_classes(self.lookup(u, name))

    def expr_classes(self, u, e):
        return self.direct_classes(self.ev(u, e))

    def resolution_stats(self):
        tot = res = 0
        unresolved = []
        for (u, e, targets, kinds) in self.callsites.values():
            tot += 1
            if targets or kinds:
                res += 1
            else:
                unresolved.append((u.qual, e.lineno, ast.unparse(e.func)))
        return tot, res, unresolved

    def check_resolution(self):
        """A call whose attribute name is a method of some package class, whose receiver type is not purely
        external/builtin-known, and that resolves to nothing would make effect rules unsound."""
        allm = collections.defaultdict(set)
        for c, ms in self.classes.items():
            for m in ms:
                allm[m].add(c)
        missed = []
        for (u, e, targets, kinds) in self.callsites.values():
            f = e.func
            if isinstance(f, ast.Attribute) and f.attr in allm and not targets:
                rt = self.ev(u, f.value)
                # known-external receivers: typed as ext / builtin containers / scalars only
                if rt and all(a[0] in ('ext', 'dict', 'list', 'set', 'iter', 'tuple', 'bytes', 'str', 'int',
                                       'none', 'bool', 'float', 'exttuple', 'extclass', 'nt', 'ntclass') for a in rt):
                    continue
                missed.append('%s:%d %s (receiver type: %s)' % (self.path_of(u), e.lineno, ast.unparse(f),
                                                               fmt(rt)))
        return missed


def fmt(t):
    out = []
    for a in sorted(t, key=repr):
        if a[0] == 'inst':
            out.append(a[1])
        elif a[0] in ('list', 'set', 'iter'):
            out.append('%s[%s]' % (a[0], fmt(a[1])))
        elif a[0] == 'dict':
            out.append('dict[%s,%s]' % (fmt(a[1]), fmt(a[2])))
        elif a[0] == 'tuple':
            out.append('(%s)' % ', '.join(fmt(c) for c in a[1]))
        elif a[0] == 'func':
            out.append('func:' + a[1].qual)
        elif a[0] == 'bound':
            out.append('bound:%s.%s' % (a[1], a[2]))
        elif a[0] == 'bmeth':
            out.append('bmeth:%s' % a[2])
        else:
            out.append(':'.join(str(x) for x in a))
    return '|'.join(out) or '?'


def norm_stmt(node):
    """normalised statement text used as finding key (independent of line numbers and formatting)"""
    try:
        if isinstance(node, (ast.If, ast.While)):
            return ('if ' if isinstance(node, ast.If) else 'while ') + ast.unparse(node.test)
        if isinstance(node, ast.For):
            return 'for %s in %s' % (ast.unparse(node.target), ast.unparse(node.iter))
        if isinstance(node, ast.FunctionDef):
            return 'def ' + node.name
        return ' '.join(ast.unparse(node).split())
    except Exception:
        return '<?>'
