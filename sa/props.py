"""property -> rules mapping and the texts that go to MANIFEST / evidence"""

ASSUMPTIONS = [
    'A1 the program is what ast shows: no dynamic dispatch, patching or inheritance between package classes '
    '(checked on every run by R-STATIC-SHAPE; a breach is ANALYSIS-ERROR)',
    'A2 externals behave as documented: file.write/seek/read, bytearray slicing, struct, mmap',
    'A3 two node variables obtained for different LRUs denote different blocks (no alias analysis)',
    'A4 in-place rewrites of one block are atomic; no exception between a mutator and its write()',
    'only structural clauses (necessary conditions) are decided, not the value-level statement of the property',
]

PROPS = {}


def prop(pid, rules, explanation, claim, not_decided):
    PROPS[pid] = {'rules': ['R-STATIC-SHAPE'] + rules, 'explanation': explanation, 'claim': claim,
                  'not_decided': not_decided}


prop('C14', ['R-READONLY', 'R-WRITE-API'],
     'Typed call-graph reachability: from every read-only Traph entry point (names in the query families) no path of '
     'resolved calls reaches a storage-class method that mutates the store bytes, a truncating open(), or a direct '
     'mutation of a storage object; storage mutators are computed from the storage class bodies.',
     'no path from any query entry point to a mutation of either store (complete for the statement modulo A1-A2)',
     'nothing beyond A1-A2')


prop('C16', ['R-FRESH','R-DIRTY-WRITTEN','R-NULL-HEAD','R-CRAWLED','R-NONE-CHECK','R-TOKEN-PAIR','R-CHUNK-LAST','R-ACCESSOR-TABLE','R-GEOMETRY','R-TAIL-PROTOCOL','R-STORAGE-IFACE','R-VARIATIONS'], 'tmp', 'tmp', 'tmp')
