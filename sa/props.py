"""property -> rules mapping and the texts that go to MANIFEST / evidence.

A rule entry is either a rule name or (rule name, [function patterns]) restricting the rule's obligations and findings
to constructs inside matching functions (fnmatch on the qualified function name); '!pat' excludes.
"""
import fnmatch

ASSUMPTIONS = [
    'A1 the program is what ast shows: no dynamic dispatch, patching or inheritance between package classes '
    '(checked on every run by R-STATIC-SHAPE; a breach is ANALYSIS-ERROR)',
    'A2 externals behave as documented: file.write/seek/read, bytearray slicing, struct, mmap',
    'A3 two node variables obtained for different LRUs denote different blocks (no alias analysis)',
    'A4 in-place rewrites of one block are atomic; no exception between a mutator and its write()',
    'only structural clauses (necessary conditions) are decided, not the value-level statement of the property',
]

PROPS = {}


def prop(pid, rules, explanation, claim, not_decided, technique=None):
    rr = [('R-STATIC-SHAPE', None)]
    for r in rules:
        rr.append((r, None) if isinstance(r, str) else (r[0], list(r[1])))
    PROPS[pid] = {'rules': rr, 'explanation': explanation, 'claim': claim, 'not_decided': not_decided}
    if technique:
        PROPS[pid]['technique'] = technique


def in_scope(scope, func):
    if scope is None:
        return True
    pos = [p for p in scope if not p.startswith('!')]
    neg = [p[1:] for p in scope if p.startswith('!')]
    if any(fnmatch.fnmatchcase(func, p) for p in neg):
        return False
    return not pos or any(fnmatch.fnmatchcase(func, p) for p in pos)


NETWORK = ['Traph.get_webentities_*']
WE_LINKS = ['Traph.get_webentity_pagelinks_iter', 'Traph.get_webentity_outlinks_iter', 'Traph.get_webentity_inlinks_iter']
PAGELINK_PAGING = ['Traph.paginate_webentity_pagelinks']
MOST_LINKED = ['Traph.get_webentity_most_linked_pages_iter']
PAGE_LINKS = ['!' + p for p in NETWORK + WE_LINKS + PAGELINK_PAGING + MOST_LINKED]

MONO = ['R-MONOTONE-CALLERS', 'R-MONOTONE-POINTERS']
WE_FILTERS = ['Traph.get_webentity_pagelinks_iter', 'Traph.paginate_webentity_pagelinks']
# rule groups: necessary conditions shared by several properties
TRIE = ['R-FRESH', 'R-DIRTY-WRITTEN', 'R-BST-AGREE', 'R-PARENT-PAIR', 'R-TAIL-PROTOCOL', 'R-READ-RESETS', 'R-CHUNK-LAST', 'R-LRU-ASSEMBLY'] + MONO
LINKS = ['R-LINK-PAIR', 'R-HEAD-REPOINT', 'R-LINK-WALK', 'R-DIRECTION', 'R-NO-EARLY-EXIT']
RESOLVE = ['R-TRACK-AGREE', 'R-OWN-ERROR', 'R-NO-STALE-CACHE', 'R-LRU-ASSEMBLY']
WALK = ['R-RELEVANCE', 'R-STACK-BLOCKS', 'R-EVERY-PREFIX', 'R-NO-EARLY-EXIT']

RULESETS = {
 'C01': TRIE + ['R-CRAWLED', 'R-PAGE-REPORT', 'R-READONLY', 'R-ARGS-HONOURED', 'R-ENUM-FILTERS', 'R-ALLOC'],
 'C02': TRIE + ['R-GEOMETRY', 'R-ACCESSOR-TABLE', 'R-STORAGE-IFACE', 'R-STORAGE-SEM'],
 'C03': LINKS + ['R-ACCESSOR-TABLE', ('R-FILTER-AGREE', ['Traph.get_page_links']), 'R-FRESH', 'R-DIRTY-WRITTEN', ('R-NULL-HEAD', PAGE_LINKS), 'R-ARGS-HONOURED'],
 'C04': RESOLVE + ['R-BST-AGREE', 'R-TAIL-PROTOCOL', 'R-READ-RESETS', 'R-WE-ATTACH', 'R-DIRTY-WRITTEN', 'R-ARGS-HONOURED', 'R-PREFIX-EDIT', 'R-REFUSE-CLEAN'],
 'C05': WALK + RESOLVE + ['R-READ-RESETS', 'R-TAIL-PROTOCOL', 'R-ENUM-FILTERS', 'R-BST-AGREE'],
 'C06': ['R-LADDER-AGREE', 'R-TRACK-AGREE', 'R-RULES-TO-APPLY', 'R-ID', 'R-RULE-INSTALL', 'R-WE-ATTACH', 'R-VARIATIONS', 'R-BST-AGREE'],
 'C07': ['R-PROPAGATE', ('R-FILTER-AGREE', NETWORK), ('R-MEMO-KEY', NETWORK), ('R-NULL-HEAD', NETWORK), 'R-NO-STALE-CACHE', 'R-LRU-ASSEMBLY'] + LINKS,
 'C08': [('R-NULL-HEAD', WE_LINKS), ('R-FILTER-AGREE', WE_FILTERS), ('R-MEMO-KEY', ['!Traph.get_webentities_*']), 'R-NO-STALE-CACHE', 'R-DISTINCT-DEGREE',
         'R-LRU-ASSEMBLY', 'R-ARGS-HONOURED'] + WALK + LINKS,
 'C09': [('R-TOKEN-PAIR', ['Traph.paginate_webentity_pages']), 'R-TOKEN-CODEC', 'R-ORDER', ('R-PAGINATE', ['Traph.paginate_webentity_pages'])] + WALK + MONO,
 'C10': [('R-TOKEN-PAIR', PAGELINK_PAGING), ('R-FILTER-AGREE', WE_FILTERS), ('R-MEMO-KEY', WE_FILTERS), ('R-NULL-HEAD', PAGELINK_PAGING), 'R-TOKEN-CODEC', 'R-ORDER',
         ('R-PAGINATE', PAGELINK_PAGING), 'R-RELEVANCE', 'R-EVERY-PREFIX', 'R-NO-EARLY-EXIT', 'R-LINK-WALK'],
 'C11': ['R-OPEN-TABLE', 'R-CLEAR-AGREE', 'R-GEOMETRY', 'R-ID', 'R-DIRTY-WRITTEN', 'R-STORAGE-SEM', 'R-STORAGE-IFACE', 'R-RULE-INSTALL'],
 'C12': ['R-ID', 'R-DIRTY-WRITTEN', 'R-STORAGE-IFACE', 'R-STORAGE-SEM', 'R-REFUSE-CLEAN'],
 'C13': ['R-WE-ATTACH', 'R-ANCESTOR-FLAG', 'R-SKIP-CHILDLESS', 'R-HIERARCHY', 'R-FRESH', 'R-DIRTY-WRITTEN', 'R-EVERY-PREFIX', 'R-ARGS-HONOURED', 'R-NO-EARLY-EXIT'] + MONO,
 'C14': ['R-READONLY', 'R-WRITE-API'],
 'C15': ['R-STORAGE-IFACE', 'R-STORAGE-SEM', 'R-OPEN-TABLE', 'R-CLEAR-AGREE', 'R-READ-RESETS'],
 'C16': ['R-FRESH', 'R-DIRTY-WRITTEN', 'R-STACK-BLOCKS', 'R-NO-STALE-CACHE', ('R-FILTER-AGREE', NETWORK), ('R-MEMO-KEY', NETWORK), 'R-DIRECTION', 'R-LINK-PAIR'],
 'C17': ['R-VARIATIONS', 'R-LADDER-AGREE', 'R-ID', 'R-NO-STALE-CACHE'],
 'C18': ['R-OPEN-TABLE', 'R-POINTEE-FIRST', 'R-GEOMETRY', 'R-NONE-CHECK', 'R-STORAGE-IFACE', 'R-HEAD-REPOINT', 'R-FRESH', 'R-DIRTY-WRITTEN', 'R-TAIL-PROTOCOL'],
 'C19': ['R-CHUNK-LAST', 'R-ALLOC', 'R-GEOMETRY', 'R-METRICS', 'R-HEAD-REPOINT', 'R-LINK-PAIR', 'R-LINK-WALK', 'R-FRESH', 'R-DIRTY-WRITTEN', 'R-TAIL-PROTOCOL', 'R-READ-RESETS',
         'R-BST-AGREE', 'R-STORAGE-SEM'],
 'C20': [('R-NULL-HEAD', MOST_LINKED), 'R-DISTINCT-DEGREE', 'R-TOPK', 'R-LINK-PAIR', 'R-LINK-WALK', 'R-HEAD-REPOINT'] + WALK,
}

TEXTS = {'C01': {'claim': 'no stale write-back, no lost flag update, page/crawled marks monotone, pointers append-only, crawled only on request, reports '
                  'count only newly flagged pages, queries cannot add pages',
         'explanation': 'Typestate dataflow on per-function CFGs over the typed call graph: (R-FRESH) no trie-node copy is written back, or handed '
                        'to a callee that writes it, after a call that may rewrite trie blocks or a yield without an intervening refresh/read; '
                        '(R-DIRTY-WRITTEN) every mutated node reaches write() before rebind/reload/return; (R-MONOTONE) page and crawled marks are '
                        'never cleared and structural pointers are written only into empty slots by the allocation functions; (R-CRAWLED) a page is '
                        "marked crawled only under the request's crawled argument or as crawl-batch source; (R-PAGE-REPORT) decision tables of "
                        'add_page/__add_page: created-page reporting happens exactly on the path that flags a new page; (R-READONLY) only write '
                        'requests reach a store mutation.',
         'not_decided': 'that the enumerated page set equals the submitted set for every insertion order (value statement)'},
 'C02': {'claim': 'the three sibling searches and the insert side implement one strict order on full stems, bottom-up reconstruction follows the '
                  'pointers the insert wrote, the on-disk layout read is the layout written (payload 74 = 75p-1, tail flags, field positions), '
                  'multi-block reads are possible on every back-end, pointers are append-only',
         'explanation': 'Decision tables (abstract path execution) of the three sibling-search loops and of the insert attach code against the '
                        'strict stem order; parent/link pairing at the two allocation sites; constant folding of the struct formats and derived '
                        'constants; accessor/field tables computed from the node classes; writer/reader agreement of the tail protocol; call-shape '
                        'conformance of every storage call against every back-end that can be the receiver.',
         'not_decided': 'byte identity of reconstructed LRUs and the BST invariant on reachable files as value statements'},
 'C03': {'claim': 'each submitted pair is recorded once per direction on every path, lists never lose their older part, the two directions never '
                  'cross, a self-link is reported once as internal, no NULL head is dereferenced in page-level queries',
         'explanation': 'Path counting over the loops that record a link batch (each pair once outbound, once inbound on every path), guard-fact '
                        'obligations of LinkStore.add_links (prepend, repoint after write), forwarding of the direction switch at every call site, '
                        'field tables of the two link heads, decision table of the page-level link filter, freshness of the page block that carries '
                        'the heads.',
         'not_decided': 'equality of reported weights with submission counts'},
 'C04': {'claim': 'deepest webentity on the walk wins identically on the insert and the query walk, attaching an attached prefix is refused, '
                  'resolution fails with TraphException iff the walk saw no webentity, every edit is persisted',
         'explanation': 'Decision tables of the per-stem tracking code of add_lru and follow_lru (sibling agreement), origin/guard dataflow of every '
                        'set_webentity site, guard-fact tables of the resolution requests, mutate-then-write pairing of every prefix edit.',
         'not_decided': 'the net effect of an arbitrary edit history as seen by the walk (value statement over histories)'},
 'C05': {'claim': 'the bounded walk stops exactly at nodes owned by a webentity other than the start, continues through their siblings, and the DFS '
                  'and in-order variants agree; each visited block is re-read on pop',
         'explanation': 'Decision tables of the loop bodies of webentity_dfs_iter and of the recursive in-order traversal against the relevance '
                        'specification; structure of the traversal stacks.',
         'not_decided': 'the partition statement itself'},
 'C06': {'claim': 'get_potential_prefix mirrors __add_page; strict "longer than E"; default rule only when K empty and E absent; variations always '
                  'expanded; one id per creation; installing a rule flags, writes and re-inserts every page below the anchor',
         'explanation': 'Decision tables of the creation ladder in __add_page and get_potential_prefix (sibling agreement and specification), of the '
                        'candidate loop (strictly longer wins), of __create_webentity and of rule installation; tracking agreement; allocation '
                        'obligations.',
         'not_decided': 'what the regular expressions match'},
 'C07': {'claim': 'nearest webentity is propagated correctly, fast and slow variants drop/keep the same links, inbound is the same code with the '
                  'other head, page tallies only under is_page and a source webentity',
         'explanation': 'Decision table of dfs_with_webentity_iter (nearest webentity carried down), decision tables of the fast and slow network '
                        'filters against one specification, direction forwarding, NULL-head guards.',
         'not_decided': 'weight sums and transpose equality as values'},
 'C08': {'claim': 'no NULL head dereferenced (block 0 parses as a stub and fabricates a link), links kept iff (outbound and other webentity) or '
                  '(internal and same webentity), inbound iff source webentity differs, degrees count distinct pages',
         'explanation': 'NULL-head guards, decision tables of the per-webentity link filters, relevance tables of the bounded walk, de-duplicating '
                        'iterators in degree counters, direction forwarding.',
         'not_decided': 'exactness of the returned sets'},
 'C09': {'claim': 'the two halves of a token describe the same node, path digits and radices agree between writer and reader, ascending in-order '
                  'emission with strict resume, same page set as the unpaginated query, nodes never move so a path stays valid',
         'explanation': 'Pairing of the two token halves, writer/reader digit tables and radix constants of the path codec, emission order and '
                        'strict resume filter of the in-order walk, relevance tables, append-only pointers.',
         'not_decided': 'the k+1 look-ahead arithmetic and completeness at every cut'},
 'C10': {'claim': 'token halves advance together (also on link-less pages), same links as the unpaginated query for the same switches, no NULL head '
                  'dereferenced',
         'explanation': 'Pairing of the two token halves in the pagelink pagination loop, agreement of its link filter with the unpaginated query, '
                        'NULL-head guard, token codec.',
         'not_decided': 'counts per answer'},
 'C11': {'claim': 'reopen never truncates, create only when asked or when nothing exists, a single file or a partial block is refused, clear resets '
                  'and rebuilds both structures, files stay whole numbers of blocks, reopen re-reads the header, no state lives only in a node copy',
         'explanation': 'Decision table of Traph.__init__ (which files are opened how, when refused) and of Traph.clear; block geometry (every write '
                        'is one packed block); header reload obligations; mutate-then-write pairing.',
         'not_decided': 'equality of every observable answer before/after'},
 'C12': {'claim': 'single writer of the counter, write-through before the id is handed out, strictly increasing, one allocation per request shared '
                  'by all attached prefixes, header preserved on reopen and rebuilt on clear',
         'explanation': 'Who-may-call on the counter mutators, event-order dataflow in the allocator (increment, write-through, hand out), one '
                        'allocation per request outside loops, header ensure/read obligations on open, rebuild on clear.',
         'not_decided': '32-bit overflow of the counter'},
 'C13': {'claim': 'every path that can attach a prefix goes through add_lru(flag_can_have_child_webentities=True), which clears and persists the '
                  'mark on every proper ancestor, existing or new; the mark is never set again; the shortcut never prunes siblings',
         'explanation': 'Origin dataflow of every node that receives a webentity id; decision tables of both loops of add_lru (ancestor unmarking) '
                        'with a linear-integer domain for `i < l - 1`; decision table of dfs_iter (shortcut prunes children only); who-may-call on '
                        'the mark setters.',
         'not_decided': 'exactness of the parent query (value statement)'},
 'C14': {'claim': 'no path from any query entry point to a mutation of either store (complete for the statement modulo A1-A2)',
         'explanation': 'Typed call-graph reachability: from every read-only Traph entry point (names in the query families) no path of resolved '
                        'calls reaches a storage-class method that mutates the store bytes, a truncating open(), or a direct mutation of a storage '
                        'object; storage mutators are computed from the storage class bodies.',
         'not_decided': 'nothing beyond A1-A2'},
 'C15': {'claim': 'every call shape used by node/header/store code is accepted by every back-end that can be the receiver; read/write return '
                  'conventions and the read-cursor protocol agree; a memory index is set up like a freshly created file index',
         'explanation': 'Signature conformance of every storage call site against every back-end class the typed receiver can be (protocol sites), '
                        'back-end/guard correlation for facade sites, return conventions and cursor protocol of read(); decision table of the '
                        'constructor (the in-memory branch is a fresh index).',
         'not_decided': 'equality of answers for every history'},
 'C16': {'claim': 'every node cached across a yield point is refreshed before it is written; traversals keep block numbers and re-read',
         'explanation': 'R-FRESH with every yield as an invalidation point; traversal stacks hold block numbers and re-read on pop; generators never '
                        'write.',
         'not_decided': 'schedule independence of the final state and the qualified-throughout bounds on answers'},
 'C17': {'claim': 'expansion cannot raise, the scheme rewrite touches only the leading scheme stem, the given prefix is listed first, automatic '
                  'creation always expands and attaches the class under one id',
         'explanation': 'List-length-set abstract interpretation and None-ness guard facts of helpers.lru_variations / https_variation; anchoring of '
                        'the scheme test and rewrite; shape of the result list; both automatic creation sites expand; one id for all attachable '
                        'variations.',
         'not_decided': 'closure of the expansion (an algebraic law over byte strings)'},
 'C18': {'claim': 'a partial block or a single file is refused with the library error, a pointer is never on disk before its pointee, all writes are '
                  'whole blocks, a block a cut may have removed is never unpacked unchecked',
         'explanation': 'Decision table of the constructor (refusals), persisted-before-pointed typestate of every pointer store, block geometry, '
                        'guard facts on every storage.read result.',
         'not_decided': 'the behaviour at every cut of every history (crash points are not a syntactic object)'},
 'C19': {'claim': 'no block after the terminal chunk, allocation only on missing stems, re-adding takes the no-write path, one stub per link end',
         'explanation': 'Reachability after the terminal chunk yield; who-may-allocate and decision tables of the insert path (found stems allocate '
                        'and write nothing); block geometry; one stub per batch element.',
         'not_decided': 'the closed-form block count'},
 'C20': {'claim': 'a page without inbound list contributes 0 and not the header block parsed as one stub; indegree counts distinct sources; the heap '
                  'is keyed by indegree, trimmed only above k and drained in non-increasing order; the depth limit prunes children only',
         'explanation': 'NULL-head guard and de-duplicating iterator of the indegree counter; heap key/trim/drain obligations; depth atom of the '
                        'bounded walk.',
         'not_decided': 'top-k optimality and order as values'}}

RULE_DOC = {}


def _dedupe(rules):
    out, seen = [], set()
    for r in rules:
        k = r if isinstance(r, str) else (r[0], tuple(r[1]))
        if k not in seen:
            seen.add(k)
            out.append(r)
    return out


for _pid, _rules in RULESETS.items():
    _t = TEXTS[_pid]
    prop(_pid, _dedupe(_rules), _t['explanation'], _t['claim'], _t['not_decided'])
