"""property -> rules mapping and the texts that go to MANIFEST / evidence.

A rule entry is either a rule name or (rule name, [function patterns]) restricting the rule's obligations and findings
to constructs inside matching functions (fnmatch on the qualified function name); '!pat' excludes.
"""
import fnmatch

ASSUMPTIONS = [
    'A1 the program is what ast shows: no dynamic dispatch, patching or inheritance between package classes '
    '(checked on every run by R-STATIC-SHAPE; a breach is ANALYSIS-ERROR)',
    'A2 externals behave as documented: file.write/seek/read, bytearray slicing, struct, mmap',
    'A3 two node variables obtained for different LRUs denote different blocks (no alias analysis)',
    'A4 in-place rewrites of one block are atomic; no exception between a mutator and its write()',
    'only structural clauses (necessary conditions) are decided, not the value-level statement of the property',
]

PROPS = {}


def prop(pid, rules, explanation, claim, not_decided, technique=None):
    rr = [('R-STATIC-SHAPE', None)]
    for r in rules:
        rr.append((r, None) if isinstance(r, str) else (r[0], list(r[1])))
    PROPS[pid] = {'rules': rr, 'explanation': explanation, 'claim': claim, 'not_decided': not_decided}
    if technique:
        PROPS[pid]['technique'] = technique


def in_scope(scope, func, path=''):
    """scope entries: fnmatch patterns on the qualified function name, 'file:<path>' entries on the file, '!pat' excludes"""
    if scope is None:
        return True
    pos = [p for p in scope if not p.startswith('!')]
    neg = [p[1:] for p in scope if p.startswith('!')]
    if any(fnmatch.fnmatchcase(func, p) for p in neg):
        return False
    if not pos:
        return True
    for p in pos:
        if p.startswith('file:'):
            if path == p[5:]:
                return True
        elif fnmatch.fnmatchcase(func, p):
            return True
    return False


def _anchor_files():
    import json
    import os
    out = {}
    fn = os.path.join(os.path.dirname(os.path.dirname(os.path.abspath(__file__))), 'properties.jsonl')
    for line in open(fn):
        line = line.strip()
        if line:
            d = json.loads(line)
            out[d['id']] = ['file:' + f for f in d.get('anchors', {}).get('files', [])]
    return out


ANCHOR_FILES = _anchor_files()


def generic(pid, *names):
    """generic flow rules, restricted to the files the property is anchored in (properties.jsonl: anchors.files)"""
    return [(n, ANCHOR_FILES[pid]) for n in names]


NETWORK = ['Traph.get_webentities_*']
WE_LINKS = ['Traph.get_webentity_pagelinks_iter', 'Traph.get_webentity_outlinks_iter', 'Traph.get_webentity_inlinks_iter']
PAGELINK_PAGING = ['Traph.paginate_webentity_pagelinks']
MOST_LINKED = ['Traph.get_webentity_most_linked_pages_iter']
PAGE_LINKS = ['!' + p for p in NETWORK + WE_LINKS + PAGELINK_PAGING + MOST_LINKED]

MONO = ['R-MONOTONE-CALLERS', 'R-MONOTONE-POINTERS']
WE_FILTERS = ['Traph.get_webentity_pagelinks_iter', 'Traph.paginate_webentity_pagelinks']
# rule groups: necessary conditions shared by several properties
TRIE = ['R-FRESH', 'R-DIRTY-WRITTEN', 'R-BST-AGREE', 'R-PARENT-PAIR', 'R-TAIL-PROTOCOL', 'R-READ-RESETS', 'R-CHUNK-LAST', 'R-LRU-ASSEMBLY', 'R-OPEN-TABLE', 'R-NO-STALE-CACHE', 'R-POINTEE-FIRST', 'R-CLEAR-AGREE', 'R-SKIP-CHILDLESS', 'R-ACCESSOR-TABLE'] + MONO
LINKS = ['R-LINK-PAIR', 'R-HEAD-REPOINT', 'R-LINK-WALK', 'R-DIRECTION', 'R-NO-EARLY-EXIT']
RESOLVE = ['R-TRACK-AGREE', 'R-OWN-ERROR', 'R-NO-STALE-CACHE', 'R-LRU-ASSEMBLY', 'R-NEAREST-WE']
WALK = ['R-RELEVANCE', 'R-STACK-BLOCKS', 'R-EVERY-PREFIX', 'R-NO-EARLY-EXIT', 'R-NODE-ALIAS', 'R-LRU-ASSEMBLY']

READ_BASICS = ['R-TAIL-PROTOCOL', 'R-READ-RESETS', 'R-BST-AGREE', 'R-PRIMITIVES', 'R-STORAGE-IFACE', 'R-STORAGE-SEM', 'R-FRESH', 'R-DIRTY-WRITTEN', 'R-OPEN-TABLE',
               'R-CHUNK-LAST', 'R-NO-STALE-CACHE', 'R-ACCESSOR-TABLE']


def G(pid):
    return generic(pid, 'R-LOOP-CARRIED', 'R-ENCODED', 'R-NULL-THRESHOLD', 'R-NO-SWALLOW', 'R-RETURN-SHAPE', 'R-GEN-DRAINED', 'R-YIELD-NEUTRAL', 'R-SINGLE-PASS', 'R-FORMAT-ARITY')


RULESETS = {
 'C01': TRIE + ['R-CRAWLED', 'R-PAGE-REPORT', 'R-READONLY', 'R-ARGS-HONOURED', 'R-ENUM-FILTERS', 'R-ALLOC', 'R-GEOMETRY', 'R-LINK-PAIR', 'R-PRIMITIVES'] + [('R-WRAPPERS', ['Traph.index_batch_crawl'])] + ['R-NODE-ALIAS'] + ['R-EVERY-ITEM', 'R-STORAGE-IFACE', 'R-STORAGE-SEM'] + G('C01'),
 'C02': TRIE + ['R-GEOMETRY', 'R-ACCESSOR-TABLE', 'R-STORAGE-IFACE', 'R-STORAGE-SEM', 'R-STORAGE-STATELESS', 'R-PRIMITIVES', 'R-GEN-DRAINED', 'R-EVERY-ITEM'] + G('C02'),
 'C03': LINKS + ['R-ACCESSOR-TABLE', ('R-FILTER-AGREE', ['Traph.get_page_links']), 'R-FRESH', 'R-DIRTY-WRITTEN', ('R-NULL-HEAD', PAGE_LINKS), 'R-ARGS-HONOURED', 'R-DEGREE-FLAGS',
         'R-PRIMITIVES'] + [('R-WRAPPERS', ['Traph.index_batch_crawl'])] + ['R-EVERY-ITEM', 'R-CLEAR-AGREE'] + READ_BASICS + G('C03'),
 'C04': RESOLVE + ['R-BST-AGREE', 'R-TAIL-PROTOCOL', 'R-READ-RESETS', 'R-WE-ATTACH', 'R-FRESH', 'R-DIRTY-WRITTEN', 'R-ARGS-HONOURED', 'R-PREFIX-EDIT', 'R-REFUSE-CLEAN',
                   'R-LADDER-AGREE', 'R-PRIMITIVES', 'R-VARIATIONS'] + READ_BASICS + G('C04'),
 'C05': WALK + RESOLVE + ['R-READ-RESETS', 'R-TAIL-PROTOCOL', 'R-ENUM-FILTERS', 'R-BST-AGREE', 'R-ACCUMULATE', 'R-PRIMITIVES'] + [('R-WRAPPERS', ['Traph.get_webentity_pages', 'Traph.get_webentity_crawled_pages'])] + READ_BASICS + ['R-REFUSE-CLEAN', 'R-PREFIX-EDIT', 'R-WE-ATTACH', 'R-EVERY-ITEM', 'R-ID', 'R-CRAWLED'] + G('C05'),
 'C06': ['R-LADDER-AGREE', 'R-TRACK-AGREE', 'R-RULES-TO-APPLY', 'R-ID', 'R-RULE-INSTALL', 'R-WE-ATTACH', 'R-VARIATIONS', 'R-BST-AGREE', 'R-SKIP-CHILDLESS', 'R-PREFIX-EDIT',
         'R-FRESH', 'R-DIRTY-WRITTEN', 'R-PRIMITIVES'] + [('R-WRAPPERS', ['Traph.add_webentity_creation_rule'])] + ['R-OPEN-TABLE', ('R-READONLY', ['Traph.get_potential_prefix'])] + ['R-CLEAR-AGREE', 'R-LRU-ASSEMBLY', 'R-GEN-DRAINED'] + READ_BASICS + G('C06'),
 'C07': ['R-PROPAGATE', ('R-FILTER-AGREE', NETWORK), ('R-MEMO-KEY', NETWORK), ('R-NULL-HEAD', NETWORK), 'R-NO-STALE-CACHE', 'R-LRU-ASSEMBLY', 'R-ARGS-HONOURED', 'R-NEAREST-WE',
         ('R-ACCUMULATE', NETWORK + ['Traph.index_batch_crawl_iter']), 'R-NULL-THRESHOLD'] + LINKS + READ_BASICS + [('R-WRAPPERS', NETWORK)] + ['R-NODE-ALIAS'] + ['R-EVERY-ITEM'] + G('C07'),
 'C08': [('R-NULL-HEAD', WE_LINKS), ('R-FILTER-AGREE', WE_FILTERS + WE_LINKS), ('R-MEMO-KEY', ['!Traph.get_webentities_*']), 'R-NO-STALE-CACHE', 'R-DISTINCT-DEGREE',
         'R-LRU-ASSEMBLY', 'R-ARGS-HONOURED', 'R-FRESH', 'R-DIRTY-WRITTEN', 'R-NEAREST-WE', ('R-ACCUMULATE', ['Traph.get_webentity_*'])] + WALK + LINKS + READ_BASICS + [('R-WRAPPERS', ['Traph.get_webentity_*'])] + G('C08'),
 'C09': [('R-TOKEN-PAIR', ['Traph.paginate_webentity_pages']), 'R-TOKEN-CODEC', 'R-ORDER', ('R-PAGINATE', ['Traph.paginate_webentity_pages'])] + WALK + MONO + READ_BASICS + G('C09'),
 'C10': [('R-TOKEN-PAIR', PAGELINK_PAGING), ('R-FILTER-AGREE', WE_FILTERS), ('R-MEMO-KEY', WE_FILTERS), ('R-NULL-HEAD', PAGELINK_PAGING), 'R-TOKEN-CODEC', 'R-ORDER',
         ('R-PAGINATE', PAGELINK_PAGING), 'R-RELEVANCE', 'R-EVERY-PREFIX', 'R-NO-EARLY-EXIT', 'R-LINK-WALK', 'R-NEAREST-WE', ('R-ACCUMULATE', WE_FILTERS)] + READ_BASICS + ['R-NODE-ALIAS'] + ['R-NO-STALE-CACHE', 'R-LRU-ASSEMBLY'] + G('C10'),
 'C11': ['R-OPEN-TABLE', 'R-CLEAR-AGREE', 'R-GEOMETRY', 'R-ID', 'R-DIRTY-WRITTEN', 'R-STORAGE-SEM', 'R-STORAGE-IFACE', 'R-RULE-INSTALL', 'R-CLOSE', 'R-STORAGE-STATELESS',
         'R-PRIMITIVES', 'R-GEN-DRAINED', 'R-LINK-WALK'] + G('C11'),
 'C12': ['R-ID', 'R-DIRTY-WRITTEN', 'R-STORAGE-IFACE', 'R-STORAGE-SEM', 'R-REFUSE-CLEAN', 'R-PRIMITIVES', 'R-PREFIX-EDIT', 'R-STORAGE-STATELESS'] + ['R-OPEN-TABLE', 'R-CLEAR-AGREE'] + READ_BASICS + G('C12'),
 'C13': ['R-WE-ATTACH', 'R-ANCESTOR-FLAG', 'R-SKIP-CHILDLESS', 'R-HIERARCHY', 'R-FRESH', 'R-DIRTY-WRITTEN', 'R-EVERY-PREFIX', 'R-ARGS-HONOURED', 'R-NO-EARLY-EXIT',
         'R-PRIMITIVES', 'R-NEAREST-WE', ('R-ACCUMULATE', ['Traph.get_webentity_child_webentities_iter', 'Traph.get_webentity_parent_webentities']), 'R-LRU-ASSEMBLY'] + MONO + [('R-WRAPPERS', ['Traph.get_webentity_child_webentities'])] + ['R-NODE-ALIAS'] + READ_BASICS + G('C13'),
 'C14': ['R-READONLY', 'R-WRITE-API'],
 'C15': ['R-STORAGE-IFACE', 'R-STORAGE-SEM', 'R-OPEN-TABLE', 'R-CLEAR-AGREE', 'R-READ-RESETS', 'R-STORAGE-STATELESS', 'R-CLOSE', 'R-DIRTY-WRITTEN', 'R-GEOMETRY', 'R-PRIMITIVES'] + G('C15'),
 'C16': ['R-FRESH', 'R-DIRTY-WRITTEN', 'R-STACK-BLOCKS', 'R-NO-STALE-CACHE', ('R-FILTER-AGREE', NETWORK + WE_FILTERS), 'R-HEAD-REPOINT', ('R-MEMO-KEY', NETWORK), 'R-DIRECTION', 'R-LINK-PAIR',
         'R-PRIMITIVES', 'R-READ-RESETS', 'R-ACCUMULATE', 'R-LAZY-REQUEST', 'R-STORAGE-IFACE', 'R-STORAGE-SEM', 'R-DISTINCT-DEGREE', ('R-MEMO-KEY', ['Traph.get_webentity_*'])] + ['R-WRAPPERS'] + ['R-NODE-ALIAS'] + ['R-EVERY-ITEM'] + G('C16'),
 'C17': ['R-VARIATIONS', 'R-LADDER-AGREE', 'R-ID', 'R-NO-STALE-CACHE', 'R-FRESH', 'R-DIRTY-WRITTEN'] + G('C17'),
 'C18': ['R-OPEN-TABLE', 'R-POINTEE-FIRST', 'R-GEOMETRY', 'R-NONE-CHECK', 'R-STORAGE-IFACE', 'R-HEAD-REPOINT', 'R-FRESH', 'R-DIRTY-WRITTEN', 'R-TAIL-PROTOCOL',
         'R-STORAGE-STATELESS', 'R-PRIMITIVES', 'R-CLOSE', 'R-TRUNC-ORDER', ('R-FILTER-AGREE', NETWORK), 'R-ACCESSOR-TABLE', 'R-BST-AGREE'] + ['R-CHUNK-LAST', 'R-READ-RESETS', 'R-NULL-THRESHOLD'] + [g for g in G('C18') if g[0] != 'R-NULL-THRESHOLD'],
 'C19': ['R-CHUNK-LAST', 'R-ALLOC', 'R-GEOMETRY', 'R-METRICS', 'R-HEAD-REPOINT', 'R-LINK-PAIR', 'R-LINK-WALK', 'R-FRESH', 'R-DIRTY-WRITTEN', 'R-TAIL-PROTOCOL', 'R-READ-RESETS',
         'R-BST-AGREE', 'R-STORAGE-SEM', 'R-STORAGE-STATELESS', 'R-PRIMITIVES'] + ['R-CLEAR-AGREE', 'R-EVERY-ITEM', 'R-OPEN-TABLE', 'R-NULL-THRESHOLD', 'R-CLOSE', 'R-ACCESSOR-TABLE'] + ['R-STORAGE-IFACE'] + [g for g in G('C19') if g[0] != 'R-NULL-THRESHOLD'],
 'C20': [('R-NULL-HEAD', MOST_LINKED), 'R-DISTINCT-DEGREE', 'R-TOPK', 'R-LINK-PAIR', 'R-LINK-WALK', 'R-HEAD-REPOINT', ('R-ACCUMULATE', MOST_LINKED)] + WALK + READ_BASICS + [('R-WRAPPERS', ['Traph.get_webentity_most_linked_pages'])] + [('R-FILTER-AGREE', MOST_LINKED)] + G('C20'),
}

TEXTS = {'C01': {'claim': 'no stale write-back, no lost flag update, page/crawled marks monotone, structural pointers append-only and pointee-first paired, one strict '
                  'stem order in every search, node reuse resets every field, multi-block stems written and read with the same flags, crawled only on request, '
                  'reports count only newly flagged pages, enumerations and counters select by the mark they report, re-adding allocates and writes nothing, '
                  'queries cannot add pages, every request argument is honoured',
         'explanation': 'Typestate dataflows on per-function CFGs over the typed call graph (no stale write-back after a trie-growing call or a yield; every '
                        'mutated node reaches write(), also through callees that must write it), decision tables of the three sibling searches, the insert '
                        'attach code, add_page and __add_page (abstract path execution), must-assign analysis of node reloads, tail/chunk protocol, '
                        'who-may-call and append-only pointer rules, guard facts for the crawled mark, enumeration/count filter tables, call-graph '
                        'reachability for queries.',
         'not_decided': 'that the enumerated page set equals the submitted set for every insertion order (value statement)'},
 'C02': {'claim': 'the three sibling searches and the insert side implement one strict order on full stems, bottom-up reconstruction follows the pointers the '
                  'insert wrote and prepends stems in order, the on-disk layout read is the layout written (payload 74 = 75p-1, tail flags, field positions), '
                  'a head with HAS_TAIL always gets its tail read, multi-block reads work on every back-end, pointers are append-only',
         'explanation': 'Decision tables of the three sibling-search loops and of the insert attach code against the strict stem order; parent/link pairing at '
                        'the two allocation sites; constant folding of the struct formats and derived constants (27 relations); accessor/field/flag tables '
                        'computed from the node classes; writer/reader agreement of the tail protocol including chunk count and is-last flag; must-assign '
                        'analysis of node reloads; LRU assembly order top-down and bottom-up; call-shape, return-convention, cursor and block-semantics '
                        'conformance of both writable back-ends.',
         'not_decided': 'byte identity of reconstructed LRUs and the BST invariant on reachable files as value statements'},
 'C03': {'claim': 'each submitted pair is recorded once per direction on every path, lists never lose their older part, walks visit every stub, the two '
                  'directions never cross, a self-link is reported once as internal, no NULL head is dereferenced in page-level queries, count_links = stubs / '
                  '2',
         'explanation': 'Path counting over the loops that record a link batch (each pair once outbound, once inbound on every path; mirrored keys), '
                        'guard-fact obligations of LinkStore.add_links (prepend, chain, repoint after write), walk tables of the three link iterators (head '
                        'once, every previous stub once, no early exit, totals only after the walk), count formulas, forwarding of the direction switch at '
                        'every call site, field tables of the two link heads, decision table of the page-level link filter, freshness of the page block that '
                        'carries the heads.',
         'not_decided': 'equality of reported weights with submission counts'},
 'C04': {'claim': 'deepest webentity on the walk wins identically on the insert and the query walk, a diverging lookup stops as not-found, attaching an '
                  'attached prefix and detaching with a wrong owner are refused with TraphException before anything is changed, resolution fails iff the walk '
                  'saw no webentity, every edit is persisted, no query answers from a memo a writer does not invalidate',
         'explanation': 'Decision tables of the per-stem tracking code of add_lru and follow_lru (sibling agreement), of the sibling searches, of windup '
                        'resolution and of the prefix-edit requests; origin/guard dataflow of every set_webentity site; guard-fact tables of the resolution '
                        'requests; CFG reachability of refusals after mutations; mutate-then-write pairing; cache discipline on the index objects.',
         'not_decided': 'the net effect of an arbitrary edit history as seen by the walk (value statement over histories)'},
 'C05': {'claim': 'the bounded walk stops exactly at nodes owned by a webentity other than the start, continues through their siblings, the DFS and in-order '
                  'variants agree, every given prefix is walked, each visited block is re-read on pop into a traversal-local node, page listings carry the '
                  "node's own crawled mark",
         'explanation': 'Decision tables of the loop bodies of webentity_dfs_iter and of the recursive in-order traversal against the relevance specification; '
                        'structure of the traversal stacks and nodes; every-prefix-walked and no-early-exit rules; enumeration filter tables; resolution rules '
                        'shared with C04.',
         'not_decided': 'the partition statement itself'},
 'C06': {'claim': 'get_potential_prefix mirrors __add_page; strict "longer than E"; default rule only when K empty and E absent; every anchor on the walk is '
                  'proposed deepest first; variations always expanded; one id per creation; installing a rule registers it in RAM, flags and writes the anchor '
                  'and re-inserts every page below it',
         'explanation': 'Decision tables of the creation ladder in __add_page and get_potential_prefix (sibling agreement and specification), of the candidate '
                        'loop (strictly longer wins), of rules_to_apply, of __create_webentity and of rule installation; tracking agreement; id allocation '
                        'obligations; variation rules.',
         'not_decided': 'what the regular expressions match'},
 'C07': {'claim': 'nearest webentity is propagated correctly, fast and slow variants drop/keep the same links, a target without webentity is skipped (never a '
                  'KeyError, never a cached negative taken for a hit), inbound is the same code with the other head, page tallies only under is_page and a '
                  'source webentity, both directions of every link are recorded',
         'explanation': 'Decision table of dfs_with_webentity_iter (nearest webentity carried down), decision tables of the fast and slow network filters '
                        'against one specification, memo-key and tolerant-lookup rules, direction forwarding, NULL-head guards, link recording and walking '
                        'rules.',
         'not_decided': 'weight sums and transpose equality as values'},
 'C08': {'claim': 'no NULL head dereferenced (block 0 parses as a stub and fabricates a link), links kept iff (outbound and other webentity) or (internal and '
                  'same webentity), inbound iff source webentity differs, the other end is resolved by the upward walk starting at the node itself, memos '
                  'keyed by the resolved node, degrees count distinct pages, every prefix walked',
         'explanation': 'NULL-head guards, decision tables of the per-webentity link filters (both copies), independence of the outbound and inbound blocks, '
                        'memo-key rules, relevance tables of the bounded walk, de-duplicating iterators in degree counters, direction forwarding, link walk '
                        'tables.',
         'not_decided': 'exactness of the returned sets'},
 'C09': {'claim': 'the two halves of a token describe the same node, path digits, radices, separator and index encoding agree between writer and reader, '
                  'ascending in-order emission with strict resume, the overflow page is neither returned nor recorded nor counted, the resume path applies to '
                  'the first prefix only, nodes never move so a path stays valid',
         'explanation': 'Pairing of the two token halves, writer/reader digit tables, radix constants and text format of the token codec, emission order and '
                        'strict byte-wise resume filter of the in-order walk, pagination bookkeeping tables, relevance tables, append-only pointers.',
         'not_decided': 'the k+1 look-ahead arithmetic and completeness at every cut'},
 'C10': {'claim': 'token halves advance together (also on link-less pages), same links as the unpaginated query for the same switches, the overflow source '
                  'page is not recorded, prefixes walked from the token index with the resume path reset after the first, no NULL head dereferenced',
         'explanation': 'Pairing of the two token halves in the pagelink pagination loop, agreement of its link filter with the unpaginated query, pagination '
                        'bookkeeping table, NULL-head guard, token codec, resume filter.',
         'not_decided': 'counts per answer'},
 'C11': {'claim': 'reopen never truncates, create only when asked or when nothing exists, a single file or a partial block is refused, clear resets and '
                  'rebuilds both structures and honours empty rule arguments, files stay whole numbers of blocks, reopen re-reads the header, rules are '
                  'registered in RAM on every open',
         'explanation': 'Decision table of Traph.__init__ (which files are opened how, when refused) and of Traph.clear on both back-ends; block geometry '
                        '(every write is one packed block); block semantics of both writable back-ends; header reload obligations; rule registration on open.',
         'not_decided': 'equality of every observable answer before/after'},
 'C12': {'claim': 'single writer of the counter, strictly increasing, write-through before the id is handed out, one allocation per request shared by all '
                  'attached prefixes, header preserved on reopen (written at block 0, not appended) and rebuilt on clear',
         'explanation': 'Who-may-call on the counter mutators, event-order dataflow in the allocator (increment, write-through, hand out), one allocation per '
                        'request outside loops, header ensure/read obligations on open, rebuild on clear, block-0 addressing of both back-ends.',
         'not_decided': '32-bit overflow of the counter'},
 'C13': {'claim': 'every path that can attach a prefix goes through add_lru(flag_can_have_child_webentities=True), which clears and persists the mark on every '
                  'proper ancestor, existing or new; the mark is never set again; the shortcut never prunes siblings; hierarchy queries collect every other '
                  'webentity on the walk of every prefix',
         'explanation': 'Origin dataflow of every node that receives a webentity id; decision tables of both loops of add_lru (ancestor unmarking) with a '
                        'linear-integer domain for `i < l - 1`; decision table of dfs_iter (shortcut prunes children only); tables of the parent and child '
                        'queries; freshness (a stale write-back would set the mark again); who-may-call on the mark setters.',
         'not_decided': 'exactness of the parent query (value statement)'},
 'C14': {'claim': 'no path from any query entry point to a mutation of either store (complete for the statement modulo A1-A2)',
         'explanation': 'Typed call-graph reachability: from every read-only Traph entry point (names in the query families) no path of resolved calls reaches '
                        'a storage-class method that mutates the store bytes, a truncating open(), or a direct mutation of a storage object; storage mutators '
                        'are computed from the storage class bodies.',
         'not_decided': 'nothing beyond A1-A2'},
 'C15': {'claim': 'every call shape used by node/header/store code is accepted by every back-end that can be the receiver; read/write conventions, the read '
                  'cursor and block addressing agree; a memory index is set up like a freshly created file index and cleared like a truncated one; the mapped '
                  'reader returns the current file',
         'explanation': 'Signature conformance of every storage call site against every back-end class the typed receiver can be, back-end/guard correlation '
                        'for facade sites, return conventions, cursor protocol and cursor continuity of read(), block-semantics tables of both writable '
                        'back-ends, decision table of the constructor and of clear on both back-ends.',
         'not_decided': 'equality of answers for every history'},
 'C16': {'claim': 'every node cached across a yield point is refreshed before it is written; traversals keep block numbers and their own node; no '
                  'request-spanning scratch state; a link target unknown to a suspended query is skipped; a resumable request does nothing at creation time and its '
                  'yield points only yield',
         'explanation': 'R-FRESH with every yield as an invalidation point; traversal stacks hold block numbers, re-read on pop into a per-traversal node; no '
                        'scratch state shared through the index objects; network lookups tolerate pages indexed meanwhile.',
         'not_decided': 'schedule independence of the final state and the qualified-throughout bounds on answers'},
 'C17': {'claim': 'expansion cannot raise, the scheme rewrite touches only the leading scheme stem, www is added/removed only as the last of at least two '
                  'hosts, the host section is substituted in place, the given prefix is listed first, automatic creation always expands and attaches the class '
                  'under one id',
         'explanation': 'List-length-set abstract interpretation and None-ness guard facts of helpers.lru_variations / https_variation; anchoring of the '
                        'scheme and www tests; in-place substitution of the host section; shape of the result list; both automatic creation sites expand; one '
                        'id for all attachable variations; no memo of expansions.',
         'not_decided': 'closure of the expansion (an algebraic law over byte strings)'},
 'C18': {'claim': 'a partial block or a single file is refused with the library error, a pointer is never on disk before its pointee (trie and link store), '
                  'all writes are whole blocks, a block a cut may have removed is never unpacked unchecked, the trie file is truncated before the link store file',
         'explanation': 'Decision table of the constructor (refusals) and of the corruption check, persisted-before-pointed typestate of every pointer store '
                        'in both stores, block geometry, guard facts on every storage.read result, freshness and dirty-written dataflows.',
         'not_decided': 'the behaviour at every cut of every history (crash points are not a syntactic object)'},
 'C19': {'claim': 'no block after the terminal chunk and no surplus chunk, allocation only on missing stems, re-adding takes the no-write path, one stub per '
                  'link end, no blocks orphaned by stale write-backs, metrics count each kind of block by its own mark',
         'explanation': 'Reachability after the terminal chunk yield, chunk count and is-last expressions; who-may-allocate and decision tables of the insert '
                        'path; block geometry; one stub per batch element per direction; metrics table; freshness (a stale write-back orphans blocks).',
         'not_decided': 'the closed-form block count'},
 'C20': {'claim': 'a page without inbound list contributes 0 and not the header block parsed as one stub (known finding D5); indegree counts distinct sources; '
                  'the heap is keyed by indegree, trimmed only above k (never heapreplace) and drained in non-increasing order; the depth limit prunes '
                  'children only; every inbound link is recorded and walked',
         'explanation': 'NULL-head guard and de-duplicating iterator of the indegree counter; heap key/trim/drain obligations; depth atom of the bounded walk; '
                        'link recording and walking rules.',
         'not_decided': 'top-k optimality and order as values'}}

RULE_DOC = {}


def _dedupe(rules):
    out, seen = [], set()
    for r in rules:
        k = r if isinstance(r, str) else (r[0], tuple(r[1]))
        if k not in seen:
            seen.add(k)
            out.append(r)
    return out


GENERIC_TEXT = (' Generic flow rules restricted to the files the property is anchored in: no generator call is dropped unconsumed, cooperative yield points only yield, '
                'a local bound only inside a loop is bound in the '
                'current iteration before use (must-assign dataflow), request LRUs reach the trie only through __encode (taint dataflow), pointer '
                'accessors treat as NULL only blocks below the first data block of the pointed store; where listed, the persistence primitives '
                '(refresh/read/write) reach their storage call on every path (must-pass-through).')

for _pid, _rules in RULESETS.items():
    _t = TEXTS[_pid]
    _has_generic = any(not isinstance(r, str) and r[0] == 'R-LOOP-CARRIED' for r in _rules)
    prop(_pid, _dedupe(_rules), _t['explanation'] + (GENERIC_TEXT if _has_generic else ''), _t['claim'], _t['not_decided'])
