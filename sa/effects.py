"""E3: effect summaries over the typed call graph.

writes(unit)        subset of {trie.node, trie.header, links.node, links.header, raw:<where>}
writes_param(unit)  parameters whose trie node is written back by the unit
foreign(unit)       unit may write trie *node* blocks other than a node handed to it / its own `self`
mutators            node/header methods that change self.data (computed from bodies, not matched by name)
storage_mutators    storage-class methods that change the store's bytes (computed from bodies)
"""
import ast
import collections

from .program import AnalysisError

STORAGES = ('FileStorage', 'MemoryStorage', 'MemMapStorage')
TRIE_NODE = 'LRUTrieNode'
LINK_NODE = 'LinkStoreNode'
TRIE_HEADER = 'LRUTrieHeader'
LINK_HEADER = 'LinkStoreHeader'
NODEC = (TRIE_NODE, LINK_NODE)
HDRC = (TRIE_HEADER, LINK_HEADER)
OWNER = {TRIE_NODE: 'trie.node', TRIE_HEADER: 'trie.header', LINK_NODE: 'links.node', LINK_HEADER: 'links.header'}

EXT_MUT_METHODS = {'write', 'writelines', 'truncate', 'extend', 'append', 'clear', 'pop', 'insert', 'remove',
                   'resize', 'move', 'write_byte', '__setitem__', '__delitem__'}
OS_MUTATORS = {'os.remove', 'os.unlink', 'os.rename', 'os.replace', 'os.truncate', 'os.ftruncate', 'os.rmdir',
               'os.removedirs', 'os.write', 'shutil.rmtree', 'shutil.copy', 'shutil.copyfile', 'shutil.move'}
RELOADS = {'read', 'refresh', 'read_left', 'read_right', 'read_child', 'read_parent'}


def recv_name(call):
    f = call.func
    if isinstance(f, ast.Attribute) and isinstance(f.value, ast.Name):
        return f.value.id
    return None


def self_attr(e):
    """'x' for the expression `self.x`"""
    if isinstance(e, ast.Attribute) and isinstance(e.value, ast.Name) and e.value.id == 'self':
        return e.attr
    return None


class Effects:
    def __init__(self, P):
        self.P = P
        for c in STORAGES + NODEC + HDRC + ('Traph', 'LRUTrie', 'LinkStore'):
            P.require_class(c)
        self.storage_data_attrs = self._storage_data_attrs()
        self.storage_mutators = self._storage_mutators()
        self.mutators = self._node_mutators()
        self.prim = collections.defaultdict(list)      # unit -> [(effect, ast node, description)]
        self._primitive_sites()
        self.writes = collections.defaultdict(set)
        self._propagate()
        self.writes_param = collections.defaultdict(set)
        self.foreign = set()
        self._foreign()

    # ---------------------------------------------------------------- storage classes
    def _storage_data_attrs(self):
        P = self.P
        out = {}
        for cls in STORAGES:
            attrs = set()
            init = P.classes[cls].get('__init__')
            if init is None:
                raise AnalysisError('anchor vanished: %s.__init__' % cls)
            for n in P.own(init, ast.Assign):
                for t in n.targets:
                    a = self_attr(t)
                    if a and any(x[0] == 'ext' for x in P.fields[(cls, a)]):
                        attrs.add(a)
            out[cls] = attrs
        return out

    def _mutates_data(self, u, cls):
        """does the body of storage method u mutate one of the data attributes?"""
        P = self.P
        attrs = self.storage_data_attrs[cls]
        for n in P.own(u, (ast.Call, ast.Assign, ast.AugAssign, ast.Delete)):
            if isinstance(n, ast.Call):
                f = n.func
                if isinstance(f, ast.Attribute) and f.attr in EXT_MUT_METHODS and self_attr(f.value) in attrs:
                    return n
            else:
                tgs = n.targets if isinstance(n, (ast.Assign, ast.Delete)) else [n.target]
                for t in tgs:
                    if isinstance(t, ast.Subscript) and self_attr(t.value) in attrs:
                        return n
                    if self_attr(t) in attrs and u.name != '__init__':
                        return n
        return None

    def _storage_mutators(self):
        P = self.P
        out = {}
        for cls in STORAGES:
            for name, u in P.classes[cls].items():
                site = self._mutates_data(u, cls)
                if site is not None:
                    out[(cls, name)] = site
        ch = True
        while ch:
            ch = False
            for cls in STORAGES:
                for name, u in P.classes[cls].items():
                    if (cls, name) in out or name == '__init__':
                        continue
                    for c in P.own(u, ast.Call):
                        if recv_name(c) == 'self' and (cls, c.func.attr) in out:
                            out[(cls, name)] = c
                            ch = True
        return out

    # ---------------------------------------------------------------- node mutators
    def _node_mutators(self):
        P = self.P
        MUT = {}
        skip = lambda name: name in ('__init__', 'read', 'refresh', 'unpack') or 'set_default_data' in name
        for cls in NODEC + HDRC:
            for name, u in P.classes[cls].items():
                if skip(name):
                    continue
                for n in P.own(u, (ast.Assign, ast.AugAssign, ast.Call, ast.Delete)):
                    if isinstance(n, ast.Call):
                        if isinstance(n.func, ast.Name) and n.args and ast.unparse(n.args[0]) == 'self.data':
                            # helper that mutates its first argument in place?
                            for t in P.targets(n):
                                if self._mutates_first_param(t):
                                    MUT[(cls, name)] = n
                        if isinstance(n.func, ast.Attribute) and self_attr(n.func.value) == 'data' \
                                and n.func.attr in EXT_MUT_METHODS:
                            MUT[(cls, name)] = n
                    else:
                        tgs = n.targets if isinstance(n, (ast.Assign, ast.Delete)) else [n.target]
                        for t in tgs:
                            if isinstance(t, ast.Subscript) and ast.unparse(t.value) == 'self.data':
                                MUT[(cls, name)] = n
                            if self_attr(t) == 'data':
                                MUT[(cls, name)] = n
        ch = True
        while ch:
            ch = False
            for cls in NODEC + HDRC:
                for name, u in P.classes[cls].items():
                    if (cls, name) in MUT or skip(name) or name in ('write', 'pack', '__repr__'):
                        continue
                    for c in P.own(u, ast.Call):
                        if recv_name(c) == 'self' and (cls, c.func.attr) in MUT:
                            MUT[(cls, name)] = c
                            ch = True
        return MUT

    def _mutates_first_param(self, fu):
        if not fu.params:
            return False
        p = fu.params[0]
        for n in self.P.own(fu, (ast.Assign, ast.AugAssign)):
            tgs = n.targets if isinstance(n, ast.Assign) else [n.target]
            for t in tgs:
                if isinstance(t, ast.Subscript) and isinstance(t.value, ast.Name) and t.value.id == p:
                    return True
        return False

    # ---------------------------------------------------------------- primitive effect sites
    def _primitive_sites(self):
        P = self.P
        for u in P.units:
            if u.cls in STORAGES:
                continue
            for n in P.own(u, (ast.Call, ast.Assign, ast.AugAssign, ast.Delete)):
                if isinstance(n, ast.Call):
                    for t in P.targets(n):
                        if t.cls in STORAGES and (t.cls, t.name) in self.storage_mutators:
                            eff = OWNER.get(u.cls)
                            if eff is None:
                                eff = 'raw'
                            self.prim[u].append((eff, n, '%s.%s' % (t.cls, t.name)))
                    f = n.func
                    kinds = P.kinds(n)
                    if isinstance(f, ast.Name) and f.id == 'open' and 'builtin:open' in kinds:
                        mode = None
                        if len(n.args) > 1:
                            mode = n.args[1]
                        for k in n.keywords:
                            if k.arg == 'mode':
                                mode = k.value
                        ro = mode is None or (isinstance(mode, ast.Constant) and isinstance(mode.value, str)
                                              and not set(mode.value) & set('wax+'))
                        if not ro:
                            self.prim[u].append(('raw', n, 'open() with a writable or non-constant mode'))
                    if isinstance(f, ast.Attribute):
                        rt = P.ev(u, f.value)
                        full = None
                        for a in P.ev(u, f):
                            if a[0] == 'ext':
                                full = a[1]
                        if full in OS_MUTATORS:
                            self.prim[u].append(('raw', n, full))
                        if f.attr in EXT_MUT_METHODS and any(
                                a[0] == 'ext' and a[1].split('.')[-1].rstrip('()') in ('file', 'bytearray', 'open', 'mmap')
                                for a in rt):
                            self.prim[u].append(('raw', n, 'direct %s on %s' % (f.attr, ast.unparse(f.value))))
                else:
                    tgs = n.targets if isinstance(n, (ast.Assign, ast.Delete)) else [n.target]
                    for t in tgs:
                        base = t.value if isinstance(t, ast.Subscript) else t
                        if isinstance(base, ast.Attribute):
                            rc = P.expr_classes(u, base.value)
                            if rc & set(STORAGES) and base.attr in set().union(*self.storage_data_attrs.values()):
                                self.prim[u].append(('raw', n, 'rebinds/changes %s' % ast.unparse(base)))

    def _propagate(self):
        P = self.P
        for u, sites in self.prim.items():
            for eff, n, d in sites:
                self.writes[u].add(eff)
        ch = True
        while ch:
            ch = False
            for u in P.units:
                for t in P.calls[u]:
                    if not self.writes[t] <= self.writes[u]:
                        self.writes[u] |= self.writes[t]
                        ch = True

    def explain(self, start, effect=None):
        """shortest call path from unit `start` to a primitive effect site -> list of (unit, call/site node)"""
        P = self.P
        seen = {start: None}
        q = [start]
        while q:
            x = q.pop(0)
            for eff, n, d in self.prim.get(x, ()):
                if effect is None or eff == effect:
                    path = [(x, n, d)]
                    cur = x
                    while seen[cur] is not None:
                        prev, call = seen[cur]
                        path.append((prev, call, 'calls ' + cur.qual))
                        cur = prev
                    return path[::-1]
            for c in P.own(x, ast.Call):
                for y in P.targets(c):
                    if y not in seen and self.writes[y]:
                        seen[y] = (x, c)
                        q.append(y)
        return []

    # ---------------------------------------------------------------- node write-back summaries
    def _foreign(self):
        P = self.P
        changed = True
        while changed:
            changed = False
            for u in P.units:
                for c in P.own(u, ast.Call):
                    for t in P.targets(c):
                        if t.cls == TRIE_NODE and t.name == 'write':
                            r = recv_name(c)
                            if u.cls == TRIE_NODE and r == 'self':
                                continue
                            if r in u.params and not self._rebound(u, r):
                                if r not in self.writes_param[u]:
                                    self.writes_param[u].add(r)
                                    changed = True
                                # a param node that was moved (read_left...) or that is written after
                                # appending is still "the handed node" for the caller's obligation
                            elif u not in self.foreign:
                                self.foreign.add(u)
                                changed = True
                        else:
                            if t in self.foreign and u not in self.foreign:
                                self.foreign.add(u)
                                changed = True
                            if self.writes_param.get(t):
                                params = t.call_params
                                bound = list(zip(params, c.args)) + [(k.arg, k.value) for k in c.keywords]
                                for pname, a in bound:
                                    if pname in self.writes_param[t]:
                                        if isinstance(a, ast.Name) and a.id in u.params and not self._rebound(u, a.id):
                                            if a.id not in self.writes_param[u]:
                                                self.writes_param[u].add(a.id)
                                                changed = True
                                        elif u not in self.foreign:
                                            self.foreign.add(u)
                                            changed = True
        # a unit that appends new trie node blocks (constructs a node with stem= and writes it) is foreign as well:
        # covered because the new node variable is not a parameter.

    def must_write_param(self, ctx, t, pname):
        """does callee t write back its node parameter `pname` on *every* path to its normal exit?"""
        key = ('mwp', t, pname)
        if key in ctx._cache:
            return ctx._cache[key]
        ctx._cache[key] = False        # recursion guard
        from .cfg import solve_forward
        from .dataflow import node_root, calls_in_order, bound_args
        P = self.P
        g = ctx.cfg(t)

        def transfer(nd, st):
            root = node_root(nd)
            if root is None:
                return st
            for c in calls_in_order(P, t, root):
                if recv_name(c) == pname and isinstance(c.func, ast.Attribute) and c.func.attr == 'write':
                    st = True
                for t2 in P.targets(c):
                    if self.writes_param.get(t2):
                        for pn, arg in bound_args(t2, c):
                            if pn in self.writes_param[t2] and isinstance(arg, ast.Name) and arg.id == pname and self.must_write_param(ctx, t2, pn):
                                st = True
            return st
        IN = solve_forward(g, False, transfer, lambda lab, st: st, lambda a, b: a and b)
        res = all(transfer(p, IN.get(p.id, False)) for p, _ in g.exit.pred) and bool(g.exit.pred)
        ctx._cache[key] = res
        return res

    def _rebound(self, u, name):
        for n in self.P.own(u, (ast.Assign, ast.AugAssign, ast.For)):
            tgs = n.targets if isinstance(n, ast.Assign) else [n.target]
            for t in tgs:
                for x in ast.walk(t):
                    if isinstance(x, ast.Name) and x.id == name and isinstance(x.ctx, ast.Store):
                        return True
        return False
