"""thorough tier: checker self-validation on scratch copies of the current tree.

(i)  every breaking variant whose rule belongs to the property must make that rule report a finding;
(ii) every equivalent variant must leave all rules of the property silent (apart from listed known findings) and must not
     make them lose their anchors.
Results go to the evidence; a rule that fails its own validation makes the run exit 2 (never a VIOLATION).
"""
import ast
import multiprocessing
import os
import shutil
import tempfile

from . import variants

RULE_ALIAS = {'R-MONOTONE': 'R-MONOTONE-CALLERS'}


def _copy_tree(repo):
    d = tempfile.mkdtemp(prefix='traph-selfval-')
    shutil.copytree(os.path.join(repo, 'traph'), os.path.join(d, 'traph'), ignore=shutil.ignore_patterns('__pycache__'))
    shutil.copy(os.path.join(repo, 'setup.py'), os.path.join(d, 'setup.py'))
    return d


def _run_rules(root, rules):
    from .core import Ctx, run_rule
    from .program import AnalysisError
    from . import rules as R
    R.load_all()
    out = {}
    try:
        ctx = Ctx(root, tier='quick')
    except AnalysisError as e:
        return {'*': ('error', str(e))}
    for r in rules:
        try:
            rr = run_rule(ctx, r)
            out[r] = ('ok', [(f.rule, f.func, f.stmt, f.msg[:160]) for f in rr.findings])
        except AnalysisError as e:
            out[r] = ('error', str(e)[:300])
        except Exception as e:  # noqa
            out[r] = ('crash', repr(e)[:300])
    return out


def _breaking_job(args):
    repo, idx = args
    v = variants.breaking_variants(repo)[idx]
    p = os.path.join(repo, v.path)
    if not os.path.exists(p):
        return (v.id, 'absent', None)
    src = open(p).read()
    try:
        new = v.edit(src)
    except Exception as e:  # noqa
        return (v.id, 'absent', 'edit failed: %r' % e)
    if new is None or new == src:
        return (v.id, 'absent', None)
    try:
        ast.parse(new)
    except SyntaxError as e:
        return (v.id, 'absent', 'variant does not parse: %s' % e)
    d = _copy_tree(repo)
    try:
        open(os.path.join(d, v.path), 'w').write(new)
        rule = RULE_ALIAS.get(v.rule, v.rule)
        res = _run_rules(d, [rule])
    finally:
        shutil.rmtree(d, ignore_errors=True)
    if '*' in res:
        return (v.id, 'engine-error', res['*'][1])
    st, val = res[rule]
    if st != 'ok':
        return (v.id, 'rule-error', val)
    return (v.id, 'killed' if val else 'survived', val[:2])


def _equivalent_job(args):
    repo, idx, rules = args
    name, fn = variants.equivalent_variants(repo)[idx]
    d = _copy_tree(repo)
    try:
        for dp, dn, fnames in os.walk(os.path.join(d, 'traph')):
            for f in fnames:
                if f.endswith('.py'):
                    p = os.path.join(dp, f)
                    src = open(p).read()
                    open(p, 'w').write(fn(src))
        res = _run_rules(d, rules)
    finally:
        shutil.rmtree(d, ignore_errors=True)
    return (name, res)


def run(repo, prop, rules, known=()):
    rules = [RULE_ALIAS.get(r, r) for r in rules]
    allv = variants.breaking_variants(repo)
    mine = [i for i, v in enumerate(allv) if RULE_ALIAS.get(v.rule, v.rule) in rules]
    nproc = min(16, max(1, len(mine) + 3))
    problems = []
    with multiprocessing.Pool(nproc) as pool:
        bres = pool.map(_breaking_job, [(repo, i) for i in mine])
        eres = pool.map(_equivalent_job, [(repo, i, rules) for i in range(len(variants.equivalent_variants(repo)))])
    applied = [r for r in bres if r[1] != 'absent']
    killed = [r for r in applied if r[1] == 'killed']
    for vid, st, info in applied:
        if st != 'killed':
            problems.append('breaking variant `%s` is not reported by its rule (%s: %s)' % (vid, st, info))
    eq_silent = 0
    eq_details = []
    for name, res in eres:
        bad = []
        for r, (st, val) in res.items():
            if st != 'ok':
                bad.append('%s: %s %s' % (r, st, val))
            else:
                for f in val:
                    if (f[0], f[1]) in {(k[0], k[1]) for k in known}:
                        continue      # a listed known finding (its statement text changes under renaming)
                    bad.append('%s reports %s in %s: %s' % (r, f[0], f[1], f[3]))
        if not bad:
            eq_silent += 1
        else:
            problems.append('equivalent variant `%s` is not silent: %s' % (name, '; '.join(bad[:4])))
        eq_details.append({'variant': name, 'silent': not bad})
    return {'mutants_generated': len(mine), 'mutants_applied': len(applied), 'mutants_killed': len(killed),
            'equivalents': len(eres), 'equivalents_silent': eq_silent, 'problems': problems,
            'breaking': [{'variant': vid, 'result': st} for vid, st, info in bres], 'equivalent': eq_details}
