"""thorough tier: checker self-validation on scratch copies of the current tree (filled in below)."""


def run(repo, prop, rules):
    return {'mutants_applied': 0, 'mutants_killed': 0, 'equivalents': 0, 'equivalents_silent': 0, 'problems': [],
            'note': 'self-validation corpus not built yet'}
