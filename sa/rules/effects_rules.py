"""R-STATIC-SHAPE, R-READONLY, R-WRITE-API, R-MONOTONE (who-may-call part)."""
import ast
import fnmatch

from ..core import rule
from ..program import AnalysisError
from ..effects import STORAGES, NODEC, HDRC, TRIE_NODE, recv_name

# memoising decorators do not change which function a call reaches; R-NO-STALE-CACHE decides them
MEMO_DECORATORS = ('lru_cache', 'cache', 'cached_property', 'memoize', 'memoized')

DYNAMIC_NAMES = {'getattr', 'setattr', 'delattr', 'eval', 'exec', 'globals', 'locals', 'vars', '__import__',
                 'compile'}


@rule('R-STATIC-SHAPE')
def static_shape(ctx, rr):
    """assumptions of the typed call graph (A1): no dynamic dispatch / patching / inheritance between package
    classes.  A breach is an ANALYSIS-ERROR (exit 2): every effect verdict would be unsound."""
    P = ctx.P
    problems = []
    n = 0
    for mod, tree in P.modules.items():
        path = P.paths[mod]
        for x in ast.walk(tree):
            n += 1
            if isinstance(x, ast.Call) and isinstance(x.func, ast.Name) and x.func.id in DYNAMIC_NAMES:
                problems.append('%s:%d dynamic call %s()' % (path, x.lineno, x.func.id))
            if isinstance(x, (ast.Global, ast.Nonlocal)):
                problems.append('%s:%d %s statement' % (path, x.lineno, type(x).__name__.lower()))
            if isinstance(x, ast.ClassDef):
                for b in x.bases:
                    if isinstance(b, ast.Name) and b.id in P.classes:
                        problems.append('%s:%d class %s inherits from package class %s' % (path, x.lineno, x.name, b.id))
                for m in x.body:
                    if isinstance(m, ast.FunctionDef) and m.name in ('__getattr__', '__getattribute__', '__setattr__'):
                        problems.append('%s:%d %s.%s defined' % (path, m.lineno, x.name, m.name))
            if isinstance(x, ast.FunctionDef) and [d for d in x.decorator_list if not (isinstance(d, ast.Name) and d.id == 'staticmethod')
                                                   and ast.unparse(d.func if isinstance(d, ast.Call) else d).split('.')[-1] not in MEMO_DECORATORS]:
                problems.append('%s:%d decorated function %s' % (path, x.lineno, x.name))
            if isinstance(x, ast.Attribute) and x.attr == '__dict__' and isinstance(x.ctx, (ast.Load, ast.Store)):
                problems.append('%s:%d __dict__ access' % (path, x.lineno))
            if isinstance(x, ast.Attribute) and x.attr == '__class__' and isinstance(x.ctx, ast.Store):
                problems.append('%s:%d __class__ rebinding' % (path, x.lineno))
    # monkey patching: assignment to an attribute of a class object, or of a method name on an instance
    for u in P.units:
        for a in P.own(u, ast.Assign):
            for t in a.targets:
                if isinstance(t, ast.Attribute):
                    bt = P.ev(u, t.value)
                    if any(z[0] == 'class' for z in bt):
                        problems.append('%s:%d assignment to class attribute %s' % (P.path_of(u), a.lineno, ast.unparse(t)))
                    for z in bt:
                        if z[0] == 'inst' and P.method_of(z[1], t.attr) is not None:
                            problems.append('%s:%d method %s.%s rebound on an instance' % (P.path_of(u), a.lineno, z[1], t.attr))
    rr.ob('package', 'no dynamic dispatch/patching/inheritance in %d AST nodes of %d modules' % (n, len(P.modules)),
          ok=not problems)
    rr.info['ast_nodes'] = n
    if problems:
        raise AnalysisError('R-STATIC-SHAPE: assumptions of the typed call graph are broken: ' + '; '.join(problems))


QUERY_PATTERNS = ['get_*', 'retrieve_*', 'paginate_*', 'count_*', '*_metrics', 'metrics', 'expand_prefix',
                  'pages_iter', 'links_iter', 'webentity_prefix_iter', 'webentity_page_nodes_iter']


def is_query_name(name):
    return not name.startswith('_') and any(fnmatch.fnmatchcase(name, p) for p in QUERY_PATTERNS)


@rule('R-READONLY')
def readonly(ctx, rr):
    P, E = ctx.P, ctx.E
    traph = P.require_class('Traph')
    queries = [u for name, u in traph.items() if is_query_name(name)]
    rr.require(len(queries), 40, 'read-only API methods of Traph')
    reach_all = set()
    for u in queries:
        # reachable units
        seen = {u}
        work = [u]
        while work:
            x = work.pop()
            for y in P.calls[x]:
                if y not in seen:
                    seen.add(y)
                    work.append(y)
        reach_all |= seen
        w = E.writes[u]
        rr.ob(ctx.where(u), 'query %s reaches no store mutation (%d functions reachable, generator=%s)'
              % (u.qual, len(seen), u.is_gen), ok=not w, reachable=len(seen))
        if w:
            for eff in sorted(w):
                path = E.explain(u, eff)
                steps = ['%s:%d %s: %s' % (P.path_of(x), getattr(n, 'lineno', 0), x.qual, d) for x, n, d in path]
                site_u, site_n, d = path[-1] if path else (u, u.node, '?')
                first_u, first_n, _ = path[0] if path else (u, u.node, '?')
                rr.fail(ctx.finding('R-READONLY', u, first_n,
                                    'read-only request %s can modify the %s store: %s' % (u.qual, eff, ' -> '.join(steps)),
                                    detail={'effect': eff, 'call_path': steps},
                                    stmt='%s => %s' % (u.qual, eff)))
    rr.info['queries'] = sorted(u.qual for u in queries)
    rr.info['generator_queries'] = sum(1 for u in queries if u.is_gen)
    rr.info['reachable_functions'] = len(reach_all)
    rr.info['storage_mutators'] = sorted('%s.%s' % k for k in E.storage_mutators)


# write entry points named by the properties and the store effects each must / may have
WRITE_API = {
    'add_page': ({'trie.node'}, {'trie.node', 'trie.header'}),
    'add_pages': ({'trie.node'}, {'trie.node', 'trie.header'}),
    'add_links': ({'trie.node', 'links.node'}, {'trie.node', 'trie.header', 'links.node'}),
    'index_batch_crawl_iter': ({'trie.node', 'links.node'}, {'trie.node', 'trie.header', 'links.node'}),
    'index_batch_crawl': ({'trie.node', 'links.node'}, {'trie.node', 'trie.header', 'links.node'}),
    'create_webentity': ({'trie.node', 'trie.header'}, {'trie.node', 'trie.header'}),
    'delete_webentity': ({'trie.node'}, {'trie.node'}),
    'add_prefix_to_webentity': ({'trie.node'}, {'trie.node'}),
    'remove_prefix_from_webentity': ({'trie.node'}, {'trie.node'}),
    'move_prefix_to_webentity': ({'trie.node'}, {'trie.node'}),
    'move_prefix_to_webentity_from_webentity': ({'trie.node'}, {'trie.node'}),
    'add_webentity_creation_rule_iter': ({'trie.node'}, {'trie.node', 'trie.header'}),
    'add_webentity_creation_rule': ({'trie.node'}, {'trie.node', 'trie.header'}),
    'remove_webentity_creation_rule': ({'trie.node'}, {'trie.node'}),
    'clear': ({'raw', 'trie.header', 'links.header'}, {'raw', 'trie.node', 'trie.header', 'links.header'}),
    'close': (set(), set()),
}


@rule('R-WRITE-API')
def write_api(ctx, rr):
    P, E = ctx.P, ctx.E
    traph = P.require_class('Traph')
    for name, (must, may) in WRITE_API.items():
        u = P.method('Traph', name)
        w = E.writes[u]
        ok = must <= w <= may
        rr.ob(ctx.where(u), '%s writes %s (required %s, allowed %s)' % (name, sorted(w), sorted(must), sorted(may)), ok=ok)
        if not ok:
            extra = w - may
            miss = must - w
            msg = []
            if extra:
                p = E.explain(u, sorted(extra)[0])
                msg.append('unexpected store effect %s via %s' % (sorted(extra), ' -> '.join(
                    '%s:%d %s' % (P.path_of(x), getattr(n, 'lineno', 0), x.qual) for x, n, d in p)))
            if miss:
                msg.append('expected store effect %s is missing (the request can no longer persist its result)' % sorted(miss))
            rr.fail(ctx.finding('R-WRITE-API', u, u.node, '; '.join(msg), stmt='%s effects' % u.qual))
    unclassified = [n for n, u in traph.items() if not n.startswith('_') and n not in WRITE_API
                    and not is_query_name(n) and E.writes[u]]
    rr.info['unclassified_public_writers'] = unclassified


@rule('R-MONOTONE-CALLERS')
def monotone_callers(ctx, rr):
    """page/crawled marks are never cleared; the no-child-webentities mark is never set again"""
    P, E = ctx.P, ctx.E
    node = P.require_class(TRIE_NODE)
    # bit constants per flag method, computed from bodies: which methods clear PAGE / CRAWLED, which set NO_CHILD
    clearers = {}
    for name, u in node.items():
        for c in P.own(u, ast.Call):
            if isinstance(c.func, ast.Name) and c.func.id in ('flag', 'unflag') and len(c.args) == 3 \
                    and ast.unparse(c.args[0]) == 'self.data':
                bit = ast.unparse(c.args[2])
                if c.func.id == 'unflag' and bit in ('LRU_TRIE_NODE_FLAG_PAGE', 'LRU_TRIE_NODE_FLAG_CRAWLED'):
                    clearers[name] = 'clears ' + bit
                if c.func.id == 'flag' and bit == 'LRU_TRIE_NODE_FLAG_NO_CHILD_WEBENTITIES':
                    clearers[name] = 'sets ' + bit
    # the helpers themselves must exist with the expected polarity
    for h in ('flag', 'unflag'):
        if ('traph.lru_trie.node', h) not in P.funcs:
            raise AnalysisError('anchor vanished: traph.lru_trie.node:%s' % h)
    rr.info['forbidden_methods'] = clearers
    # positive control: the detector must recognise the existing unflag_as_page / unflag_as_crawled definitions
    rr.require(len(clearers), 2, 'flag-clearing accessor definitions (positive control)')
    ncalls = 0
    for u in P.units:
        for c in P.own(u, ast.Call):
            for t in P.targets(c):
                if t.cls == TRIE_NODE and t.name in clearers:
                    ncalls += 1
                    rr.fail(ctx.finding('R-MONOTONE', u, c, 'call of %s (%s): page/crawled marks and the child-webentity '
                                        'mark are monotone' % (t.qual, clearers[t.name])))
    rr.ob('package', 'no caller of %s in %d units' % (sorted(clearers), len(P.units)), ok=ncalls == 0)
    # direct bit surgery on node flags outside the node class
    for u in P.units:
        if u.cls == TRIE_NODE or u.module == 'traph.lru_trie.node':
            continue
        for c in P.own(u, ast.Call):
            for t in P.targets(c):
                if t.cls is None and t.module == 'traph.lru_trie.node' and t.name in ('flag', 'unflag'):
                    rr.fail(ctx.finding('R-MONOTONE', u, c, 'direct flag surgery outside LRUTrieNode'))
