"""Generic flow rules added in round 4: R-LOOP-CARRIED, R-ACCUMULATE, R-STORAGE-STATELESS, R-ENCODED, R-CLOSE,
R-DEGREE-FLAGS."""
import ast

from ..core import rule
from ..program import AnalysisError
from ..cfg import solve_forward
from ..dataflow import node_root, names_assigned, names_in_target, kwarg
from ..effects import STORAGES, self_attr


def must_pass(ctx, u, pred):
    """does every path from the entry of u to a normal exit pass through a CFG node whose expression satisfies pred(root)?"""
    cfg = ctx.cfg(u)

    def tr(n, st):
        root = node_root(n)
        if root is not None and pred(root):
            return True
        return st
    IN = solve_forward(cfg, False, tr, lambda lab, st: st, lambda a, b: a and b)
    return IN.get(cfg.exit.id, True)


def absent_branch(lab, name):
    """is CFG edge label `lab` the branch on which local `name` is None / falsy (`if not name`, `if name is None`, `if name`: else)?"""
    if not lab or lab[0] not in ('T', 'F') or lab[1] is None:
        return False
    t, truth = lab[1], lab[0] == 'T'
    while isinstance(t, ast.UnaryOp) and isinstance(t.op, ast.Not):
        t, truth = t.operand, not truth
    if isinstance(t, ast.Name) and t.id == name:
        return not truth
    if isinstance(t, ast.Compare) and len(t.ops) == 1 and isinstance(t.left, ast.Name) and t.left.id == name and isinstance(t.comparators[0], ast.Constant) \
            and t.comparators[0].value is None:
        if isinstance(t.ops[0], (ast.Is, ast.Eq)):
            return truth
        if isinstance(t.ops[0], (ast.IsNot, ast.NotEq)):
            return not truth
    return False


def round_must_pass(ctx, u, lp, pred, excuse=None):
    """does every round of loop lp (from its head back to its head, or out through its normal exit) pass through a CFG node whose
    expression satisfies pred(root)?  Returns None when it does, else a CFG node that ends a round without it."""
    P = ctx.P
    cfg = ctx.cfg(u)
    heads = [x for x in cfg.nodes if x.loop is lp]
    if not heads:
        return None
    head = heads[0]

    def tr(nd, st):
        if nd is head:
            return False
        root = node_root(nd)
        if root is not None and pred(root):
            return True
        return st
    def refine(lab, st):
        if excuse is not None and excuse(lab):
            return True
        return st
    IN = solve_forward(cfg, False, tr, refine, lambda a, b: a and b)
    for pnode, lab in head.pred:
        if pnode.id not in IN or not (pnode.ast is not None and any(_inside(P, pnode.ast, s_) for s_ in lp.body)):
            continue
        out = tr(pnode, IN[pnode.id])
        if lab is not None:
            out = refine(lab, out)
        if not out:
            return pnode
    return None


def _inside(P, node, anc):
    cur = node
    while cur is not None:
        if cur is anc:
            return True
        cur = P.parent.get(id(cur))
    return False


def _loads(P, u, root, skip_lambda=True):
    """Name loads owned by u in root (not inside a lambda / nested def)"""
    out = []
    if root is None:
        return out
    for x in ast.walk(root):
        if isinstance(x, ast.Name) and isinstance(x.ctx, ast.Load) and P.owner_of(u.node, x) is u.node:
            out.append(x)
    return out


def _comp_bound(root):
    """names bound by comprehensions inside root (their loads are not loads of the function local)"""
    out = set()
    if root is None:
        return out
    for x in ast.walk(root):
        if isinstance(x, ast.comprehension):
            out |= set(names_in_target(x.target))
    return out


# ------------------------------------------------------------------------------------------------ R-LOOP-CARRIED
@rule('R-LOOP-CARRIED')
def loop_carried(ctx, rr):
    """a local that is bound only inside a loop is bound in the current iteration before it is used there: otherwise the
    iteration works on the value left by an earlier iteration (another page's node, another link's block) or on nothing"""
    P = ctx.P
    nloops = nvars = 0
    for u in P.units:
        loops = list(P.own(u, (ast.For, ast.While)))
        if not loops:
            continue
        cfg = ctx.cfg(u)
        params = set(u.params)
        rd = None
        # where is every name assigned
        sites = {}
        for n in cfg.nodes:
            for v in names_assigned(n):
                sites.setdefault(v, []).append(n)
        for lp in loops:
            nloops += 1
            head = [n for n in cfg.nodes if n.loop is lp]
            if not head:
                continue
            head = head[0]
            body_nodes = [n for n in cfg.nodes if n is not head and n.ast is not None and n.kind not in ('entry', 'exit', 'raise_exit')
                          and any(_inside(P, n.ast, s) for s in lp.body)]
            body_ids = {n.id for n in body_nodes}
            body_asts = {id(n.ast) for n in body_nodes}
            # candidates: bound inside the body, and no binding reaches the loop from outside (bindings after the loop, or in
            # another loop further down, do not initialise it)
            if rd is None:
                from ..dataflow import reaching_defs
                rd = reaching_defs(u, cfg)
            outside = {}
            for pnode, lab in head.pred:
                if pnode.id in body_ids or pnode.id not in rd:
                    continue
                st = dict(rd[pnode.id])
                for v in names_assigned(pnode):
                    st[v] = frozenset([pnode.ast])
                for v, ds in st.items():
                    # a binding made by this very loop in an earlier round of an enclosing loop is not an initialisation
                    outside.setdefault(v, set()).update(d for d in ds if d == 'param' or id(d) not in body_asts)
            cand = set()
            for v, ns in sites.items():
                if v in params:
                    continue
                if any(n.id in body_ids for n in ns) and not outside.get(v):
                    cand.add(v)
            if isinstance(lp, ast.For):
                cand -= set(names_in_target(lp.target))
            if not cand:
                continue
            ftargets = frozenset(names_in_target(lp.target)) if isinstance(lp, ast.For) else frozenset()

            def transfer(n, st):
                if n is head:
                    return ftargets
                return st | frozenset(names_assigned(n))
            IN = solve_forward(cfg, frozenset(), transfer, lambda lab, st: st, lambda a, b: a & b)
            for n in body_nodes:
                if n.id not in IN:
                    continue
                root = node_root(n)
                if n.kind == 'for_next':
                    continue
                bound_here = _comp_bound(root)
                for x in _loads(P, u, root):
                    if x.id in cand and x.id not in bound_here and x.id not in IN[n.id]:
                        # `del`-free code: a load before any binding in this iteration
                        nvars += 1
                        rr.fail(ctx.finding('R-LOOP-CARRIED', u, x,
                                            '`%s` is bound only inside the loop at line %d but is used here on a path of the iteration that has not bound it: '
                                            'the iteration works on the value a previous iteration left (or raises UnboundLocalError on the first)'
                                            % (x.id, lp.lineno), stmt='%s: stale loop local %s' % (u.qual, x.id)))
            rr.ob(ctx.where(u, lp), '%s: the %d local(s) bound only inside this loop are bound in every iteration before use' % (u.qual, len(cand)), ok=True)
    for o in rr.obligations:
        pass
    rr.require(nloops, 60, 'loops')
    rr.info['loops'] = nloops


# ------------------------------------------------------------------------------------------------ R-ACCUMULATE
@rule('R-ACCUMULATE')
def accumulate(ctx, rr):
    """the result a resumable request hands to state.finalize() is accumulated over the whole request: the accumulator is
    bound once before the loops and only grown inside them"""
    P = ctx.P
    n = 0
    for u in P.units:
        if u.cls != 'Traph' or not u.is_gen:
            continue
        fin = [c for c in P.own(u, ast.Call) if isinstance(c.func, ast.Attribute) and c.func.attr == 'finalize' and c.args]
        for c in fin:
            names = [x.id for x in ast.walk(c.args[0]) if isinstance(x, ast.Name) and isinstance(x.ctx, ast.Load)]
            for v in names:
                if v in u.params:
                    continue
                binds = []
                for a in P.own(u, (ast.Assign, ast.AnnAssign, ast.For)):
                    if isinstance(a, ast.Assign):
                        tg = [t for t in a.targets if v in names_in_target(t)]
                    elif isinstance(a, ast.AnnAssign):
                        tg = [a.target] if v in names_in_target(a.target) else []
                    else:
                        tg = [a.target] if v in names_in_target(a.target) else []
                    if tg:
                        binds.append(a)
                if not binds:
                    continue
                n += 1
                inloop = []
                for b in binds:
                    cur = P.parent.get(id(b))
                    while cur is not None and cur is not u.node:
                        if isinstance(cur, (ast.For, ast.While)):
                            inloop.append(b)
                            break
                        cur = P.parent.get(id(cur))
                # a counter computed per request in one statement inside no loop is fine; any rebinding inside a loop resets the result
                growing = any(isinstance(a, ast.AugAssign) and v in names_in_target(a.target) for a in P.own(u, ast.AugAssign)) or \
                    any(isinstance(m.func, ast.Attribute) and isinstance(m.func.value, ast.Name) and m.func.value.id == v for m in P.own(u, ast.Call))
                def self_ref(b):
                    val = getattr(b, 'value', None)
                    return val is not None and any(isinstance(x, ast.Name) and x.id == v for x in ast.walk(val))
                bad = [b for b in inloop if growing and not isinstance(b, ast.For) and not self_ref(b)]
                rr.ob(ctx.where(u, c), '%s: the accumulator `%s` given to finalize() is never re-bound inside a loop' % (u.qual, v), ok=not bad)
                for b in bad:
                    rr.fail(ctx.finding('R-ACCUMULATE', u, b, '%s re-binds its result accumulator `%s` inside a loop: what was collected before (pages, links, counts) is '
                                        'dropped from the final answer' % (u.qual, v)))
    # every normal exit of a resumable request goes through `yield state.finalize(...)`: run_iterator() hands out the result
    # of the last state it saw, which is None (or raises UnboundLocalError) when the generator just returns
    nfin = 0
    for u in P.units:
        if u.cls != 'Traph' or not u.is_gen:
            continue
        fin = [c for c in P.own(u, ast.Call) if isinstance(c.func, ast.Attribute) and c.func.attr == 'finalize']
        if not fin:
            continue
        nfin += 1
        ok = must_pass(ctx, u, lambda root: any(isinstance(y, ast.Yield) and y.value is not None and any(c in fin for c in ast.walk(y.value)) for y in ast.walk(root)))
        rr.ob(ctx.where(u), '%s: every normal exit passes through `yield state.finalize(...)`' % u.qual, ok=ok)
        if not ok:
            rr.fail(ctx.finding('R-ACCUMULATE', u, u.node, '%s can finish without yielding state.finalize(...): the synchronous wrapper then returns None (or fails) instead of the '
                                'answer collected so far' % u.qual, stmt='%s: exit without finalize' % u.qual))
    rr.require(nfin, 10, 'resumable requests with a finalize step')
    rr.require(n, 10, 'finalize() accumulators')
    # any facade request, resumable or not: a collection that is grown inside a loop (or initialised empty before it) and read after
    # the loop is not re-initialised inside that loop - the answer would cover the last round (the last prefix) only
    from .cache_rules import CONTAINER_MUT
    nl = 0

    def empty_init(e):
        if isinstance(e, (ast.List, ast.Set, ast.Tuple)) and not e.elts:
            return True
        if isinstance(e, ast.Dict) and not e.keys:
            return True
        if isinstance(e, ast.Call) and not e.args and isinstance(e.func, ast.Name) and e.func.id in ('set', 'list', 'dict'):
            return True
        if isinstance(e, ast.Call) and isinstance(e.func, ast.Name) and e.func.id == 'defaultdict':
            return True
        return False
    for u in P.units:
        if u.cls != 'Traph':
            continue
        loops = list(P.own(u, (ast.For, ast.While)))
        for lp in loops:
            nl += 1
            inbody = lambda x: any(_inside(P, x, s_) for s_ in lp.body)
            resets = {}
            for a in P.own(u, ast.Assign):
                if not inbody(a) or len(a.targets) != 1 or not isinstance(a.targets[0], ast.Name):
                    continue
                v = a.targets[0].id
                if any(isinstance(x, ast.Name) and x.id == v for x in ast.walk(a.value)):
                    continue
                resets.setdefault(v, []).append(a)
            for v, rs in resets.items():
                grown = False
                for x in P.own(u, (ast.AugAssign, ast.Call, ast.Assign)):
                    if not inbody(x):
                        continue
                    if isinstance(x, ast.AugAssign):
                        t = x.target
                        if (isinstance(t, ast.Name) and t.id == v) or (isinstance(t, ast.Subscript) and isinstance(t.value, ast.Name) and t.value.id == v):
                            grown = True
                    elif isinstance(x, ast.Assign):
                        if any(isinstance(t, ast.Subscript) and isinstance(t.value, ast.Name) and t.value.id == v for t in x.targets):
                            grown = True
                    elif isinstance(x.func, ast.Attribute):
                        if isinstance(x.func.value, ast.Name) and x.func.value.id == v and x.func.attr in CONTAINER_MUT:
                            grown = True
                        if x.func.attr in ('heappush', 'heappushpop') and x.args and isinstance(x.args[0], ast.Name) and x.args[0].id == v:
                            grown = True
                before = [a for a in P.own(u, ast.Assign) if not inbody(a) and a.lineno < lp.lineno and any(isinstance(t, ast.Name) and t.id == v for t in a.targets)]
                init_empty = bool(before) and all(empty_init(a.value) for a in before)
                coll_reset = all(empty_init(a.value) or isinstance(a.value, (ast.ListComp, ast.SetComp, ast.DictComp)) or
                                 (isinstance(a.value, ast.Call) and isinstance(a.value.func, ast.Name) and a.value.func.id in ('set', 'list', 'dict', 'sorted')) for a in rs)
                end = getattr(lp, 'end_lineno', lp.lineno)
                after = [x for x in P.own(u, ast.Name) if x.id == v and isinstance(x.ctx, ast.Load) and not _inside(P, x, lp) and x.lineno > end]
                # a read after the loop that is preceded there by a fresh binding does not see the loop's value
                rebound_after = [a for a in P.own(u, ast.Assign) if not _inside(P, a, lp) and a.lineno > end and any(isinstance(t, ast.Name) and t.id == v for t in a.targets)]
                if rebound_after:
                    first = min(a.lineno for a in rebound_after)
                    after = [x for x in after if x.lineno <= first and not any(_inside(P, x, a.targets[0]) for a in rebound_after)]
                bad = bool(after) and coll_reset and (grown or init_empty)
                if not after or not coll_reset:
                    continue
                rr.ob(ctx.where(u, rs[0]), '%s: `%s`, read after the loop at line %d, is not re-initialised inside it' % (u.qual, v, lp.lineno), ok=not bad)
                if bad:
                    rr.fail(ctx.finding('R-ACCUMULATE', u, rs[0], '%s re-initialises `%s` inside the loop at line %d and reads it after the loop: only what the last round (the last prefix) '
                                        'collected reaches the answer' % (u.qual, v, lp.lineno)))
    rr.require(nl, 40, 'loops of facade requests')


# ------------------------------------------------------------------------------------------------ R-STORAGE-STATELESS
@rule('R-STORAGE-STATELESS')
def storage_stateless(ctx, rr):
    """FileStorage keeps no fact about the file (length, end offset, last block) between calls: Traph.clear() and other handles
    change the file under it.  Only __init__ binds attributes."""
    P = ctx.P
    cls = P.require_class('FileStorage')
    n = 0
    for name, u in cls.items():
        if name == '__init__':
            continue
        n += 1
        bad = []
        for a in P.own(u, (ast.Assign, ast.AugAssign, ast.AnnAssign, ast.Delete)):
            tgs = a.targets if isinstance(a, (ast.Assign, ast.Delete)) else [a.target]
            for t in tgs:
                for x in ast.walk(t):
                    if self_attr(x):
                        bad.append((a, self_attr(x)))
                    if isinstance(x, ast.Subscript) and self_attr(x.value):
                        bad.append((a, self_attr(x.value)))
        from .cache_rules import CONTAINER_MUT
        for c in P.own(u, ast.Call):
            if isinstance(c.func, ast.Attribute) and self_attr(c.func.value) and c.func.attr in CONTAINER_MUT \
                    and any(z[0] in ('dict', 'list', 'set') for z in P.ev(u, c.func.value)):
                bad.append((c, self_attr(c.func.value)))
        rr.ob(ctx.where(u), 'FileStorage.%s keeps no state on the storage object' % name, ok=not bad)
        for a, attr in bad:
            rr.fail(ctx.finding('R-STORAGE-STATELESS', u, a, 'FileStorage.%s remembers `self.%s` between calls: the file is truncated by clear(), grown by other calls '
                                'and swapped on reopen, so the remembered fact (length, offset, block) goes stale and reads/writes land on the wrong block' % (name, attr)))
    rr.require(n, 4, 'FileStorage methods')


# ------------------------------------------------------------------------------------------------ R-ENCODED
def _is_encode_call(e):
    return isinstance(e, ast.Call) and isinstance(e.func, ast.Attribute) and e.func.attr.endswith('__encode') and self_attr(e.func)


PASS_THROUGH = {'list', 'sorted', 'set', 'tuple', 'enumerate', 'zip', 'reversed', 'iter', 'dict', 'frozenset', 'next', 'str', 'bytes', 'min', 'max'}


def _raw_names(P, u, e, raw):
    """raw (not yet encoded) locals whose text can flow into the value of e: copies, slices, concatenation, containers,
    iteration helpers and methods of a raw receiver carry it; __encode() cleans; other calls return their own values"""
    out = set()
    if e is None:
        return out

    def rec(x, raw):
        if _is_encode_call(x) or isinstance(x, ast.Lambda):
            return
        if isinstance(x, ast.Name):
            if isinstance(x.ctx, ast.Load) and x.id in raw:
                out.add(x.id)
            return
        if isinstance(x, ast.Call):
            if isinstance(x.func, ast.Attribute):
                rec(x.func.value, raw)
                if isinstance(x.func.value, ast.Constant):      # b'|'.join(raw_parts), '%s' % ...
                    for a in x.args:
                        rec(a, raw)
            elif isinstance(x.func, ast.Name) and x.func.id in PASS_THROUGH:
                for a in x.args:
                    rec(a, raw)
            return
        if isinstance(x, (ast.ListComp, ast.SetComp, ast.GeneratorExp, ast.DictComp)):
            inner = set(raw)
            for g in x.generators:
                before = len(out)
                sub = _raw_names(P, u, g.iter, inner)
                if sub:
                    inner |= set(names_in_target(g.target))
                else:
                    inner -= set(names_in_target(g.target))
            for el in ([x.key, x.value] if isinstance(x, ast.DictComp) else [x.elt]):
                rec(el, inner)
            return
        if isinstance(x, ast.Compare):
            return
        for ch in ast.iter_child_nodes(x):
            rec(ch, raw)
    rec(e, raw)
    return out


@rule('R-ENCODED')
def encoded(ctx, rr):
    """an LRU that enters a facade request reaches the trie only after __encode(): a str LRU compared byte-wise against stored
    stems never matches (py3) and a walk started from the raw value silently finds nothing.  Taint dataflow: request
    parameters are raw, __encode() cleans, private helpers inherit the taint of their call sites."""
    P = ctx.P
    from ..dataflow import bound_args
    trie_lru_params = {}
    for name, fu in P.require_class('LRUTrie').items():
        ps = [p for p in fu.call_params if p in ('lru', 'prefix', 'starting_lru')]
        if ps:
            trie_lru_params[name] = ps
    units = [u for u in P.units if u.cls == 'Traph' and u.name != '__encode']

    def is_private(u):
        return u.name.startswith('__') and not u.name.endswith('__')
    raw_params = {u: (set() if is_private(u) else set(p for p in u.params if p != 'self')) for u in units}
    results = {}
    for _round in range(6):
        changed = False
        results = {}
        for u in units:
            cfg = ctx.cfg(u)

            def tr(n, st, u=u):
                a = n.ast
                if a is None:
                    return st
                if n.kind == 'for_next':
                    st2 = set(st) - set(names_in_target(a.target))
                    if _raw_names(P, u, a.iter, st):
                        st2 |= set(names_in_target(a.target))
                    return frozenset(st2)
                if n.kind == 'stmt' and isinstance(a, (ast.Assign, ast.AnnAssign)) and a.value is not None:
                    tgs = a.targets if isinstance(a, ast.Assign) else [a.target]
                    st2 = set(st)
                    for t in tgs:
                        if isinstance(t, ast.Tuple) and isinstance(a.value, ast.Tuple) and len(t.elts) == len(a.value.elts):
                            for te, ve in zip(t.elts, a.value.elts):
                                for nm in names_in_target(te):
                                    (st2.add if _raw_names(P, u, ve, st) else st2.discard)(nm)
                        else:
                            r = bool(_raw_names(P, u, a.value, st))
                            for nm in names_in_target(t):
                                (st2.add if r else st2.discard)(nm)
                    return frozenset(st2)
                if n.kind == 'stmt' and isinstance(a, ast.AugAssign):
                    if _raw_names(P, u, a.value, st):
                        return st | frozenset(names_in_target(a.target))
                return st
            IN = solve_forward(cfg, frozenset(raw_params[u]), tr, lambda lab, st: st, lambda a, b: a | b)
            results[u] = IN
            # propagate to private helpers
            for n in cfg.nodes:
                if n.id not in IN or n.kind == 'for_next':
                    continue
                root = node_root(n)
                if root is None:
                    continue
                for c in ast.walk(root):
                    if not isinstance(c, ast.Call) or P.owner_of(u.node, c) is not u.node:
                        continue
                    for t in P.targets(c):
                        if t.cls == 'Traph' and is_private(t) and t in raw_params:
                            for pname, arg in bound_args(t, c):
                                if _raw_names(P, u, arg, IN[n.id]) and pname not in raw_params[t]:
                                    raw_params[t].add(pname)
                                    changed = True
        if not changed:
            break
    nsites = 0
    for u in units:
        cfg = ctx.cfg(u)
        IN = results[u]
        for n in cfg.nodes:
            if n.id not in IN or n.kind == 'for_next':
                continue
            root = node_root(n)
            if root is None:
                continue
            for c in ast.walk(root):
                if not isinstance(c, ast.Call) or P.owner_of(u.node, c) is not u.node:
                    continue
                tg = [t for t in P.targets(c) if (t.cls == 'LRUTrie' and t.name in trie_lru_params)]
                if not tg:
                    continue
                fu = tg[0]
                for pname, arg in bound_args(fu, c):
                    if pname not in trie_lru_params[fu.name]:
                        continue
                    nsites += 1
                    raw = _raw_names(P, u, arg, IN[n.id])
                    rr.ob(ctx.where(u, c), '%s: `%s` handed to LRUTrie.%s(%s) went through __encode on every path' % (u.qual, ast.unparse(arg)[:40], fu.name, pname), ok=not raw)
                    if raw:
                        rr.fail(ctx.finding('R-ENCODED', u, c, '%s hands `%s` to LRUTrie.%s without __encode() on some path (raw: %s): a str LRU never matches the stored '
                                            'byte stems, so the lookup / walk silently finds nothing' % (u.qual, ast.unparse(arg)[:40], fu.name, sorted(raw)),
                                            stmt='%s: raw %s -> LRUTrie.%s' % (u.qual, sorted(raw), fu.name)))
    # a raw LRU is not compared with anything either: values read back from the trie are bytes, `bytes == str` is always False
    ncmp = 0
    for u in units:
        enc_args = set()
        for c in P.own(u, ast.Call):
            if _is_encode_call(c):
                for a in c.args:
                    for x in ast.walk(a):
                        if isinstance(x, ast.Name):
                            enc_args.add(x.id)
        if not enc_args:
            continue
        cfg = ctx.cfg(u)
        IN = results[u]
        for n in cfg.nodes:
            if n.id not in IN or n.kind == 'for_next':
                continue
            root = node_root(n)
            if root is None:
                continue
            for cmp_ in ast.walk(root):
                if not isinstance(cmp_, ast.Compare) or P.owner_of(u.node, cmp_) is not u.node:
                    continue
                operands = [cmp_.left] + list(cmp_.comparators)
                if any(isinstance(o, ast.Constant) for o in operands) or any(isinstance(op, (ast.Is, ast.IsNot)) for op in cmp_.ops):
                    continue
                raws = [o.id for o in operands if isinstance(o, ast.Name) and o.id in IN[n.id] and o.id in enc_args]
                ncmp += 1
                if raws:
                    rr.ob(ctx.where(u, cmp_), '%s compares only encoded LRUs' % u.qual, ok=False)
                    rr.fail(ctx.finding('R-ENCODED', u, cmp_, '%s compares the raw request value `%s` (`%s`): for a text LRU the comparison with bytes read back from the trie is '
                                        'always False, so e.g. a self-link is not recognised as internal' % (u.qual, raws[0], ast.unparse(cmp_)[:50]),
                                        stmt='%s: raw %s compared' % (u.qual, raws[0])))
    # the RAM table of creation rules is looked up with the (bytes) prefixes read back from the trie: its keys are encoded too
    nkeys = 0
    for u in units:
        cfg = ctx.cfg(u)
        IN = results[u]
        for n in cfg.nodes:
            a = n.ast
            if n.id not in IN or n.kind != 'stmt' or not isinstance(a, ast.Assign):
                continue
            for t in a.targets:
                if isinstance(t, ast.Subscript) and self_attr(t.value) == 'webentity_creation_rules':
                    nkeys += 1
                    raw = _raw_names(P, u, t.slice, IN[n.id])
                    rr.ob(ctx.where(u, a), '%s: the creation-rule table is keyed by an encoded prefix' % u.qual, ok=not raw)
                    if raw:
                        rr.fail(ctx.finding('R-ENCODED', u, a, '%s registers a creation rule under the raw request value `%s`: the table is looked up with the byte prefixes read back from '
                                            'the trie, so a rule given as text is never found again (KeyError when a page below it is added)' % (u.qual, sorted(raw)[0]),
                                            stmt='%s: raw rule key' % u.qual))
    # __encode itself: bytes come back unchanged, text is encoded - nothing else is done to the LRU (no strip, lower, normalisation)
    enc = P.method('Traph', '__encode')
    prm = enc.call_params[0] if enc.call_params else None
    badr = []
    for r_ in P.own(enc, ast.Return):
        v_ = r_.value
        same = isinstance(v_, ast.Name) and v_.id == prm
        encd = isinstance(v_, ast.Call) and isinstance(v_.func, ast.Attribute) and v_.func.attr == 'encode' and isinstance(v_.func.value, ast.Name) and v_.func.value.id == prm
        if isinstance(v_, ast.Name) and v_.id != prm:
            # a result local: every value it is given is the argument itself or the argument encoded
            defs_ = [a.value for a in P.own(enc, ast.Assign) if any(isinstance(t, ast.Name) and t.id == v_.id for t in a.targets)]
            same = bool(defs_) and all((isinstance(d_, ast.Name) and d_.id == prm) or (isinstance(d_, ast.Call) and isinstance(d_.func, ast.Attribute) and d_.func.attr == 'encode'
                                                                                      and isinstance(d_.func.value, ast.Name) and d_.func.value.id in (prm, v_.id)) for d_ in defs_)
        if not (same or encd):
            badr.append(r_)
    def _is_enc(v_):
        return isinstance(v_, ast.Call) and isinstance(v_.func, ast.Attribute) and v_.func.attr == 'encode' and isinstance(v_.func.value, ast.Name) and v_.func.value.id == prm
    rebinds = [a for a in P.own(enc, (ast.Assign, ast.AugAssign)) if prm in names_in_target(a.targets[0] if isinstance(a, ast.Assign) else a.target)
               and not (isinstance(a, ast.Assign) and _is_enc(a.value))]
    rr.ob(ctx.where(enc), '__encode returns its argument itself (bytes) or its argument encoded (text), nothing else', ok=not badr and not rebinds)
    for x in (badr + rebinds)[:1]:
        rr.fail(ctx.finding('R-ENCODED', enc, x, 'Traph.__encode alters the LRU (`%s`): two different submitted LRUs can be stored as one, and the LRU read back is not the LRU submitted'
                            % ast.unparse(x)[:50], stmt='__encode identity'))
    rr.info['comparisons_checked'] = ncmp
    rr.info['rule_keys_checked'] = nkeys
    rr.require(nkeys, 1, 'registrations in the creation-rule table')
    rr.require(nsites, 15, 'LRU arguments handed to the trie')
    rr.info['private_helpers_with_raw_params'] = {t.qual: sorted(v) for t, v in raw_params.items() if is_private(t) and v}


# ------------------------------------------------------------------------------------------------ R-CLOSE
@rule('R-CLOSE')
def close_rule(ctx, rr):
    """Traph.close() closes each of the files __init__ opened, each under the test of its own handle"""
    P = ctx.P
    init = P.method('Traph', '__init__')
    u = P.method('Traph', 'close')
    opened = set()
    for a in P.own(init, ast.Assign):
        if isinstance(a.value, ast.Call) and isinstance(a.value.func, ast.Name) and a.value.func.id == 'open':
            for t in a.targets:
                if self_attr(t):
                    opened.add(self_attr(t))
    if len(opened) < 2:
        raise AnalysisError('R-CLOSE: expected two files opened by Traph.__init__, found %s' % sorted(opened))
    closed = {}
    for c in P.own(u, ast.Call):
        if isinstance(c.func, ast.Attribute) and c.func.attr == 'close' and self_attr(c.func.value):
            closed.setdefault(self_attr(c.func.value), []).append(c)
    # through storage objects: self.<storage>.close() is not in the tree today
    miss = opened - set(closed)
    rr.ob(ctx.where(u), 'Traph.close() closes every file opened by __init__ (%s)' % sorted(opened), ok=not miss)
    if miss:
        rr.fail(ctx.finding('R-CLOSE', u, u.node, 'Traph.close() never closes %s: buffered blocks of that file are not flushed, so a reopen sees a shorter '
                            '(possibly partial-block) file than the other store refers to' % sorted(miss), stmt='close misses %s' % sorted(miss)))
    # every path through close() closes each file, or finds that file's own handle empty.  A path that skips the closes under another
    # attribute (an "already closed" flag) is sound only if every function that opens the files binds that attribute again.
    cfg = ctx.cfg(u)

    def falsy_branch_of(lab, attr):
        """the branch is taken only when the file `attr` needs no closing: its handle is empty, or the handle says it is closed already"""
        if not lab or lab[0] not in ('T', 'F') or lab[1] is None:
            return False

        def exc(t, truth):
            if isinstance(t, ast.UnaryOp) and isinstance(t.op, ast.Not):
                return exc(t.operand, not truth)
            if isinstance(t, ast.BoolOp):
                sub = [exc(v, truth) for v in t.values]
                conj = isinstance(t.op, ast.And)
                return any(sub) if (conj == truth) else all(sub)
            if self_attr(t) == attr:
                return not truth
            if isinstance(t, ast.Attribute) and t.attr == 'closed' and self_attr(t.value) == attr:
                return truth
            if isinstance(t, ast.Compare) and len(t.ops) == 1 and self_attr(t.left) == attr and isinstance(t.comparators[0], ast.Constant) and t.comparators[0].value is None:
                return truth if isinstance(t.ops[0], (ast.Is, ast.Eq)) else not truth
            return False
        return exc(lab[1], lab[0] == 'T')
    for attr in sorted(opened & set(closed)):
        def tr(nd, st, attr=attr):
            root = node_root(nd)
            if root is not None and any(x in closed[attr] for x in ast.walk(root)):
                return True
            return st
        IN = solve_forward(cfg, False, tr, lambda lab, st, attr=attr: True if falsy_branch_of(lab, attr) else st, lambda a, b: a and b)
        okp = IN.get(cfg.exit.id, True)
        flags = set()
        if not okp:
            for i_ in P.own(u, ast.If):
                flags |= {self_attr(x) for x in ast.walk(i_.test) if self_attr(x)} - opened
            openers = [fu for fu in P.require_class('Traph').values()
                       if any(isinstance(a.value, ast.Call) and isinstance(a.value.func, ast.Name) and a.value.func.id == 'open' and any(self_attr(t) in opened for t in a.targets)
                              for a in P.own(fu, ast.Assign))]
            lax = [fu for fu in openers for fl in flags
                   if not any(any(self_attr(t) == fl for t in (a.targets if isinstance(a, ast.Assign) else [a.target])) for a in P.own(fu, (ast.Assign, ast.AugAssign, ast.AnnAssign)))]
            okp = bool(flags) and not lax
        rr.ob(ctx.where(u), 'every path through close() closes self.%s (or finds it empty), or is skipped under a flag that every (re)opening function resets' % attr, ok=okp)
        if not okp:
            who = sorted({fu.qual for fu in lax}) if flags else []
            rr.fail(ctx.finding('R-CLOSE', u, u.node, 'Traph.close() can return without closing self.%s%s: the last buffered blocks of that file never reach the disk, so a reopen sees a shorter '
                                'store than the index that was closed' % (attr, (' (it returns early under %s, which %s does not reset when it reopens the files)' % (sorted(flags), ', '.join(who)))
                                                                          if who else ''), stmt='close path skips %s' % attr))
    gf = None
    for attr, cs in closed.items():
        for c in cs:
            # the guard of a close is the truthiness of the same attribute (or none)
            cur = P.parent.get(id(P.stmt_of(c)))
            st = P.stmt_of(c)
            while cur is not None and cur is not u.node:
                if isinstance(cur, ast.If) and st in cur.body:
                    tested = {self_attr(x) for x in ast.walk(cur.test) if self_attr(x)}
                    ok = tested <= {attr}
                    rr.ob(ctx.where(u, c), 'close of self.%s is guarded by its own handle only' % attr, ok=ok)
                    if not ok:
                        rr.fail(ctx.finding('R-CLOSE', u, c, 'self.%s is closed under a test of %s: whether this file is flushed and closed then depends on the state of another '
                                            'handle, and it can stay open with its last blocks unwritten' % (attr, sorted(tested - {attr}))))
                st = cur
                cur = P.parent.get(id(cur))


# ------------------------------------------------------------------------------------------------ R-DEGREE-FLAGS
DEGREE_FLAGS = {
    'get_page_degree': {'include_inbound': True, 'include_internal': True, 'include_outbound': True},
    'get_page_indegree': {'include_inbound': True, 'include_internal': False, 'include_outbound': False},
    'get_page_outdegree': {'include_inbound': False, 'include_internal': False, 'include_outbound': True},
}


@rule('R-DEGREE-FLAGS')
def degree_flags(ctx, rr):
    """the three page degree helpers ask get_page_links for exactly the directions their name says, on every path"""
    P = ctx.P
    gpl = P.method('Traph', 'get_page_links')
    defaults = gpl.defaults()
    for name, want in DEGREE_FLAGS.items():
        u = P.method('Traph', name)
        calls = [c for c in P.own(u, ast.Call) if gpl in P.targets(c)]
        if not calls:
            rr.ob(ctx.where(u), '%s asks get_page_links for %s' % (name, want), ok=False)
            rr.fail(ctx.finding('R-DEGREE-FLAGS', u, u.node, '%s no longer derives its answer from get_page_links(%s)' % (name, want), stmt='%s: no get_page_links' % name))
            continue
        bad = []
        for c in calls:
            got = {}
            for k in want:
                v = kwarg(c, k)
                if v is None:
                    d = defaults.get(k)
                    got[k] = d.value if isinstance(d, ast.Constant) else None
                else:
                    got[k] = v.value if isinstance(v, ast.Constant) else None
            if got != want:
                bad.append((c, got))
        # every path to a return passes through such a call
        every = must_pass(ctx, u, lambda root: any(c_ in calls for c_ in ast.walk(root)))
        rr.ob(ctx.where(u), '%s asks get_page_links for %s on every answering path (%d call site(s))' % (name, want, len(calls)), ok=not bad and every)
        for c, got in bad:
            rr.fail(ctx.finding('R-DEGREE-FLAGS', u, c, '%s asks get_page_links for %s instead of %s' % (name, got, want)))
        if not every:
            rr.fail(ctx.finding('R-DEGREE-FLAGS', u, u.node, '%s has an answering path that does not consult get_page_links(%s)' % (name, want),
                                stmt='%s: path without get_page_links' % name))
        # the degree counts the rows of that answer (one per link end and direction): nothing is merged or de-duplicated on the way
        dedupe = [c for c in P.own(u, ast.Call) if isinstance(c.func, ast.Name) and c.func.id in ('set', 'frozenset', 'dict')
                  and any(gpl in P.targets(x) for x in ast.walk(c) if isinstance(x, ast.Call))]
        dedupe += [x for x in ast.walk(u.node) if isinstance(x, (ast.SetComp, ast.DictComp)) and any(gpl in P.targets(y) for y in ast.walk(x) if isinstance(y, ast.Call))]
        rr.ob(ctx.where(u), '%s counts every row of the get_page_links answer' % name, ok=not dedupe)
        for c in dedupe[:1]:
            rr.fail(ctx.finding('R-DEGREE-FLAGS', u, c, '%s de-duplicates the rows of get_page_links before counting them (`%s`): a neighbour linked in both directions, or twice, counts '
                                'once, so degree != indegree + outdegree (+ internal)' % (name, ast.unparse(c)[:50]), stmt='%s: rows merged' % name))


# ------------------------------------------------------------------------------------------------ R-PRIMITIVES
PRIMITIVES = [
    # (class, method, what must be reached on every path, predicate on a Call)
    ('LRUTrieNode', 'refresh', 'a re-read of its own block', lambda P, c: any(t.name == 'read' and t.cls == 'LRUTrieNode' for t in P.targets(c))),
    ('LRUTrieNode', 'read', 'a storage read', lambda P, c: any(t.name == 'read' and t.cls in STORAGES for t in P.targets(c))),
    ('LRUTrieNode', 'write', 'a storage write', lambda P, c: any(t.name == 'write' and t.cls in STORAGES for t in P.targets(c))),
    ('LRUTrieHeader', 'write', 'a storage write', lambda P, c: any(t.name == 'write' and t.cls in STORAGES for t in P.targets(c))),
    ('LRUTrieHeader', 'read', 'a storage read', lambda P, c: any(t.name == 'read' and t.cls in STORAGES for t in P.targets(c))),
    ('LinkStoreNode', 'read', 'a storage read', lambda P, c: any(t.name == 'read' and t.cls in STORAGES for t in P.targets(c))),
    ('LinkStoreNode', 'write', 'a storage write', lambda P, c: any(t.name == 'write' and t.cls in STORAGES for t in P.targets(c))),
    ('LinkStoreHeader', 'write', 'a storage write', lambda P, c: any(t.name == 'write' and t.cls in STORAGES for t in P.targets(c))),
]


@rule('R-PRIMITIVES')
def primitives(ctx, rr):
    """the persistence primitives are unconditional: refresh() always re-reads, read() always reads, write() always writes.
    Every freshness / dirty-written verdict rests on that; a primitive that skips its work under some condition ("not grown
    since", "equal to the remembered copy") lets a stale copy through or loses an update."""
    P = ctx.P
    n = 0
    for cls, name, what, pred in PRIMITIVES:
        if P.method_of(cls, name) is None:
            raise AnalysisError('R-PRIMITIVES: anchor vanished: %s.%s' % (cls, name))
        u = P.method(cls, name)
        n += 1
        ok = must_pass(ctx, u, lambda root: any(isinstance(c, ast.Call) and P.owner_of(u.node, c) is u.node and pred(P, c) for c in ast.walk(root)))
        # a path that raises instead is fine (must_pass looks at normal exits only)
        rr.ob(ctx.where(u), '%s.%s reaches %s on every path to a normal return' % (cls, name, what), ok=ok)
        if not ok:
            rr.fail(ctx.finding('R-PRIMITIVES', u, u.node, '%s.%s can return without %s: callers rely on it unconditionally (a skipped refresh lets a stale copy be written back, '
                                'a skipped write loses the update)' % (cls, name, what), stmt='%s.%s conditional' % (cls, name)))
    # refresh() gives the block as it is on disk: nothing of the old copy survives the re-read (no field of the node is assigned in
    # refresh itself; what read() assigns is the block)
    for cls in ('LRUTrieNode', 'LinkStoreNode'):
        if P.method_of(cls, 'refresh') is None:
            continue
        u = P.method(cls, 'refresh')
        own = []
        for a in P.own(u, (ast.Assign, ast.AugAssign, ast.AnnAssign)):
            tgs = a.targets if isinstance(a, ast.Assign) else [a.target]
            for t in tgs:
                if any(self_attr(x) for x in ast.walk(t)):
                    own.append(a)
        rr.ob(ctx.where(u), '%s.refresh keeps nothing of the old copy' % cls, ok=not own)
        for a in own[:1]:
            rr.fail(ctx.finding('R-PRIMITIVES', u, a, '%s.refresh changes the node after re-reading it (`%s`): part of the stale copy is merged back into the fresh block, so a flag or '
                                'pointer another request changed meanwhile is restored to its old value at the next write' % (cls, ast.unparse(a)[:50]), stmt='%s.refresh merges' % cls))
    # <node>.read(block) reads that block: the first storage read of the method is addressed with the parameter itself
    for cls in ('LRUTrieNode', 'LinkStoreNode'):
        u = P.method(cls, 'read')
        bp = u.call_params[0] if u.call_params else None
        sreads = sorted([c for c in P.own(u, ast.Call) if any(t.name == 'read' and t.cls in STORAGES for t in P.targets(c))], key=lambda c: (c.lineno, c.col_offset))
        okb = bool(sreads) and len(sreads[0].args) + len(sreads[0].keywords) == 1 and \
            isinstance((sreads[0].args + [k.value for k in sreads[0].keywords])[0], ast.Name) and (sreads[0].args + [k.value for k in sreads[0].keywords])[0].id == bp
        rebound = any(bp in names_in_target(t) for a in P.own(u, ast.Assign) for t in a.targets if a.lineno < (sreads[0].lineno if sreads else 0))
        rr.ob(ctx.where(u), '%s.read(%s) addresses the storage with that block' % (cls, bp), ok=okb and not rebound)
        if not (okb and not rebound):
            rr.fail(ctx.finding('R-PRIMITIVES', u, sreads[0] if sreads else u.node, '%s.read does not read the block it was given (`%s`): it relies on where the storage cursor happens to '
                                'be, which differs between back-ends and moves with every write' % (cls, ast.unparse(sreads[0])[:50] if sreads else 'no storage read'), stmt='%s.read address' % cls))
    rr.require(n, 8, 'persistence primitives')


# ------------------------------------------------------------------------------------------------ R-NULL-THRESHOLD
def _null_threshold(CE, mod, test):
    """smallest value NOT caught by a null test `x < K` / `x <= K` / `K > x` / `not x >= K` / `x == 0` / `not x`; None if not of that form"""
    from ..consts import UNKNOWN
    neg = False
    while isinstance(test, ast.UnaryOp) and isinstance(test.op, ast.Not):
        neg = not neg
        test = test.operand
    if isinstance(test, ast.Name):
        return 1 if neg else None
    if not (isinstance(test, ast.Compare) and len(test.ops) == 1):
        return None
    l, r = test.left, test.comparators[0]
    lv, rv = CE.ev(mod, l), CE.ev(mod, r)
    op = type(test.ops[0])
    if isinstance(rv, int) and not isinstance(rv, bool) and lv is UNKNOWN:
        k = rv
    elif isinstance(lv, int) and not isinstance(lv, bool) and rv is UNKNOWN:
        k = lv
        op = {ast.Lt: ast.Gt, ast.LtE: ast.GtE, ast.Gt: ast.Lt, ast.GtE: ast.LtE}.get(op, op)
    else:
        return None
    if neg:
        op = {ast.Lt: ast.GtE, ast.LtE: ast.Gt, ast.Gt: ast.LtE, ast.GtE: ast.Lt, ast.Eq: ast.NotEq, ast.NotEq: ast.Eq}.get(op, op)
    if op is ast.Lt:
        return k
    if op is ast.LtE:
        return k + 1
    if op is ast.Eq and k == 0:
        return 1
    return None


@rule('R-NULL-THRESHOLD')
def null_threshold(ctx, rr):
    """a pointer accessor treats as NULL / refuses only values below the first data block of the store it points into: a larger
    threshold hides (or refuses) the first real block - the root page, the first stub"""
    from ..consts import const_env
    P = ctx.P
    CE = const_env(ctx)
    trie_first = CE.require('traph.lru_trie.node', 'LRU_TRIE_FIRST_DATA_BLOCK')
    link_first = CE.require('traph.link_store.node', 'LINK_STORE_FIRST_DATA_BLOCK')
    n = 0
    for cls in ('LRUTrieNode', 'LinkStoreNode'):
        for name, u in P.require_class(cls).items():
            for s in P.own(u, ast.If):
                if not s.body or not isinstance(s.body[0], (ast.Return, ast.Raise)):
                    continue
                if isinstance(s.body[0], ast.Return) and not (s.body[0].value is None or (isinstance(s.body[0].value, ast.Constant) and s.body[0].value.value in (None, False))):
                    continue
                t = _null_threshold(CE, u.module, s.test)
                if t is None:
                    continue
                points_into_links = cls == 'LinkStoreNode' and 'previous' in name
                limit = link_first if points_into_links else trie_first
                n += 1
                ok = 1 <= t <= limit
                rr.ob(ctx.where(u, s), '%s.%s treats blocks below %d as NULL (first data block of the pointed store: %d)' % (cls, name, t, limit), ok=ok)
                if not ok:
                    rr.fail(ctx.finding('R-NULL-THRESHOLD', u, s, '%s.%s treats every block below %d as NULL / invalid, but block %d is the first real block of the store it points into: '
                                        'a link to (or a pointer at) that block disappears' % (cls, name, t, limit), stmt='%s.%s threshold' % (cls, name)))
    rr.require(n, 11, 'NULL-threshold tests in pointer accessors')


# ------------------------------------------------------------------------------------------------ R-NEAREST-WE
@rule('R-NEAREST-WE')
def nearest_we(ctx, rr):
    """an upward walk that resolves THE webentity of a node takes the first (deepest) one it meets: a scalar bound from
    <ancestor>.webentity() inside a loop over node_parents_iter must end the walk, or be bound only while still empty"""
    from ..guards import guard_facts
    P = ctx.P
    n = 0
    for u in P.units:
        for lp in P.own(u, ast.For):
            if not (isinstance(lp.iter, ast.Call) and any(t.name == 'node_parents_iter' for t in P.targets(lp.iter))):
                continue
            n += 1
            lv = set(names_in_target(lp.target))
            cfg = ctx.cfg(u)
            head = [x for x in cfg.nodes if x.loop is lp]
            gf = None
            bad = []
            def we_call(e):
                return isinstance(e, ast.Call) and isinstance(e.func, ast.Attribute) and e.func.attr == 'webentity' and isinstance(e.func.value, ast.Name) \
                    and e.func.value.id in lv
            for a in ast.walk(lp):
                if not (isinstance(a, ast.Assign) and len(a.targets) == 1 and isinstance(a.targets[0], ast.Name) and any(we_call(x) for x in ast.walk(a.value))):
                    continue
                var = a.targets[0].id
                if gf is None:
                    gf = guard_facts(ctx, u)
                facts = gf.facts_at(a.value) or set()
                empty_guard = any((f[0] == 'F' and f[1] == var) or (f[0] == 'T' and f[1].replace(' ', '') in (var + 'isNone', 'not' + var)) for f in facts)
                v_ = a.value
                if not we_call(v_):
                    # `var = var or p.webentity()` / `var = var if var else p.webentity()` keep the first one; the mirrored forms prefer the ancestor
                    is_var = lambda e: isinstance(e, ast.Name) and e.id == var
                    if isinstance(v_, ast.BoolOp) and isinstance(v_.op, ast.Or) and len(v_.values) == 2 and is_var(v_.values[0]) and we_call(v_.values[1]):
                        empty_guard = True
                    elif isinstance(v_, ast.IfExp) and is_var(v_.test) and is_var(v_.body) and we_call(v_.orelse):
                        empty_guard = True
                    elif isinstance(v_, ast.IfExp) and isinstance(v_.test, ast.UnaryOp) and isinstance(v_.test.op, ast.Not) and is_var(v_.test.operand) and we_call(v_.body) \
                            and is_var(v_.orelse):
                        empty_guard = True
                    elif not any(is_var(x) for x in ast.walk(v_)) and not isinstance(v_, (ast.BoolOp, ast.IfExp)):
                        continue        # something computed from the ancestor's webentity, not the resolution result itself
                # does control come back to the loop head after the assignment?
                start = [x for x in cfg.nodes if x.ast is a]
                back = False
                seen, work = set(), list(start)
                while work:
                    x = work.pop()
                    for y, lab in x.succ:
                        if head and y is head[0]:
                            back = True
                        elif y.id not in seen and y.ast is not None and _inside(P, y.ast, lp):
                            seen.add(y.id)
                            work.append(y)
                # a per-iteration temporary (collected into a set, compared and forgotten) is not a resolution result:
                # only a value that is read after the walk is
                live_out = any(isinstance(x, ast.Name) and x.id == var and isinstance(x.ctx, ast.Load) and not _inside(P, x, lp) for x in ast.walk(u.node))
                if back and not empty_guard and live_out:
                    bad.append((a, var))
            rr.ob(ctx.where(u, lp), '%s: the upward walk keeps the first webentity it meets' % u.qual, ok=not bad)
            for a, var in bad:
                rr.fail(ctx.finding('R-NEAREST-WE', u, a, '%s keeps walking up after binding `%s` from an ancestor and re-binds it at every webentity met: the outermost webentity '
                                    'wins instead of the nearest one (nested webentities are attributed to their parent)' % (u.qual, var)))
    rr.require(n, 3, 'upward walks (loops over node_parents_iter)')


# ------------------------------------------------------------------------------------------------ R-NO-SWALLOW
def _handler_reraises(P, h):
    """does every path through the handler body end in a raise?"""
    def ends(stmts):
        if not stmts:
            return False
        last = stmts[-1]
        if isinstance(last, ast.Raise):
            return True
        if isinstance(last, ast.If):
            return bool(last.orelse) and ends(last.body) and ends(last.orelse)
        return False
    return ends(h.body)


@rule('R-NO-SWALLOW')
def no_swallow(ctx, rr):
    """a refusal of the library (TraphException, the node usage / traversal exceptions) raised below a `try` is not caught and
    dropped inside the package: the caller must see it.  May-raise sets are computed over the typed call graph."""
    P = ctx.P
    exc_classes = set()
    for name, node in P.class_node.items():
        if any(isinstance(b, ast.Name) and (b.id.endswith('Exception') or b.id.endswith('Error')) for b in node.bases):
            exc_classes.add(name)
    if len(exc_classes) < 4:
        raise AnalysisError('R-NO-SWALLOW: only %d exception classes found in the package' % len(exc_classes))
    direct = {}
    for u in P.units:
        s = set()
        for r in P.own(u, ast.Raise):
            e = r.exc
            if isinstance(e, ast.Call):
                e = e.func
            if isinstance(e, ast.Name) and e.id in exc_classes:
                s.add(e.id)
        direct[u] = s
    may = {u: set(v) for u, v in direct.items()}
    changed = True
    while changed:
        changed = False
        for u in P.units:
            for t in P.calls[u]:
                add = may.get(t, set()) - may[u]
                if add:
                    may[u] |= add
                    changed = True
    ntry = 0
    for u in P.units:
        for t in P.own(u, ast.Try):
            ntry += 1
            body_raises = set()
            for s_ in t.body:
                for x in ast.walk(s_):
                    if isinstance(x, ast.Call) and P.owner_of(u.node, x) is u.node:
                        for tg in P.targets(x):
                            body_raises |= may.get(tg, set())
                    if isinstance(x, ast.Raise) and P.owner_of(u.node, x) is u.node:
                        e = x.exc.func if isinstance(x.exc, ast.Call) else x.exc
                        if isinstance(e, ast.Name) and e.id in exc_classes:
                            body_raises.add(e.id)
            for h in t.handlers:
                types = []
                if h.type is None:
                    types = None
                else:
                    for x in (h.type.elts if isinstance(h.type, ast.Tuple) else [h.type]):
                        types.append(ast.unparse(x))
                broad = types is None or any(x in ('Exception', 'BaseException') for x in types)
                caught = set(body_raises) if broad else (body_raises & set(types))
                ok = not caught or _handler_reraises(P, h)
                rr.ob(ctx.where(u, h), '%s: handler `except %s` does not drop a library refusal (the guarded code can raise %s)'
                      % (u.qual, ', '.join(types) if types else '<anything>', sorted(body_raises) or 'none'), ok=ok)
                if not ok:
                    rr.fail(ctx.finding('R-NO-SWALLOW', u, h, '%s catches %s raised by the code it guards and does not re-raise it: the refusal (unknown prefix, wrong owner, '
                                        'corrupted file, invalid pointer) is silently turned into a normal answer' % (u.qual, sorted(caught))))
    rr.require(ntry, 2, 'try statements')
    rr.info['exception_classes'] = sorted(exc_classes)
    rr.info['functions_that_may_refuse'] = sum(1 for v in may.values() if v)


# ------------------------------------------------------------------------------------------------ R-WRAPPERS
@rule('R-WRAPPERS')
def wrappers(ctx, rr):
    """the synchronous twin of a resumable request forwards every argument to the parameter of the same name: a swapped or
    dropped switch makes the two entry points of one request answer differently"""
    from ..dataflow import bound_args
    P = ctx.P
    n = 0
    for name, u in P.require_class('Traph').items():
        if u.is_gen:
            continue
        for c in P.own(u, ast.Call):
            if not (isinstance(c.func, ast.Name) and c.func.id == 'run_iterator' and c.args and isinstance(c.args[0], ast.Call)):
                continue
            inner = c.args[0]
            tg = [t for t in P.targets(inner) if t.cls == 'Traph' and t.is_gen]
            if len(tg) != 1:
                continue
            g = tg[0]
            n += 1
            mine = [p for p in u.call_params]
            bad = []
            forwarded = set()
            for pname, expr in bound_args(g, inner):
                if isinstance(expr, ast.Name) and expr.id in mine:
                    forwarded.add(expr.id)
                    if pname in mine and expr.id != pname:
                        bad.append('`%s` is passed as `%s`' % (expr.id, pname))
                elif pname in mine and not (isinstance(expr, ast.Name) and expr.id == pname):
                    # the twin has the switch but the wrapper passes something else
                    if not any(isinstance(x, ast.Name) and x.id == pname for x in ast.walk(expr)):
                        bad.append('`%s` of the request is replaced by `%s`' % (pname, ast.unparse(expr)[:30]))
            if g.name == name + '_iter':
                for p in mine:
                    if p in g.call_params and p not in forwarded and not any(pn == p for pn, _ in bound_args(g, inner)):
                        bad.append('`%s` is not forwarded' % p)
            rr.ob(ctx.where(u, c), '%s forwards its arguments to %s under their own names' % (u.qual, g.qual), ok=not bad)
            for b in bad:
                rr.fail(ctx.finding('R-WRAPPERS', u, c, '%s -> %s: %s: the synchronous and the resumable entry point of the same request answer differently' % (u.qual, g.qual, b)))
    rr.require(n, 10, 'run_iterator wrappers')


# ------------------------------------------------------------------------------------------------ R-NODE-ALIAS
@rule('R-NODE-ALIAS')
def node_alias(ctx, rr):
    """the trie walks hand out ONE node object that they re-read for every block: a consumer that keeps the object (in a
    list, dict, set, tuple, attribute) instead of what it needs from it ends up with N references to the last block"""
    P = ctx.P
    n = 0
    for u in P.units:
        for lp in P.own(u, ast.For):
            if not (isinstance(lp.iter, ast.Call) and any(t.is_gen and t.cls in ('LRUTrie', 'Traph') for t in P.targets(lp.iter))):
                continue
            # loop variables that are trie nodes
            nodes = set()
            for nm in ast.walk(lp.target):
                if isinstance(nm, ast.Name) and any(z[0] == 'inst' and z[1] == 'LRUTrieNode' for z in P.ev(u, nm)):
                    nodes.add(nm.id)
            if not nodes:
                continue
            n += 1
            bad = []

            def holds(e):
                """e evaluates to something that contains the node object itself"""
                if isinstance(e, ast.Name):
                    return e.id in nodes
                if isinstance(e, (ast.Tuple, ast.List, ast.Set)):
                    return any(holds(x) for x in e.elts)
                if isinstance(e, ast.Dict):
                    return any(holds(x) for x in e.values if x is not None)
                return False
            for x in ast.walk(lp):
                if P.owner_of(u.node, x) is not u.node:
                    continue
                if isinstance(x, ast.Call) and isinstance(x.func, ast.Attribute) and x.func.attr in ('append', 'add', 'insert', 'extend', 'setdefault', 'update', 'appendleft') \
                        and any(holds(a) for a in x.args) and not any(t.cls for t in P.targets(x)):
                    bad.append(x)
                if isinstance(x, ast.Assign) and holds(x.value):
                    for t in x.targets:
                        if isinstance(t, ast.Subscript) or (isinstance(t, ast.Attribute) and self_attr(t)):
                            bad.append(x)
                if isinstance(x, ast.Call) and isinstance(x.func, ast.Attribute) and x.func.attr in ('heappush', 'heappushpop') and any(holds(a) for a in x.args[1:]):
                    bad.append(x)
            rr.ob(ctx.where(u, lp), '%s keeps no reference to the shared traversal node `%s` beyond the iteration' % (u.qual, ', '.join(sorted(nodes))), ok=not bad)
            for x in bad:
                rr.fail(ctx.finding('R-NODE-ALIAS', u, x, '%s stores the traversal node object handed out by `%s`: the walk re-reads that one object for every block, so every stored '
                                    'reference ends up describing the last block visited' % (u.qual, ast.unparse(lp.iter)[:50])))
    rr.require(n, 15, 'loops over a trie walk that hand out the traversal node')


# ------------------------------------------------------------------------------------------------ R-EVERY-ITEM
@rule('R-EVERY-ITEM')
def every_item(ctx, rr):
    """the batch writers register every item they are given: in every round of a loop that submits pages, each
    __add_page() site of the loop is executed, or skipped only because its own "already seen in this batch" test says so"""
    P = ctx.P
    target = P.method('Traph', '__add_page')
    n = 0
    for fname in ('add_pages', 'add_links', 'index_batch_crawl_iter'):
        u = P.method('Traph', fname)
        cfg = ctx.cfg(u)
        calls = [c for c in P.own(u, ast.Call) if target in P.targets(c)]
        if not calls:
            raise AnalysisError('R-EVERY-ITEM: %s no longer submits pages through __add_page' % u.qual)
        for c in calls:
            # nearest enclosing loop
            lp = P.parent.get(id(c))
            guard = None

            def membership(t):
                """(is a membership test, it is true when the item is NEW)"""
                neg = False
                while isinstance(t, ast.UnaryOp) and isinstance(t.op, ast.Not):
                    neg = not neg
                    t = t.operand
                if isinstance(t, ast.Compare) and len(t.ops) == 1 and isinstance(t.ops[0], (ast.NotIn, ast.In)):
                    return True, isinstance(t.ops[0], ast.NotIn) != neg
                # single-lookup idiom: x = D.get(key); if x is None: <new>
                if isinstance(t, ast.Compare) and len(t.ops) == 1 and isinstance(t.ops[0], (ast.Is, ast.IsNot)) and isinstance(t.left, ast.Name) \
                        and isinstance(t.comparators[0], ast.Constant) and t.comparators[0].value is None:
                    src = [a.value for a in P.own(u, ast.Assign) if any(isinstance(tt, ast.Name) and tt.id == t.left.id for tt in a.targets)]
                    if src and any(isinstance(v, ast.Call) and isinstance(v.func, ast.Attribute) and v.func.attr == 'get' for v in src):
                        return True, isinstance(t.ops[0], ast.Is) != neg
                if isinstance(t, ast.Name):
                    src = [a.value for a in P.own(u, ast.Assign) if any(isinstance(tt, ast.Name) and tt.id == t.id for tt in a.targets)]
                    if src and any(isinstance(v, ast.Call) and isinstance(v.func, ast.Attribute) and v.func.attr == 'get' for v in src):
                        return True, neg          # `if not x:` -> new when true
                    # a named membership test: `is_new = key not in seen; if is_new:`
                    if len(src) == 1 and isinstance(src[0], (ast.Compare, ast.UnaryOp)):
                        m_, new_ = membership(src[0])
                        if m_:
                            return True, new_ != neg
                return False, None
            while lp is not None and not isinstance(lp, (ast.For, ast.While)):
                if guard is None and isinstance(lp, ast.If) and membership(lp.test)[0]:
                    guard = lp
                lp = P.parent.get(id(lp))
            if lp is None:
                raise AnalysisError('R-EVERY-ITEM: %s submits a page outside any loop' % u.qual)
            n += 1
            head = [x for x in cfg.nodes if x.loop is lp][0]
            gtest = guard.test if guard is not None else None
            seen_branch = None
            if gtest is not None:
                new_when_true = membership(gtest)[1]
                in_body = any(_inside(P, c, s_) for s_ in guard.body)
                in_else = any(_inside(P, c, s_) for s_ in guard.orelse)
                if in_body and new_when_true:
                    seen_branch = 'F'
                elif in_else and not new_when_true:
                    seen_branch = 'T'

            def tr(nd, st):
                if nd is head:
                    return False
                root = node_root(nd)
                if root is not None and any(x is c for x in ast.walk(root)):
                    return True
                return st

            def refine(lab, st):
                if gtest is not None and seen_branch is not None and lab[0] == seen_branch and lab[1] is gtest:
                    return True
                return st
            IN = solve_forward(cfg, False, tr, refine, lambda a, b: a and b)
            bad = None
            for pnode, lab in head.pred:
                if pnode.id not in IN or not (pnode.ast is not None and any(_inside(P, pnode.ast, s_) for s_ in lp.body)):
                    continue
                out = tr(pnode, IN[pnode.id])
                if lab is not None and lab[0] in ('T', 'F'):
                    out = refine(lab, out)
                if not out:
                    bad = pnode
            rr.ob(ctx.where(u, c), '%s: every round of the loop at line %d reaches `%s` (or its already-seen test)' % (u.qual, lp.lineno, ast.unparse(c)[:50]), ok=bad is None)
            if bad is not None:
                rr.fail(ctx.finding('R-EVERY-ITEM', u, bad.ast if isinstance(bad.ast, ast.AST) else c,
                                    '%s can finish a round of its batch loop without submitting the item to `%s`: the page (source of an empty batch entry, already existing '
                                    'inner node, ...) is never registered / flagged' % (u.qual, ast.unparse(c)[:50]), stmt='%s: item skipped before %s' % (u.qual, ast.unparse(c.args[0])[:30] if c.args else '?')))
    rr.require(n, 3, '__add_page sites in batch loops')


# ------------------------------------------------------------------------------------------------ R-RETURN-SHAPE
@rule('R-RETURN-SHAPE')
def return_shape(ctx, rr):
    """a function whose callers unpack its result returns a tuple of the same arity on every path: `return None` next to
    `return node, history` fails (TypeError) exactly on the rare path that takes it"""
    P = ctx.P
    n = 0
    for u in P.units:
        if u.is_gen:
            continue
        rets = list(P.own(u, ast.Return))
        ar = {}
        for r in rets:
            v = r.value
            if isinstance(v, ast.Tuple):
                ar.setdefault(len(v.elts), []).append(r)
            elif v is None or (isinstance(v, ast.Constant)):
                ar.setdefault('scalar', []).append(r)
        tuples = [k for k in ar if k != 'scalar']
        if not tuples:
            continue
        n += 1
        # is the result unpacked by some caller?
        unpacked = False
        for cu in P.units:
            for a in P.own(cu, (ast.Assign, ast.For)):
                val = a.value if isinstance(a, ast.Assign) else a.iter
                tg = a.targets[0] if isinstance(a, ast.Assign) else a.target
                if isinstance(val, ast.Call) and u in P.targets(val) and isinstance(tg, (ast.Tuple, ast.List)):
                    unpacked = True
        bad = []
        if len(tuples) > 1:
            bad = ar[sorted(tuples)[-1]]
        elif 'scalar' in ar and unpacked:
            bad = ar['scalar']
        # a position that holds the same freshly constructed object in every other return is not None in one of them: callers
        # dereference it without a test (`history.webentity` after `node, history = follow_lru(...)`)
        if len(tuples) == 1 and unpacked:
            k_ = tuples[0]
            from ..dataflow import single_defs as _sdefs
            sd_ = _sdefs(P, u)
            for pos in range(k_):
                elts = [(r, r.value.elts[pos]) for r in ar[k_]]
                names = {e.id for _, e in elts if isinstance(e, ast.Name)}
                nones = [r for r, e in elts if isinstance(e, ast.Constant) and e.value is None]
                if len(names) == 1 and nones and len(names) + 0 and all(isinstance(e, ast.Name) or (isinstance(e, ast.Constant) and e.value is None) for _, e in elts):
                    nm = list(names)[0]
                    d_ = sd_.get(nm)
                    if isinstance(d_, ast.Call) and any(t.name == '__init__' for t in P.targets(d_)):
                        bad += nones
        rr.ob(ctx.where(u), '%s returns %s-tuples on every path' % (u.qual, tuples[0]), ok=not bad)
        for r in bad:
            rr.fail(ctx.finding('R-RETURN-SHAPE', u, r, '%s returns `%s` on this path but a %s-tuple of (always present) objects elsewhere, and its callers unpack and use the '
                                'result without a test: the path raises TypeError / AttributeError instead of reporting its outcome' % (u.qual, ast.unparse(r)[:40], tuples[0])))
    rr.require(n, 5, 'functions returning tuples')


# ------------------------------------------------------------------------------------------------ R-GEN-DRAINED
@rule('R-GEN-DRAINED')
def gen_drained(ctx, rr):
    """calling a generator function only creates the generator: a call whose value is dropped (an expression statement) runs
    nothing of its body, so the writes / registrations the request stands for never happen"""
    P = ctx.P
    n = 0
    for u in P.units:
        for c in P.own(u, ast.Call):
            tg = P.targets(c)
            if not tg or not all(t.is_gen for t in tg):
                continue
            n += 1
            par = P.parent.get(id(c))
            dropped = isinstance(par, ast.Expr)
            rr.ob(ctx.where(u, c), '%s: the generator made by `%s` is consumed' % (u.qual, ast.unparse(c.func)[:50]), ok=not dropped)
            if dropped:
                rr.fail(ctx.finding('R-GEN-DRAINED', u, c, '%s calls the generator function %s and drops the result: the body never runs (nothing is written, registered or '
                                    'reported); the draining twin or run_iterator() was meant' % (u.qual, sorted(t.qual for t in tg)[0])))
    rr.require(n, 60, 'calls of generator functions')


# ------------------------------------------------------------------------------------------------ R-YIELD-NEUTRAL
@rule('R-YIELD-NEUTRAL')
def yield_neutral(ctx, rr):
    """a cooperative yield point (`if state.should_yield(k): yield state`) only hands control back: what an iteration does with
    its item does not depend on whether the counter happened to hit the threshold in that round"""
    P = ctx.P
    n = 0
    for u in P.units:
        if not u.is_gen:
            continue
        for i in P.own(u, ast.If):
            calls = [c for c in ast.walk(i.test) if isinstance(c, ast.Call) and isinstance(c.func, ast.Attribute) and c.func.attr == 'should_yield']
            if not calls:
                continue
            n += 1
            only_yield = all(isinstance(s, ast.Expr) and isinstance(s.value, ast.Yield) for s in i.body)
            lone_test = i.test is calls[0]
            # `if A and state.should_yield(k):` is `if A: if state.should_yield(k):` - the yield point sits in a branch, as some do
            if not lone_test and isinstance(i.test, ast.BoolOp) and isinstance(i.test.op, ast.And) and i.test.values[-1] is calls[0] \
                    and not any(isinstance(c_, ast.Call) and c_ is not calls[0] and isinstance(c_.func, ast.Attribute) and c_.func.attr == 'should_yield' for c_ in ast.walk(i.test)):
                lone_test = True
            ok = only_yield and not i.orelse and lone_test
            if not ok and isinstance(i.test, ast.UnaryOp) and isinstance(i.test.op, ast.Not) and i.test.operand is calls[0] and not i.orelse \
                    and len(i.body) == 1 and isinstance(i.body[0], ast.Continue):
                # `if not state.should_yield(k): continue` followed by nothing but the yield, at the end of a loop body
                par = P.parent.get(id(i))
                if isinstance(par, (ast.For, ast.While)) and i in par.body:
                    rest = par.body[par.body.index(i) + 1:]
                    ok = bool(rest) and all(isinstance(s, ast.Expr) and isinstance(s.value, ast.Yield) for s in rest)
            rr.ob(ctx.where(u, i), '%s: the yield point at line %d does nothing but yield' % (u.qual, i.lineno), ok=ok)
            if not ok:
                what = 'an else/elif branch runs only in the rounds that do not yield' if i.orelse else \
                    ('the yield shares its test with another condition' if not lone_test else 'the yielding round also runs `%s`' % ast.unparse([s for s in i.body if not (isinstance(s, ast.Expr) and isinstance(s.value, ast.Yield))][0])[:40])
                rr.fail(ctx.finding('R-YIELD-NEUTRAL', u, i, '%s: %s: the item visited in a round that yields (every k-th node) is treated differently from the others and can be '
                                    'dropped from the answer' % (u.qual, what)))
    rr.require(n, 12, 'cooperative yield points')


# ------------------------------------------------------------------------------------------------ R-LAZY-REQUEST
@rule('R-LAZY-REQUEST')
def lazy_request(ctx, rr):
    """a resumable request touches the index only while it is being advanced: every Traph.*_iter entry point is itself a generator
    (nothing runs at creation), or a pure forwarder.  Work done at creation time (a node looked up or written, then handed to the
    generator) is stale by the first step when another request ran in between."""
    P = ctx.P
    n = 0
    INDEX = ('LRUTrie', 'LinkStore', 'LRUTrieNode', 'LinkStoreNode', 'LRUTrieHeader', 'LinkStoreHeader', 'FileStorage', 'MemoryStorage', 'MemMapStorage')
    for name, u in P.require_class('Traph').items():
        if not name.endswith('_iter'):
            continue
        n += 1
        prefix_stmts = getattr(P.inliner, 'eager_prefix', {}).get('Traph.' + name) if getattr(P, 'inliner', None) is not None else None
        if u.is_gen and prefix_stmts:
            # written as a non-generator wrapper around an inner generator (put back together by the inliner): the wrapper's own
            # statements run at creation time.  They are source statements without types: index access is recognised by shape
            # (self.<index object>.<method>(...), self.<private method>(...)) and by the effect summary of the methods of that name.
            by_name = {}
            for t in P.units:
                by_name.setdefault(t.name, []).append(t)
            bad_ = []
            names_ = set()
            for st_ in prefix_stmts:
                for c in ast.walk(st_):
                    if not (isinstance(c, ast.Call) and isinstance(c.func, ast.Attribute)):
                        continue
                    recv_ = ast.unparse(c.func.value)
                    mname = c.func.attr
                    if mname.endswith('__encode') or not recv_.startswith('self'):
                        continue
                    cands = [t for t in by_name.get(mname, []) + by_name.get(mname.replace('_Traph', ''), []) if t.cls in INDEX or t.cls == 'Traph']
                    if not cands:
                        continue
                    writes_ = any(ctx.E.writes[t] for t in cands)
                    assigned = isinstance(st_, ast.Assign) and any(x is c for x in ast.walk(st_.value))
                    if writes_ or assigned:
                        bad_.append((st_, c))
            rr.ob(ctx.where(u), '%s: the wrapper around the inner generator touches the index only through the generator' % u.qual, ok=not bad_)
            for st_, c in bad_[:2]:
                rr.fail(ctx.finding('R-LAZY-REQUEST', u, u.node, '%s runs `%s` when the request is created, not when it is advanced: what it reads or writes then (a node copy, a '
                                    'pointer) is stale by the first step if another request is advanced in between, and is written back over the newer block'
                                    % (u.qual, ast.unparse(c)[:50]), stmt='%s: eager %s' % (u.qual, c.func.attr)))
            continue
        if u.is_gen:
            rr.ob(ctx.where(u), '%s is a generator: nothing runs before the first step' % u.qual, ok=True)
            continue
        eager = [c for c in P.own(u, ast.Call) if any(not t.is_gen and (t.cls in INDEX or (t.cls == 'Traph' and t.name not in ('__encode',))) for t in P.targets(c))]
        # what matters: a write at creation time, or a value obtained from the index then and handed to the generator
        handed = set()
        for r_ in P.own(u, ast.Return):
            if r_.value is not None:
                handed |= {x.id for x in ast.walk(r_.value) if isinstance(x, ast.Name)}

        def result_names(c):
            st_ = P.stmt_of(c)
            if isinstance(st_, ast.Assign):
                return {x.id for t_ in st_.targets for x in ast.walk(t_) if isinstance(x, ast.Name)}
            return set()
        eager = [c for c in eager if any(ctx.E.writes[t] for t in P.targets(c)) or (result_names(c) & handed) or isinstance(P.stmt_of(c), ast.Return)]
        rr.ob(ctx.where(u), '%s is not a generator: it must only forward to one' % u.qual, ok=not eager)
        for c in eager[:2]:
            rr.fail(ctx.finding('R-LAZY-REQUEST', u, c, '%s runs `%s` when the request is created, not when it is advanced: what it reads or writes then (a node copy, a pointer) is stale by the '
                                'first step if another request is advanced in between, and is written back over the newer block' % (u.qual, ast.unparse(c)[:50])))
    rr.require(n, 12, 'resumable entry points (Traph.*_iter)')


# ------------------------------------------------------------------------------------------------ R-FORMAT-ARITY
_FMT = None


def _conversions(text):
    """number of values a %-format literal consumes (None when it uses mapping keys)"""
    import re
    global _FMT
    if _FMT is None:
        _FMT = re.compile(r'%(\([^)]*\))?[#0\- +]*(\*|\d+)?(?:\.(\*|\d+))?[hlL]?([diouxXeEfFgGcrsab%])')
    if isinstance(text, bytes):
        text = text.decode('latin-1')
    n = 0
    for m in _FMT.finditer(text):
        if m.group(4) == '%':
            continue
        if m.group(1):
            return None
        n += 1 + (m.group(2) == '*') + (m.group(3) == '*')
    return n


SCALAR_BUILTINS = {'len', 'str', 'int', 'repr', 'float', 'hex', 'bytes', 'bool', 'abs', 'ord', 'chr', 'type', 'id', 'sum', 'min', 'max'}


@rule('R-FORMAT-ARITY')
def format_arity(ctx, rr):
    """a message built with `literal % values` gets as many values as the literal has conversions: otherwise building the
    message raises TypeError exactly on the path that wanted to raise the library's own error (or to warn)"""
    P = ctx.P
    n = 0
    for u in P.units:
        for b in P.own(u, ast.BinOp):
            if not (isinstance(b.op, ast.Mod) and isinstance(b.left, ast.Constant) and isinstance(b.left.value, (str, bytes))):
                continue
            want = _conversions(b.left.value)
            if want is None:
                continue
            r = b.right
            if isinstance(r, ast.Tuple) and not any(isinstance(e, ast.Starred) for e in r.elts):
                got = len(r.elts)
            elif isinstance(r, ast.Constant) or (isinstance(r, ast.Call) and isinstance(r.func, ast.Name) and r.func.id in SCALAR_BUILTINS) \
                    or (isinstance(r, ast.BinOp) and not isinstance(r.op, ast.Mod)) or isinstance(r, ast.JoinedStr):
                got = 1
            else:
                continue        # a name / attribute / call that may hold a tuple: not decided
            n += 1
            ok = got == want
            rr.ob(ctx.where(u, b), '%s: format literal with %d conversion(s) gets %d value(s)' % (u.qual, want, got), ok=ok)
            if not ok:
                rr.fail(ctx.finding('R-FORMAT-ARITY', u, b, '%s formats `%s` (%d conversions) with %d value(s): building the message raises TypeError, so the request fails with a foreign error '
                                    'instead of the refusal / warning it was about to issue' % (u.qual, str(b.left.value)[:40], want, got)))
    # the count may legitimately be zero (messages moved to str.format / f-strings): the counter itself is exercised on every run
    probe = [_conversions('a %s b %i%%'), _conversions(b'%5.2f|%*d'), _conversions('%(k)s')]
    if probe != [2, 3, None]:
        raise AnalysisError('R-FORMAT-ARITY: conversion counter self-test failed: %s' % probe)
    rr.info['decidable_sites'] = n


# ------------------------------------------------------------------------------------------------ R-SINGLE-PASS
CONSUMERS = {'list', 'tuple', 'set', 'frozenset', 'sorted', 'dict', 'enumerate', 'zip', 'map', 'filter', 'iter', 'reversed', 'sum', 'min', 'max', 'any', 'all'}


@rule('R-SINGLE-PASS')
def single_pass(ctx, rr):
    """a batch handed to a request as a plain iterable (only ever iterated: never indexed, measured or asked for items()) is
    walked once: a second pass over a generator / cursor argument finds it exhausted and silently does nothing"""
    P = ctx.P
    n = 0
    for name, u in P.require_class('Traph').items():
        if name.startswith('__'):
            continue
        for prm in u.call_params:
            uses = [x for x in P.own(u, ast.Name) if x.id == prm and isinstance(x.ctx, ast.Load)]
            if not uses:
                continue

            def site_kind(x):
                par = P.parent.get(id(x))
                if isinstance(par, ast.For) and par.iter is x:
                    return 'iter'
                if isinstance(par, ast.comprehension) and par.iter is x:
                    return 'iter'
                if isinstance(par, ast.Call) and isinstance(par.func, ast.Name) and par.func.id in CONSUMERS and x in par.args:
                    return 'iter'
                return 'other'
            kinds = [site_kind(x) for x in uses]
            if 'iter' not in kinds or 'other' in kinds:
                continue        # not a batch, or used as a sequence / mapping / forwarded (the callee is checked on its own)
            n += 1
            cfg = ctx.cfg(u)
            iter_ids = {id(x) for x, k in zip(uses, kinds) if k == 'iter'}
            second = []

            def tr(nd, st, report=False):
                root = node_root(nd)
                if root is None:
                    return st
                hit = [x for x in ast.walk(root) if id(x) in iter_ids]
                for x in hit:
                    if st >= 1 and report:
                        second.append(x)
                    st = min(st + 1, 2)
                if nd.kind == 'stmt' and prm in names_assigned(nd):
                    v_ = getattr(nd.ast, 'value', None)
                    solid = isinstance(v_, (ast.List, ast.Tuple, ast.ListComp, ast.SetComp, ast.DictComp, ast.Dict, ast.Set)) or \
                        (isinstance(v_, ast.Call) and isinstance(v_.func, ast.Name) and v_.func.id in ('list', 'tuple', 'sorted', 'set', 'dict', 'frozenset'))
                    st = -1000 if solid else 0          # materialised: may be walked again; otherwise a new one-shot value
                return st
            IN = solve_forward(cfg, 0, lambda nd, st: tr(nd, st), lambda lab, st: st, max)
            for nd in cfg.nodes:
                if nd.id in IN:
                    tr(nd, IN[nd.id], True)
            rr.ob(ctx.where(u), '%s walks its batch argument `%s` once' % (u.qual, prm), ok=not second)
            for x in second[:1]:
                rr.fail(ctx.finding('R-SINGLE-PASS', u, x, '%s iterates its argument `%s` a second time: the argument is only ever iterated, so callers may pass a generator or a cursor, which '
                                    'the first pass exhausts - the second pass then does nothing and what it was to record (links, pages) is silently lost' % (u.qual, prm)))
    rr.require(n, 4, 'batch arguments of facade requests')
