"""E6 table rules, part 1: R-OPEN-TABLE, R-CLEAR-AGREE, R-BST-AGREE, R-PARENT-PAIR, R-ALLOC, R-ANCESTOR-FLAG, R-TRACK-AGREE,
R-PAGE-REPORT."""
import ast
import re

from ..core import rule
from ..program import AnalysisError
from ..abpe import ABPE
from ..effects import TRIE_NODE, STORAGES


def self_attr_name(e):
    return e.attr if isinstance(e, ast.Attribute) and isinstance(e.value, ast.Name) and e.value.id == 'self' else None


def invariant_defs(ctx, u, stmts):
    """assignments of u, outside the region `stmts`, that define a name the region reads, exactly once, from request parameters,
    constants and other such names only (no package call): executing them before the region gives the region's atoms their meaning
    (`need_outlinks = include_outbound or include_internal` hoisted out of a loop)"""
    from ..dataflow import single_defs
    P = ctx.P
    region_nodes = set()
    for s_ in stmts:
        for x in ast.walk(s_):
            region_nodes.add(id(x))
    read = {x.id for s_ in stmts for x in ast.walk(s_) if isinstance(x, ast.Name) and isinstance(x.ctx, ast.Load)}
    bound = {n_ for s_ in stmts for x in ast.walk(s_) if isinstance(x, (ast.Assign, ast.AugAssign, ast.For, ast.AnnAssign))
             for t in (x.targets if isinstance(x, ast.Assign) else [x.target]) for n_ in _names(t)}
    defs = single_defs(P, u)
    out, done = [], set(u.params)
    changed = True
    while changed:
        changed = False
        for name, val in defs.items():
            if name in done or name in bound or name not in read:
                continue
            if any(isinstance(c, ast.Call) and any(t.cls or t.module.startswith('traph') for t in P.targets(c)) for c in ast.walk(val)):
                continue
            if isinstance(val, (ast.Call, ast.Attribute, ast.Subscript, ast.List, ast.Dict, ast.Set, ast.ListComp)):
                continue
            used = {x.id for x in ast.walk(val) if isinstance(x, ast.Name)}
            if used & bound:
                continue
            st = [a for a in P.own(u, ast.Assign) if a.value is val]
            if st and id(st[0]) not in region_nodes:
                out.append(st[0])
                done.add(name)
                changed = True
    out.sort(key=lambda a: a.lineno)
    return out


def _names(t):
    return [x.id for x in ast.walk(t) if isinstance(x, ast.Name)]


def tables(ctx, u, stmts=None, iters=None, keep=None, env=None, max_paths=60000, hoist=False):
    if iters is None:
        iters = 2 if ctx.tier == 'thorough' else 1
    if hoist and stmts is not None:
        stmts = invariant_defs(ctx, u, list(stmts)) + list(stmts)
    from ..consts import const_env, UNKNOWN
    CE = const_env(ctx)
    mod = u.module

    def resolver(name):
        if not (name.isupper() or (name.startswith('_') and name[1:].isupper())) or name in u.params:
            return None
        v = CE.get(mod, name)
        if v is UNKNOWN or isinstance(v, (list, dict)):
            return None
        return (v,)
    ex = ABPE(loop_iters=iters, mutator_names={k[1] for k in ctx.E.mutators}, keep=keep, max_paths=max_paths, const_resolver=resolver)
    rows = ex.run(stmts if stmts is not None else u.node.body, env)
    return rows


def base(txt):
    """strip version marks: node#2.stem() -> node.stem()"""
    import re
    return re.sub(r'#\d+', '', txt or '')


def first_idx(row, pred):
    for i, e in enumerate(row.events):
        if pred(e):
            return i
    return None


# ------------------------------------------------------------------------------------------------ R-OPEN-TABLE
@rule('R-OPEN-TABLE')
def open_table(ctx, rr):
    P = ctx.P
    u = P.method('Traph', '__init__')
    names = {'open', 'FileStorage', 'MemoryStorage', 'check_for_corruption', 'LRUTrie', 'LinkStore', 'add_webentity_creation_rule', 'isfile'}
    rows = tables(ctx, u, iters=1, keep=lambda n, c: n in names)
    isfile_keys = []
    for r in rows:
        for k in r.order:
            if 'isfile' in k and k.startswith(('truthy:', 'isnone:')) and k not in isfile_keys:
                isfile_keys.append(k)
    if len(isfile_keys) != 2:
        raise AnalysisError('R-OPEN-TABLE: expected two file-existence atoms in Traph.__init__, found %s' % isfile_keys)
    n_file = n_mem = 0
    seen = set()

    def fail(row, ev, msg):
        node = ev.node if ev is not None else u.node
        rr.fail(ctx.finding('R-OPEN-TABLE', u, node, msg, detail={'row': row.show()[:600]}))
    # the folder: a failing makedirs is swallowed exactly when the folder is already there (EEXIST and a directory); anything else is
    # re-raised - otherwise an existing index cannot be reopened, or a real failure is ignored
    hrows = [r for r in rows if any(k.startswith('exc@') and v for k, v in r.val.items())]
    badh = None
    for r in hrows:
        eex = [v for k, v in r.val.items() if 'EEXIST' in k and k.startswith(('EQ:', 'ORD:'))]
        isd = [v for k, v in r.val.items() if 'isdir' in k]
        if not eex:
            continue
        eexv = eex[-1] if isinstance(eex[-1], bool) else (eex[-1] == 'EQ')
        bare = [e for e in r.events if e.kind == 'raise' and e.name is None]
        exists = bool(eexv) and bool(isd and isd[-1])
        decided = (eexv is False) or bool(isd)
        if decided and bool(bare) == exists and badh is None:
            badh = (r, 'the failure is %s although the folder %s' % ('re-raised' if bare else 'swallowed', 'already exists as a directory' if exists else 'could not be created'))
    if hrows:
        rr.ob(ctx.where(u), 'a failing makedirs is swallowed exactly for an already existing directory (%d handler rows)' % len(hrows), ok=badh is None)
        if badh is not None:
            fail(badh[0], None, 'folder creation: ' + badh[1] + ': reopening an existing index fails with the OS error (or a real failure goes unnoticed) instead of opening it')

    for r in rows:
        if r.val.get('exc@80') or any(k.startswith('exc@') and v for k, v in r.val.items()):
            continue      # makedirs failure branch: not part of the open table
        folder = r.val.get('truthy:folder')
        if folder is None:
            continue      # constructor refused its arguments before looking at the folder
        opens = r.calls('open')
        raises = [e for e in r.events if e.kind == 'raise']
        ctors = r.calls(('LRUTrie', 'LinkStore'))
        regs = r.calls('add_webentity_creation_rule')
        if folder and r.val.get('isnone:folder') is not True:
            e1, e2 = r.val.get(isfile_keys[0]), r.val.get(isfile_keys[1])
            if e1 is None or e2 is None:
                fail(r, None, 'a path of the file branch does not look at both store files before deciding how to open')
                continue
            ow = r.val.get('truthy:overwrite')
            proj = (e1, e2, ow, tuple((k, v) for k, v in r.val.items() if 'check_for_corruption' in k))
            key = ('file',) + proj
            n_file += 1
            if e1 != e2:
                ok = bool(raises) and raises[0].name == 'TraphException' and not opens and not ctors
                if key not in seen:
                    rr.ob(ctx.where(u), 'exactly one store file exists (trie=%s, links=%s, overwrite=%s) -> TraphException before any open' % (e1, e2, ow), ok=ok)
                if not ok:
                    fail(r, (opens or ctors or [None])[0], 'a folder holding only one of the two store files is not refused with TraphException before the files are opened (overwrite=%s)' % ow)
                seen.add(key)
                continue
            modes = [o.args[1] if len(o.args) > 1 else None for o in opens]

            def _fold_mode(m):
                import re as _rem
                while isinstance(m, str):
                    mt = _rem.match(r"^\((.+) if (True|False) else (.+)\)$", m)
                    if not mt:
                        break
                    m = mt.group(1) if mt.group(2) == 'True' else mt.group(3)
                return m
            modes = [_fold_mode(m) for m in modes]
            if e1 and e2 and ow is None:
                fail(r, opens[0] if opens else None, 'existing store files are opened without consulting the overwrite request')
                seen.add(key)
                continue
            want = "'wb+'" if (ow or (not e1 and not e2)) else "'rb+'"
            ok = len(opens) == 2 and modes[0] == modes[1] == want
            if key not in seen:
                rr.ob(ctx.where(u), 'both exist=%s overwrite=%s -> both files opened with mode %s' % (e1, ow, want), ok=ok)
            if not ok:
                fail(r, opens[0] if opens else None, 'store files are opened with modes %s where %s is required (existing files must be reopened without '
                     'truncation; new or overwritten ones created)' % (modes, want))
                seen.add(key)
                continue
            if want == "'rb+'":
                checks = [(k, v) for k, v in r.val.items() if 'check_for_corruption' in k]
                if ctors:
                    ok = len(checks) == 2 and all(v is False for k, v in checks)
                    if key not in seen:
                        rr.ob(ctx.where(u), 'reopen: trie and link store are built only after both corruption checks said clean', ok=ok)
                    if not ok:
                        fail(r, ctors[0], 'an existing index is opened without consulting the block-size corruption check of both files')
                    elif min(first_idx(r, lambda e: e is c) for c in ctors) < max(first_idx(r, lambda e: e.kind == 'call' and e.name == 'check_for_corruption') or 0, 0):
                        fail(r, ctors[0], 'the stores are built before the corruption checks')
                else:
                    ok = any(v is True for k, v in checks) and bool(raises) and raises[0].name == 'TraphException'
                    if key not in seen:
                        rr.ob(ctx.where(u), 'reopen: a corrupted file (partial block) -> TraphException', ok=ok)
                    if not ok:
                        fail(r, None, 'a store file with a partial block is not refused with TraphException')
            for g in regs:
                exp = 'True' if want == "'wb+'" else 'False'
                ok = len(g.args) >= 3 and g.args[2] == exp
                if key + ('reg',) not in seen:
                    rr.ob(ctx.where(u, g.node), 'rules are registered with write_in_trie=%s when the files are %s' % (exp, 'fresh' if exp == 'True' else 'reopened'), ok=ok)
                    seen.add(key + ('reg',))
                if not ok:
                    fail(r, g, 'creation rules given to the constructor are registered with write_in_trie=%s although the index is %s'
                         % (g.args[2] if len(g.args) >= 3 else 'default', 'freshly created (rules must be written)' if exp == 'True' else 'reopened (rules are already in the trie)'))
            seen.add(key)
        else:
            if not r.calls('MemoryStorage') and not r.val.get('isnone:folder'):
                continue
            if r.val.get('isnone:folder'):
                continue      # infeasible: truthy folder that is None (assert)
            n_mem += 1
            ok = len(r.calls('MemoryStorage')) == 2 and not opens and len(ctors) == 2
            if ('mem',) not in seen:
                rr.ob(ctx.where(u), 'no folder -> two MemoryStorage, no file opened, both structures built', ok=ok)
                seen.add(('mem',))
            if not ok:
                fail(r, None, 'the in-memory branch does not build two MemoryStorage and both structures')
            for g in regs:
                ok = len(g.args) >= 3 and g.args[2].replace(' ', '') in ('True', 'write_in_trie=True')
                if ('mem', 'reg') not in seen:
                    rr.ob(ctx.where(u, g.node), 'an in-memory index is always fresh: rules are registered with write_in_trie=True', ok=ok)
                    seen.add(('mem', 'reg'))
                if not ok:
                    fail(r, g, 'an in-memory index is always freshly created, but the creation rules given to the constructor are registered with '
                         'write_in_trie=%s: the rule anchors are never written and the rules never apply (a fresh on-disk index writes them)'
                         % (g.args[2] if len(g.args) >= 3 else 'default'))
    if n_file < 8 or n_mem < 1:
        raise AnalysisError('R-OPEN-TABLE: table of Traph.__init__ too small (%d file rows, %d memory rows)' % (n_file, n_mem))
    rr.info.update({'rows': len(rows), 'file_rows': n_file, 'memory_rows': n_mem})


# ------------------------------------------------------------------------------------------------ R-CLEAR-AGREE
@rule('R-CLEAR-AGREE')
def clear_agree(ctx, rr):
    P = ctx.P
    u = P.method('Traph', 'clear')
    names = {'open', 'clear', 'LRUTrie', 'LinkStore', 'add_webentity_creation_rule', 'close'}
    rows = tables(ctx, u, iters=1, keep=lambda n, c: n in names)
    seen = set()
    for r in rows:
        mem = r.val.get('truthy:self.in_memory')
        if mem is None:
            rr.fail(ctx.finding('R-CLEAR-AGREE', u, u.node, 'clear() no longer distinguishes the in-memory and the file back-end', stmt='clear branches'))
            continue
        opens = r.calls('open')
        clears = r.calls('clear')
        ctors = r.calls(('LRUTrie', 'LinkStore'))
        stores = [e for e in r.events if e.kind == 'store']
        if mem:
            ok = len(clears) == 2 and len({base(c.recv) for c in clears}) == 2 and not opens
            what = 'memory: both storages are cleared'
        else:
            modes = [o.args[1] if len(o.args) > 1 else None for o in opens]
            rebound = {s.name for s in stores if s.name and s.name.endswith('.file')}
            ok = len(opens) == 2 and all(m == "'wb+'" for m in modes) and len(rebound) == 2
            what = 'file: both files are reopened truncated ("wb+") and both storages are pointed to the new files'
            # the handles close() will close are the new ones: the attributes __init__ bound to open() are bound again
            init_ = P.method('Traph', '__init__')
            handle_attrs = {'self.' + self_attr_name(t) for a in P.own(init_, ast.Assign) if isinstance(a.value, ast.Call) and isinstance(a.value.func, ast.Name)
                            and a.value.func.id == 'open' for t in a.targets if self_attr_name(t)}
            kept = handle_attrs - {s.name for s in stores if s.name}
            if ok and handle_attrs and kept and (mem, 'handles') not in seen:
                seen.add((mem, 'handles'))
                rr.ob(ctx.where(u), 'clear() binds the new handles to the attributes close() closes (%s)' % sorted(handle_attrs), ok=False)
                rr.fail(ctx.finding('R-CLEAR-AGREE', u, opens[0].node, 'clear() reopens the files but leaves %s pointing at the old handles: close() then closes the old ones only, the blocks '
                                    'buffered in the new handles never reach the disk (and a second clear flushes stale content into the fresh files)' % sorted(kept),
                                    stmt='clear keeps old handles'))
        if (mem, 'reset') not in seen:
            rr.ob(ctx.where(u), what, ok=ok)
            seen.add((mem, 'reset'))
        if not ok:
            rr.fail(ctx.finding('R-CLEAR-AGREE', u, (opens + clears + [None])[0].node if (opens + clears) else u.node,
                                'clear() does not reset both stores on the %s back-end' % ('memory' if mem else 'file'), stmt='clear reset %s' % mem))
        reset_idx = max([first_idx(r, lambda e, c=c: e is c) for c in (clears if mem else opens)] or [-1])
        ok = len(ctors) == 2 and {c.name for c in ctors} == {'LRUTrie', 'LinkStore'} and all(first_idx(r, lambda e, c=c: e is c) > reset_idx for c in ctors)
        if (mem, 'rebuild') not in seen:
            rr.ob(ctx.where(u), 'trie and link store are re-constructed (headers rewritten) after the reset', ok=ok)
            seen.add((mem, 'rebuild'))
        if not ok:
            rr.fail(ctx.finding('R-CLEAR-AGREE', u, u.node, 'clear() does not rebuild both structures after resetting the stores', stmt='clear rebuild %s' % mem))
        for g in r.calls('add_webentity_creation_rule'):
            ok = len(g.args) >= 3 and g.args[2].replace(' ', '') in ('True', 'write_in_trie=True')
            if 'reg' not in seen:
                rr.ob(ctx.where(u, g.node), 'rules given to clear() are written into the emptied trie (write_in_trie=True)', ok=ok)
                seen.add('reg')
            if not ok:
                rr.fail(ctx.finding('R-CLEAR-AGREE', u, g.node, 'rules given to clear() are not written into the emptied trie'))
            if not ctors or first_idx(r, lambda e: e is g) < max(first_idx(r, lambda e, c=c: e is c) for c in ctors):
                rr.fail(ctx.finding('R-CLEAR-AGREE', u, g.node, 'rules are registered before the structures were rebuilt: they are written through the discarded trie object into the '
                                    'emptied store (no header block yet), so the first rule lands where the header belongs', stmt='clear registers before rebuild'))
    # the old handles are closed (flushed) before the files are truncated: a buffered write flushed afterwards lands in the new file
    for r in rows:
        opens = r.calls('open')
        closes = r.calls('close')
        if not opens:
            continue
        i_open = min(first_idx(r, lambda e, c=c: e is c) for c in opens)
        okc = bool(closes) and min(first_idx(r, lambda e, c=c: e is c) for c in closes) < i_open
        if 'close-first' not in seen:
            rr.ob(ctx.where(u), 'file: the old handles are closed before the files are reopened truncated', ok=okc)
            seen.add('close-first')
        if not okc:
            rr.fail(ctx.finding('R-CLEAR-AGREE', u, opens[0].node, 'clear() truncates the store files before (or without) closing the old handles: blocks still buffered in the old '
                                'handles are flushed into the emptied files, so the cleared index shows phantom pages and links', stmt='clear close-before-open'))
    # the rule patterns are compiled the same way wherever they are installed (constructor, clear, rule installation)
    comp = {}
    for name2, fu in P.require_class('Traph').items():
        for c in P.own(fu, ast.Call):
            if ast.unparse(c.func) == 're.compile':
                flags = tuple(ast.unparse(a) for a in c.args[1:]) + tuple(ast.unparse(k.value) if k.arg == 'flags' else '%s=%s' % (k.arg, ast.unparse(k.value)) for k in c.keywords)
                comp.setdefault(flags, []).append((fu, c))
    if not comp:
        raise AnalysisError('R-CLEAR-AGREE: no re.compile call found in Traph')
    major = max(comp.items(), key=lambda kv: len(kv[1]))[0]
    okf = len(comp) == 1
    rr.ob(ctx.where(u), 'creation-rule patterns are compiled with the same flags %s at all %d sites' % (list(major), sum(len(v) for v in comp.values())), ok=okf)
    if not okf:
        for flags, sites in comp.items():
            if flags != major:
                for fu, c in sites:
                    rr.fail(ctx.finding('R-CLEAR-AGREE', fu, c, '%s compiles a creation rule with flags %s while the other sites use %s: the same rule matches differently depending on '
                                        'whether it was installed by the constructor, by clear() or later' % (fu.qual, list(flags), list(major))))
    # clear() rebuilds the trie and the link store objects: whatever __init__ derived from them and kept on the Traph must be derived
    # again, otherwise the Traph goes on using a part (header, node) of the discarded structure
    init = P.method('Traph', '__init__')
    rebuilt = {self_attr_name(t) for a in P.own(u, ast.Assign) for t in a.targets if self_attr_name(t)}
    derived = {}
    for a in P.own(init, ast.Assign):
        for t in a.targets:
            nm = self_attr_name(t)
            if not nm:
                continue
            srcs = {self_attr_name(x) for x in ast.walk(a.value) if self_attr_name(x)}
            if srcs & {'lru_trie', 'link_store'} and nm not in ('lru_trie', 'link_store'):
                derived[nm] = a
    for nm, a in derived.items():
        okd = nm in rebuilt
        rr.ob(ctx.where(init, a), 'self.%s, derived from the trie / link store by __init__, is derived again by clear()' % nm, ok=okd)
        if not okd:
            rr.fail(ctx.finding('R-CLEAR-AGREE', init, a, 'Traph.__init__ keeps `self.%s = %s`, a part of the trie / link store object that clear() discards and rebuilds, but clear() does not '
                                'bind it again: after a clear the Traph works on the old object (e.g. the old header with the old webentity-id counter, written over the fresh one)'
                                % (nm, ast.unparse(a.value)[:50]), stmt='clear derived %s' % nm))
    # optional rule arguments of clear() are told apart from "not given" by None-ness: b"" and {} are legitimate values
    for prm in u.call_params:
        tr = any(('truthy:' + prm) in r.val for r in rows)
        rr.ob(ctx.where(u), 'clear(%s=...) is tested with `is not None`' % prm, ok=not tr)
        if tr:
            rr.fail(ctx.finding('R-CLEAR-AGREE', u, u.node, 'clear() tests its argument `%s` for truthiness: an empty rule (b"" / {}) given to clear() is ignored and the old rules '
                                'survive the clear' % prm, stmt='clear %s none-ness' % prm))
    # ... and each optional argument is looked at on every path that completes, whatever the other one says; when it is given it is
    # installed (the attribute is bound again)
    for prm, attr in (('default_webentity_creation_rule', 'self.default_webentity_creation_rule'), ('webentity_creation_rules', 'self.webentity_creation_rules')):
        if prm not in u.call_params:
            continue
        badp = None
        for r in rows:
            if r.outcome not in ('return', 'fall') or any(e.kind == 'raise' for e in r.events):
                continue
            keys = [k for k in r.val if k.split(':', 1)[-1] == prm]
            if not keys:
                badp = (r, 'is not looked at on a path that completes (%s)' % ', '.join('%s=%s' % kv for kv in list(r.val.items())[:3]))
                break
            given = any((k.startswith('isnone:') and r.val[k] is False) or (k.startswith('truthy:') and r.val[k] is True) for k in keys)
            if given and not any(e.kind == 'store' and e.name == attr for e in r.events):
                badp = (r, 'is given but `%s` is not bound again' % attr)
                break
        rr.ob(ctx.where(u), 'clear(%s=...) is honoured on every completing path, independently of the other arguments' % prm, ok=badp is None)
        if badp is not None:
            rr.fail(ctx.finding('R-CLEAR-AGREE', u, u.node, 'clear(): argument `%s` %s: the cleared index keeps the old rules and differs from a fresh index given the same arguments'
                                % (prm, badp[1]), detail={'row': badp[0].show()[:400]}, stmt='clear honours %s' % prm))
    # the rule table installed by clear() is the Traph's own object: binding the caller's dict itself makes add_webentity_creation_rule write the
    # compiled patterns (and the encoded prefixes) into the dict it is iterating over and into the caller's data
    for a in P.own(u, ast.Assign):
        if any(self_attr_name(t) == 'webentity_creation_rules' for t in a.targets):
            alias = isinstance(a.value, ast.Name) and a.value.id in u.call_params
            rr.ob(ctx.where(u, a), 'clear() installs a rule table of its own (not the caller\'s dict object)', ok=not alias)
            if alias:
                rr.fail(ctx.finding('R-CLEAR-AGREE', u, a, 'clear() binds self.webentity_creation_rules to its argument `%s` itself: the rules registered next are written into the dict '
                                    'being iterated and into the caller\'s data (compiled patterns in place of the bytes), so giving the same rules again - to a reopened or fresh '
                                    'index - no longer builds the same index' % a.value.id, stmt='clear rule table alias'))
    # each reopened file is plugged into the storage __init__ built on it (the trie storage gets the trie file)
    pair_init = {}
    for a in P.own(init, ast.Assign):
        if len(a.targets) == 1 and self_attr_name(a.targets[0]) and isinstance(a.value, ast.Call) and any(t.cls == 'FileStorage' for t in P.targets(a.value)):
            for x in list(a.value.args) + [k.value for k in a.value.keywords]:
                if self_attr_name(x):
                    pair_init[self_attr_name(a.targets[0])] = self_attr_name(x)
    npair = 0
    for a in P.own(u, ast.Assign):
        t = a.targets[0] if len(a.targets) == 1 else None
        if isinstance(t, ast.Attribute) and t.attr == 'file' and self_attr_name(t.value) and self_attr_name(a.value):
            npair += 1
            st_, fl_ = self_attr_name(t.value), self_attr_name(a.value)
            okp = pair_init.get(st_) == fl_ or st_ not in pair_init
            rr.ob(ctx.where(u, a), 'clear(): self.%s gets the file __init__ built it on (self.%s)' % (st_, pair_init.get(st_)), ok=okp)
            if not okp:
                rr.fail(ctx.finding('R-CLEAR-AGREE', u, a, 'clear() plugs self.%s into self.%s, which __init__ built on self.%s: after a clear the trie is written into the link store file '
                                    'and vice versa, so the folder cannot be reopened' % (fl_, st_, pair_init.get(st_))))
    mc = P.classes['MemoryStorage'].get('clear')
    if mc is None:
        raise AnalysisError('anchor vanished: MemoryStorage.clear')
    attrs = ctx.E.storage_data_attrs['MemoryStorage']
    okc = False
    for a in P.own(mc, (ast.Assign, ast.Delete, ast.Call)):
        if isinstance(a, ast.Assign) and any(ast.unparse(t) in ['self.' + x for x in attrs] for t in a.targets):
            okc = isinstance(a.value, ast.Call) and not a.value.args and not a.value.keywords
        elif isinstance(a, ast.Call) and isinstance(a.func, ast.Attribute) and a.func.attr == 'clear' and ast.unparse(a.func.value) in ['self.' + x for x in attrs]:
            okc = True
        elif isinstance(a, ast.Delete):
            okc = all(ast.unparse(t).replace(' ', '') in ['self.%s[:]' % x for x in attrs] for t in a.targets)
            if not okc:
                break
    rr.ob(ctx.where(mc), 'MemoryStorage.clear discards every block (header included), like truncating a file', ok=okc)
    # ... and a new memory store starts as empty as a newly created file: the header ensure step writes the header only into a store
    # that has no block 0 yet
    mi = P.classes['MemoryStorage'].get('__init__')
    if mi is None:
        raise AnalysisError('anchor vanished: MemoryStorage.__init__')
    # the attributes that hold the blocks: those clear() empties
    block_attrs = set()
    for a in P.own(mc, (ast.Assign, ast.Delete, ast.Call)):
        if isinstance(a, ast.Assign):
            block_attrs |= {ast.unparse(t) for t in a.targets if ast.unparse(t).startswith('self.') and isinstance(a.value, ast.Call)}
        elif isinstance(a, ast.Call) and isinstance(a.func, ast.Attribute) and a.func.attr == 'clear':
            block_attrs.add(ast.unparse(a.func.value))
        elif isinstance(a, ast.Delete):
            block_attrs |= {ast.unparse(t.value) for t in a.targets if isinstance(t, ast.Subscript)}
    inits = [a for a in P.own(mi, ast.Assign) if any(ast.unparse(t) in block_attrs for t in a.targets)]
    oki = bool(inits) and all((isinstance(a.value, ast.Call) and not a.value.args and not a.value.keywords) or (isinstance(a.value, ast.Constant) and a.value.value in (b'', ''))
                              for a in inits)
    rr.ob(ctx.where(mi), 'a new MemoryStorage holds no block, like a file that was just created', ok=oki)
    if not oki:
        rr.fail(ctx.finding('R-CLEAR-AGREE', mi, inits[0] if inits else mi.node, 'MemoryStorage starts with `%s` instead of an empty array: the header ensure step finds block 0 present and '
                            'never writes the real header, so an in-memory index differs from a fresh on-disk one (version stamp, header bytes) until the first clear()'
                            % (ast.unparse(inits[0].value)[:40] if inits else '?'), stmt='memory init'))
    if not okc:
        rr.fail(ctx.finding('R-CLEAR-AGREE', mc, mc.node, 'MemoryStorage.clear does not discard the whole store: after Traph.clear() the in-memory index keeps old blocks '
                            '(e.g. the header with its webentity-id counter) while a cleared file index starts empty', stmt='MemoryStorage.clear'))
    if len(rows) < 4:
        raise AnalysisError('R-CLEAR-AGREE: table of Traph.clear too small')
    rr.info['rows'] = len(rows)


# ------------------------------------------------------------------------------------------------ BST family
def search_loops(ctx):
    """while-loops of LRUTrie that move along both sibling pointers: [(unit, loop, receiver var)]"""
    P = ctx.P
    out = []
    for u in P.units:
        if u.cls != 'LRUTrie':
            continue
        for w in P.own(u, ast.While):
            recv = {}
            for c in ast.walk(w):
                if isinstance(c, ast.Call) and isinstance(c.func, ast.Attribute) and c.func.attr in ('read_left', 'read_right') \
                        and isinstance(c.func.value, ast.Name):
                    recv.setdefault(c.func.value.id, set()).add(c.func.attr)
            for r, s in recv.items():
                out.append((u, w, r))      # any loop that moves along a sibling pointer is a sibling search
    return out


def query_of(rows, R):
    """the text compared with R.stem() in the region"""
    qs = set()
    rs = R + '.stem()'
    for r in rows:
        for k in r.val:
            if k.startswith('ORD:') or k.startswith('EQ:'):
                a, b = k.split(':', 1)[1].replace(' == ', ' ? ').split(' ? ')
                if base(a) == rs:
                    qs.add(b)
                elif base(b) == rs:
                    qs.add(a)
    return qs


def rel_to_node(row, Q, R):
    for k in row.val:
        if k.startswith('ORD:'):
            a, b = k[4:].split(' ? ')
            if base(a) == R + '.stem()' and b == Q:
                return row.ord(Q, a)
            if base(b) == R + '.stem()' and a == Q:
                return row.ord(Q, b)
    return None


@rule('R-BST-AGREE')
def bst_agree(ctx, rr):
    """every sibling search compares full stems with one strict order: equal -> found, smaller -> left, larger -> right, a
    missing pointer -> miss; the insert side attaches on the side the search would look at"""
    P = ctx.P
    loops = search_loops(ctx)
    if not loops:
        raise AnalysisError('R-BST-AGREE: no sibling search loop found in LRUTrie')
    sigs = []
    for u, w, R in loops:
        rows = tables(ctx, u, stmts=w.body, iters=1, keep=lambda n, c: n in ('read_left', 'read_right', 'has_left', 'has_right', 'stem'))
        qs = query_of(rows, R)
        if len(qs) != 1:
            rr.ob(ctx.where(u, w), 'search loop compares the node stem with exactly one query value', ok=False)
            rr.fail(ctx.finding('R-BST-AGREE', u, w, 'sibling search does not decide by one ordering comparison of the query stem with the full '
                                'node stem (compared values: %s)' % sorted(qs)))
            continue
        Q = list(qs)[0]
        found, miss = set(), set()
        bad = []
        for r in rows:
            rel = rel_to_node(r, Q, R)
            reads = [e.name for e in r.calls(('read_left', 'read_right')) if e.var == R]
            sig = (r.outcome, tuple(base(e.text) for e in r.events if e.kind == 'return'))
            if rel is None:
                bad.append((r, 'a path through the search loop does not compare the query with the node stem'))
                continue
            if rel == 'EQ':
                if reads:
                    bad.append((r, 'equal stems but the search moves on'))
                found.add(sig)
                continue
            side = 'left' if rel == 'LT' else 'right'
            other = 'right' if rel == 'LT' else 'left'
            has = [v for k, v in r.val.items() if base(k) == '%s.has_%s()' % (R, side)]
            if not has:
                bad.append((r, 'query %s than the node but has_%s() is not consulted' % ('smaller' if rel == 'LT' else 'larger', side)))
                continue
            if has[-1]:
                if reads != ['read_' + side]:
                    bad.append((r, 'query %s than the node must follow the %s pointer, but does %s' % ('smaller' if rel == 'LT' else 'larger', side, reads)))
                if r.outcome not in ('fall', 'continue', 'again'):
                    bad.append((r, 'the search does not continue after moving to the %s sibling' % side))
            else:
                if reads:
                    bad.append((r, 'no %s sibling but the search moves (%s)' % (side, reads)))
                miss.add(sig)
        if found & miss:
            bad.append((rows[0], 'found and not-found leave the loop the same way (%s)' % sorted(found & miss)))
        ok = not bad
        rr.ob(ctx.where(u, w), 'sibling search in %s: EQ -> found, query<node -> left, query>node -> right, NULL -> miss (%d rows, query `%s`)'
              % (u.qual, len(rows), Q), ok=ok, rows=len(rows))
        for r, msg in bad:
            node = (r.calls(('read_left', 'read_right')) or [None])[0]
            rr.fail(ctx.finding('R-BST-AGREE', u, node.node if node else w, 'sibling search of %s disagrees with the strict stem order: %s' % (u.qual, msg),
                                detail={'row': r.show()[:500]}))
        sigs.append(u.qual)
    # attach side
    n_attach = 0
    for u, w, R in loops:
        if not any(isinstance(c, ast.Call) and isinstance(c.func, ast.Attribute) and c.func.attr in ('set_left', 'set_right') for c in ast.walk(u.node)):
            continue
        rows = tables(ctx, u, iters=1, keep=lambda n, c: n in ('read_left', 'read_right', 'set_left', 'set_right', 'write', 'node', 'set_parent', 'stem', 'set_stem'))
        qs = query_of(rows, R)
        if len(qs) != 1:
            continue
        Q = list(qs)[0]
        for r in rows:
            sets = [e for e in r.calls(('set_left', 'set_right')) if e.var == R]
            rel = rel_to_node(r, Q, R)
            if not sets:
                continue
            n_attach += 1
            side = sets[0].name[4:]
            has = [v for k, v in r.val.items() if base(k) == '%s.has_%s()' % (R, side)]
            want = {'LT': 'left', 'GT': 'right'}.get(rel)
            ok = len(sets) == 1 and want == side and has and has[-1] is False
            rr.ob(ctx.where(u, sets[0].node), 'new sibling attached on the %s of a node whose %s pointer is empty, for a %s query' % (
                side, side, {'LT': 'smaller', 'GT': 'larger'}.get(rel, rel)), ok=ok)
            if not ok:
                rr.fail(ctx.finding('R-BST-AGREE', u, sets[0].node, 'insert attaches the new sibling with %s although the query is %s than the node or the '
                                    'pointer is not known empty: later searches will not find it (or an existing subtree is dropped)' % (
                                        sets[0].name, {'LT': 'smaller', 'GT': 'larger', 'EQ': 'equal'}.get(rel, 'not compared'))))
            # the stem stored in the new sibling is the query
            made = [e for e in r.calls('node') if any(a.startswith('stem=') for a in e.args)]
            if not made or made[0].args != ['stem=' + Q]:
                rr.fail(ctx.finding('R-BST-AGREE', u, sets[0].node, 'the sibling that is attached does not carry the searched stem'))
    # descent step of the two read-only walks: after a stem is matched and it is not the last one, a node without child means
    # "not stored" (return), otherwise the walk moves to the child; after the last stem the node itself is the answer
    n_desc = 0
    for qual in ('LRUTrie.lru_node', 'LRUTrie.follow_lru'):
        u = P.unit(qual)
        fors = [f for f in P.own(u, ast.For) if any(isinstance(x, ast.Call) and isinstance(x.func, ast.Attribute) and x.func.attr == 'read_child' for x in ast.walk(f))
                and isinstance(f.iter, ast.Call) and isinstance(f.iter.func, ast.Name) and f.iter.func.id in ('range', 'enumerate')]
        if len(fors) != 1:
            raise AnalysisError('R-BST-AGREE: stem loop of %s not recognised' % qual)
        lp = fors[0]
        if isinstance(lp.target, ast.Name):
            iv = lp.target.id
        elif isinstance(lp.target, ast.Tuple) and lp.target.elts and isinstance(lp.target.elts[0], ast.Name):
            iv = lp.target.elts[0].id
        else:
            raise AnalysisError('R-BST-AGREE: index of the stem loop of %s not recognised' % qual)
        rows = tables(ctx, u, stmts=lp.body, iters=1, keep=lambda n, c: n in ('has_child', 'read_child', 'read_left', 'read_right'))
        bad = []
        groups = {}
        for r in rows:
            if r.calls(('read_left', 'read_right')):
                continue
            # the atom that tells whether stems remain: any linear / equality atom about the loop index
            idx = None
            for k in r.order:
                if k.startswith(('LIN:', 'EQ:', 'ORD:')) and (iv in re.findall(r'[A-Za-z_][A-Za-z_0-9]*', k) or iv in re.findall(r'[A-Za-z_][A-Za-z_0-9]*', r.src.get(k, ''))) \
                        and '.stem()' not in k:
                    idx = (k, r.val[k])
            reached = idx is not None or any(base(k).endswith('.has_child()') for k in r.val) or r.calls('read_child')
            if not reached and r.outcome == 'return':
                continue          # left inside the sibling search (stem not stored)
            n_desc += 1
            groups.setdefault(idx, []).append(r)
        desc = [g for g, rs in groups.items() if any(r.calls('read_child') for r in rs)]
        if None in groups and len(groups) == 1:
            bad.append((groups[None][0], 'the descent does not depend on whether stems remain'))
        elif len(desc) != 1:
            bad.append((rows[0], 'the walk moves to the child in %d of the %d cases of its "stems remain" test (expected exactly one)' % (len(desc), len(groups))))
        else:
            for g, rs in groups.items():
                for r in rs:
                    hc = [v for k, v in r.val.items() if base(k).endswith('.has_child()')]
                    rc = r.calls('read_child')
                    if g == desc[0]:
                        if not hc:
                            bad.append((r, 'the walk goes on to the next stem without asking whether the matched node has a child'))
                        elif hc[-1] and not rc:
                            bad.append((r, 'the matched node has a child but the walk does not move to it'))
                        elif not hc[-1] and (rc or r.outcome != 'return'):
                            bad.append((r, 'the matched node has no child and stems remain, but the walk does not stop as "not stored": the remaining stems are compared against '
                                           'the same node again, so an LRU that was never written is reported as located'))
                    elif rc:
                        bad.append((r, 'the walk moves to the child although the last stem was matched'))
        rr.ob(ctx.where(u, lp), 'descent step of %s: stems remain and no child -> not stored; stems remain and child -> move down; last stem -> stay (%d rows)' % (qual, len(rows)), ok=not bad)
        for r, msg in bad:
            rr.fail(ctx.finding('R-BST-AGREE', u, lp, '%s: %s' % (qual, msg), detail={'row': r.show()[:400]}, stmt='%s descent: %s' % (qual, msg[:50])))
    if n_desc < 4:
        raise AnalysisError('R-BST-AGREE: descent rows of the read-only walks not found')
    if n_attach < 2:
        raise AnalysisError('R-BST-AGREE: attach side of the insert not found (expected set_left and set_right rows)')
    rr.info.update({'search_loops': sigs, 'attach_rows': n_attach})


@rule('R-PARENT-PAIR')
def parent_pair(ctx, rr):
    """a new node's parent pointer matches the pointer through which it becomes reachable"""
    P = ctx.P
    n = 0
    seen = set()
    for u in P.units:
        if u.cls != 'LRUTrie':
            continue
        if not any(isinstance(c, ast.Call) and isinstance(c.func, ast.Attribute) and c.func.attr == 'set_parent' for c in ast.walk(u.node)):
            continue
        keep = lambda nm, c: nm in ('set_parent', 'set_left', 'set_right', 'set_child', 'write', 'node', 'parent')
        regions = [u.node.body]
        rows = []
        try:
            rows = tables(ctx, u, iters=1, keep=keep)
        except AnalysisError:
            rows = []
        # add loop bodies as separate regions (symbolic loop variables)
        for w in P.own(u, (ast.While, ast.For)):
            if any(isinstance(c, ast.Call) and isinstance(c.func, ast.Attribute) and c.func.attr == 'set_parent' for c in ast.walk(w)):
                rows += tables(ctx, u, stmts=w.body, iters=1, keep=keep)
        for r in rows:
            for sp in r.calls('set_parent'):
                X = sp.var
                i_sp = first_idx(r, lambda e: e is sp)
                links = [e for e in r.events[i_sp:] if e.kind == 'call' and e.name in ('set_left', 'set_right', 'set_child')
                         and e.args and base(e.args[0]) == X + '.block']
                if not links:
                    continue
                n += 1
                L = links[0]
                N = L.var
                arg = base(sp.args[0]) if sp.args else None
                want = (N + '.block') if L.name == 'set_child' else (N + '.parent()')
                wr = [e for e in r.calls('write') if e.var == X]
                ok = bool(arg == want and wr and first_idx(r, lambda e: e is wr[0]) > i_sp)
                if (id(sp.node), want, ok) in seen:
                    continue
                seen.add((id(sp.node), want, ok))
                rr.ob(ctx.where(u, sp.node), 'new %s of `%s` gets parent %s before its first write' % ('child' if L.name == 'set_child' else 'sibling', N, want), ok=ok)
                if not ok:
                    rr.fail(ctx.finding('R-PARENT-PAIR', u, sp.node, 'the parent pointer of the new node (%s) does not match the node it is linked from (%s via %s), '
                                        'or is set after the node was written: bottom-up reconstruction of the LRU would take another path' % (arg, N, L.name)))
    if n < 2:
        raise AnalysisError('R-PARENT-PAIR: allocation sites not found')
    rr.info['pairs'] = n


def add_lru_loops(P, al):
    """(descend loop, append loop, index name, length name) of add_lru, whatever loop statement they use"""
    loops = [w for w in al.node.body if isinstance(w, (ast.While, ast.For))]
    desc = [w for w in loops if any(isinstance(c, ast.Call) and isinstance(c.func, ast.Attribute) and c.func.attr == '__ensure_stem_from_siblings' for c in ast.walk(w))]
    app = [w for w in loops if any(isinstance(c, ast.Call) and any(k.arg == 'stem' for k in c.keywords) for c in ast.walk(w))]
    if len(desc) != 1 or len(app) != 1 or desc[0] is app[0]:
        return None

    def idx_len(w):
        if isinstance(w, ast.While):
            t = w.test
            if isinstance(t, ast.Compare) and len(t.ops) == 1 and isinstance(t.ops[0], (ast.Lt, ast.Gt)) and isinstance(t.left, ast.Name) and isinstance(t.comparators[0], ast.Name):
                return (t.left.id, t.comparators[0].id) if isinstance(t.ops[0], ast.Lt) else (t.comparators[0].id, t.left.id)
            return None
        it = w.iter
        if isinstance(it, ast.Call) and isinstance(it.func, ast.Name) and it.func.id == 'range' and isinstance(w.target, ast.Name) and it.args and isinstance(it.args[-1], ast.Name):
            return (w.target.id, it.args[-1].id)
        return None
    return desc[0], app[0], idx_len(desc[0]), idx_len(app[0])


@rule('R-ALLOC')
def alloc(ctx, rr):
    """trie blocks are allocated only for missing stems; re-adding known data writes nothing"""
    P = ctx.P
    # (c) who may construct a node with a stem
    sites = []
    for u in P.units:
        for c in P.own(u, ast.Call):
            if any(k.arg == 'stem' for k in c.keywords) and P.expr_classes(u, c) & {TRIE_NODE}:
                sites.append((u, c))
    allowed = {'LRUTrie.__ensure_stem_from_siblings', 'LRUTrie.add_lru', 'LRUTrie.node'}
    for u, c in sites:
        ok = u.qual in allowed
        rr.ob(ctx.where(u, c), 'a node with a stem is constructed only by the two allocation sites (sibling-on-miss, child-for-missing-stem)', ok=ok)
        if not ok:
            rr.fail(ctx.finding('R-ALLOC', u, c, 'a trie node is allocated outside the insert path (%s)' % u.qual))
    if len(sites) < 2:
        raise AnalysisError('R-ALLOC: allocation sites not found')
    # (a) found rows of the sibling search allocate and write nothing
    for u, w, R in search_loops(ctx):
        rows = tables(ctx, u, iters=1, keep=lambda n, c: n in ('write', 'node', 'set_stem'))
        qs = query_of(rows, R)
        if len(qs) != 1:
            continue
        Q = list(qs)[0]
        eq = [r for r in rows if rel_to_node(r, Q, R) == 'EQ']
        bad = [r for r in eq if r.calls('write') or [e for e in r.calls('node') if any(a.startswith('stem=') for a in e.args)]]
        if eq:
            rr.ob(ctx.where(u, w), 'a stem that is found is neither re-allocated nor rewritten (%d found rows)' % len(eq), ok=not bad)
            for r in bad:
                rr.fail(ctx.finding('R-ALLOC', u, (r.calls('write') + r.calls('node'))[0].node, 'the sibling search writes or allocates although the stem was found'))
    # (b) descending existing stems writes only to clear the child-webentity mark
    al = P.method('LRUTrie', 'add_lru')
    lp_ = add_lru_loops(P, al)
    if lp_ is None:
        raise AnalysisError('R-ALLOC: add_lru no longer has a descend loop and an append loop')
    loops = [lp_[0], lp_[1]]
    rows = tables(ctx, al, stmts=loops[0].body, iters=1, keep=lambda n, c: n in ('write', 'flag_can_have_child_webentities', 'node'))
    bad = []
    for r in rows:
        for wv in r.calls('write'):
            i = first_idx(r, lambda e: e is wv)
            if not any(e.kind == 'call' and e.name == 'flag_can_have_child_webentities' and e.var == wv.var for e in r.events[:i]):
                bad.append((r, wv))
        for e in r.calls('node'):
            if any(a.startswith('stem=') for a in e.args):
                bad.append((r, e))
    rr.ob(ctx.where(al, loops[0]), 'descending existing stems allocates nothing and writes only after clearing the child-webentity mark (%d rows)' % len(rows), ok=not bad)
    for r, e in bad:
        rr.fail(ctx.finding('R-ALLOC', al, e.node, 'the descend loop of add_lru writes or allocates for a stem that already exists: re-adding known data must not touch the store'))
    # (e) add_page rewrites the node only to turn a mark on
    ap = P.method('LRUTrie', 'add_page')
    rows = tables(ctx, ap, iters=1, keep=lambda n, c: n in ('write', 'flag_as_page', 'flag_as_crawled', 'is_page', 'is_crawled'))
    bad = []
    for r in rows:
        ws = r.calls('write')
        flags = r.calls(('flag_as_page', 'flag_as_crawled'))
        if ws and not flags:
            bad.append(r)
    rr.ob(ctx.where(ap), 're-adding a known page writes only when a mark is turned on (%d rows)' % len(rows), ok=not bad)
    for r in bad:
        rr.fail(ctx.finding('R-ALLOC', ap, r.calls('write')[0].node, 'add_page rewrites the node although no mark changed'))
    rr.info['stem_constructions'] = len(sites)


@rule('R-ANCESTOR-FLAG')
def ancestor_flag(ctx, rr):
    """add_lru(flag_can_have_child_webentities=True) clears and persists the no-child-webentities mark on every proper
    ancestor of the prefix, existing or new"""
    P = ctx.P
    al = P.method('LRUTrie', 'add_lru')
    lp_ = add_lru_loops(P, al)
    if lp_ is None:
        raise AnalysisError('R-ANCESTOR-FLAG: add_lru no longer consists of a descend loop and an append loop')
    loops = [lp_[0], lp_[1]]
    flagp = 'flag_can_have_child_webentities'
    if flagp not in al.params:
        raise AnalysisError('R-ANCESTOR-FLAG: add_lru lost its flag_can_have_child_webentities parameter')
    for li, w in enumerate(loops):
        il = lp_[2 + li]
        if il is None:
            raise AnalysisError('R-ANCESTOR-FLAG: loop of add_lru is neither `while index < length` nor `for index in range(.., length)`')
        I, L = il
        keep = lambda n, c: n in (flagp, 'can_have_child_webentities', 'write', 'node', 'read_child', 'set_child')
        rows = tables(ctx, al, stmts=w.body, iters=1, keep=keep, hoist=True)
        bad = []
        for r in rows:
            fp = r.val.get('truthy:' + flagp)
            proper = r.lin_known({I: 1, L: -1}, '<=', -2)        # index < length - 1
            flags = r.calls(flagp)
            if li == 0:
                marked = [v for k, v in r.val.items() if k.endswith('.can_have_child_webentities()')]
                still = (not marked[-1]) if marked else None
                need = fp is not False and proper is not False and still is not False
                # fp None: the path never looked at the request flag
                if fp is None and not flags:
                    need = False if proper is False else True
                    if proper is None and not marked:
                        need = True
                if need:
                    if not flags:
                        bad.append((r, None, 'a proper ancestor that is still marked is not unmarked (request flag=%s, proper ancestor=%s, still marked=%s)' % (fp, proper, still)))
                        continue
                    f = flags[0]
                    i = first_idx(r, lambda e: e is f)
                    if not any(e.kind == 'call' and e.name == 'write' and e.var == f.var for e in r.events[i:]):
                        bad.append((r, f, 'the unmarked ancestor is not written back'))
                    # the mark that is tested is the mark of the node that gets unmarked: the variable is not re-bound in between
                    tests_ = [k_ for k_, e in enumerate(r.events[:i]) if e.kind == 'call' and e.name == 'can_have_child_webentities' and e.var == f.var]
                    if tests_ and any(e.kind == 'set' and e.name == f.var for e in r.events[tests_[-1]:i]):
                        bad.append((r, f, 'the mark is tested on the node of the previous level (`%s` is re-bound between the test and the unmarking): the matched ancestor keeps its '
                                    'mark whenever the first node of its sibling group is already unmarked' % f.var))
                    j = first_idx(r, lambda e: e.kind == 'call' and e.name == 'read_child')
                    wj = first_idx(r, lambda e: e.kind == 'call' and e.name == 'write' and e.var == f.var and first_idx(r, lambda x: x is e) > i)
                    if j is not None and wj is not None and j < wj:
                        bad.append((r, f, 'the walk moves to the child before the unmarked ancestor is written'))
                elif flags and fp is False:
                    bad.append((r, flags[0], 'ancestors are unmarked although the request did not ask for it'))
            else:
                made = [e for e in r.calls('node') if any(a.startswith('stem=') for a in e.args)]
                if not made:
                    continue
                need = fp is not False and proper is not False
                if fp is None and not flags:
                    need = proper is not False
                if need:
                    if not flags:
                        bad.append((r, made[0], 'a new proper ancestor is created with the no-child-webentities mark left on (request flag=%s, proper ancestor=%s)' % (fp, proper)))
                        continue
                    f = flags[0]
                    i = first_idx(r, lambda e: e is f)
                    ws = [first_idx(r, lambda e, x=x: e is x) for x in r.calls('write') if x.var == f.var]
                    if not ws or min(ws) < i:
                        bad.append((r, f, 'the new ancestor is written before its mark is cleared'))
                elif flags and fp is False:
                    bad.append((r, flags[0], 'new nodes are unmarked although the request did not ask for it'))
        what = ('existing proper ancestors that are still marked get flag_can_have_child_webentities() + write() before the walk descends'
                if li == 0 else 'new proper ancestors get flag_can_have_child_webentities() before their first write()')
        rr.ob(ctx.where(al, w), '%s (%d rows, proper ancestor = `%s < %s - 1`)' % (what, len(rows), I, L), ok=not bad, rows=len(rows))
        for r, e, msg in bad:
            rr.fail(ctx.finding('R-ANCESTOR-FLAG', al, e.node if e is not None else w, 'add_lru: %s; the child-webentity shortcut would prune the subtree that holds the '
                                'new prefix' % msg, detail={'row': r.show()[:500]}))


@rule('R-TRACK-AGREE')
def track_agree(ctx, rr):
    """the insert walk and the query walk record the deepest webentity and every rule anchor identically"""
    P = ctx.P
    hist = P.require_class('LRUTrieWalkHistory')
    uw = P.method('LRUTrieWalkHistory', 'update_webentity')
    # update_webentity overwrites the three fields unconditionally with its parameters
    assigns = {}
    for s in uw.node.body:
        if isinstance(s, ast.Assign) and len(s.targets) == 1 and isinstance(s.targets[0], ast.Attribute) and isinstance(s.value, ast.Name):
            assigns[s.targets[0].attr] = s.value.id
    ps = uw.call_params
    ok = len(ps) == 3 and assigns.get('webentity') == ps[0] and assigns.get('webentity_prefix') == ps[1] and assigns.get('webentity_position') == ps[2] \
        and all(isinstance(s, (ast.Assign, ast.Expr)) for s in uw.node.body)
    rr.ob(ctx.where(uw), 'update_webentity overwrites id, prefix and position unconditionally (deepest wins)', ok=ok)
    if not ok:
        rr.fail(ctx.finding('R-TRACK-AGREE', uw, uw.node, 'the walk history no longer lets the deepest webentity overwrite id, prefix and position together', stmt='update_webentity'))
    regions = []
    al = P.method('LRUTrie', 'add_lru')
    fl = P.method('LRUTrie', 'follow_lru')
    wl = [w for w in P.own(al, ast.While)]
    fr = [f for f in P.own(fl, ast.For)]
    if not wl or not fr:
        raise AnalysisError('R-TRACK-AGREE: walk loops not found')
    regions.append((al, wl[0]))
    regions.append((fl, fr[0]))
    keepn = ('has_webentity', 'webentity', 'update_webentity', 'has_webentity_creation_rule', 'add_webentity_creation_rule', 'read_child',
             'read_left', 'read_right', '__ensure_stem_from_siblings')
    tabs = []
    for u, w in regions:
        rows = tables(ctx, u, stmts=w.body, iters=1, keep=lambda n, c: n in keepn)
        # the accumulated LRU variable: the one extended by the current stem in this iteration
        acc = set()
        for r in rows:
            for e in r.events:
                if e.kind == 'aug' and 'Add' in e.text:
                    acc.add(e.name)
        bad = []
        tab = set()
        for r in rows:
            if r.outcome in ('again', 'return') and not r.calls(('update_webentity', 'add_webentity_creation_rule')) and \
                    not any(k.endswith('.has_webentity()') for k in r.val):
                continue      # left the iteration inside the sibling search
            hw = [v for k, v in r.val.items() if k.endswith('.has_webentity()')]
            hr = [v for k, v in r.val.items() if k.endswith('.has_webentity_creation_rule()')]
            up = r.calls('update_webentity')
            ar = r.calls('add_webentity_creation_rule')
            if not hw or not hr:
                bad.append((r, None, 'a step of the walk does not look at the webentity / rule marks of the matched node'))
                continue
            if bool(up) != bool(hw[-1]):
                bad.append((r, up[0] if up else None, 'webentity of the matched node is %s' % ('recorded although absent' if up else 'not recorded')))
            if bool(ar) != bool(hr[-1]):
                bad.append((r, ar[0] if ar else None, 'rule anchor of the matched node is %s' % ('recorded although absent' if ar else 'not recorded')))
            for e in up:
                a = [base(x) for x in e.args]
                okk = len(a) == 3 and a[0].endswith('.webentity()') and any(a[1] == v for v in acc) and a[2] == 'len(%s)' % a[1]
                if not okk:
                    bad.append((r, e, 'the webentity is recorded with %s instead of (node.webentity(), walked prefix, len(walked prefix))' % a))
                rd = first_idx(r, lambda x: x.kind == 'call' and x.name == 'read_child')
                if rd is not None and first_idx(r, lambda x: x is e) > rd:
                    bad.append((r, e, 'the webentity is recorded after the walk moved to the child'))
            for e in ar:
                a = [base(x) for x in e.args]
                okk = len(a) == 1 and any(a[0] == 'len(%s)' % v for v in acc)
                if not okk:
                    bad.append((r, e, 'the rule anchor is recorded with %s instead of len(walked prefix)' % a))
            tab.add((hw[-1], hr[-1], bool(up), bool(ar)))
        rr.ob(ctx.where(u, w), 'per-stem tracking in %s: has_webentity -> update_webentity(node.webentity(), prefix, len(prefix)); has_rule -> '
              'add_webentity_creation_rule(len(prefix)) (%d rows)' % (u.qual, len(rows)), ok=not bad, rows=len(rows))
        for r, e, msg in bad:
            rr.fail(ctx.finding('R-TRACK-AGREE', u, e.node if e is not None else w, '%s: %s' % (u.qual, msg), detail={'row': r.show()[:500]}))
        tabs.append(tab)
    ok = tabs[0] == tabs[1] and len(tabs[0]) == 4
    rr.ob(ctx.where(fl), 'insert walk and query walk have the same 4-row tracking table', ok=ok)
    if not ok:
        rr.fail(ctx.finding('R-TRACK-AGREE', fl, fr[0], 'the query walk (follow_lru) and the insert walk (add_lru) track webentities / rule anchors differently: %s vs %s'
                            % (sorted(tabs[1]), sorted(tabs[0])), stmt='tracking tables'))


@rule('R-PAGE-REPORT')
def page_report(ctx, rr):
    """reports count exactly the newly flagged pages"""
    P = ctx.P
    ap = P.method('LRUTrie', 'add_page')
    rows = tables(ctx, ap, iters=1, keep=lambda n, c: n in ('is_page', 'flag_as_page', 'write', 'add_lru'))
    bad = []
    n_set = 0
    for r in rows:
        sets = [e for e in r.events if e.kind == 'store' and 'page_was_created' in (e.name or '')]
        isp = [v for k, v in r.val.items() if k.endswith('.is_page()')]
        fl = r.calls('flag_as_page')
        ws = r.calls('write')
        if sets:
            n_set += 1
            if not (isp and isp[-1] is False and fl and ws and sets[0].args == ['True']):
                bad.append((r, sets[0], 'page_was_created is set although the page existed or was not flagged and written'))
        if isp and isp[-1] is False:
            if not (fl and ws and sets):
                bad.append((r, None, 'a new page is not flagged, written and reported as created'))
        if fl and isp and isp[-1] is True:
            bad.append((r, fl[0], 'an existing page is flagged again'))
    rr.ob(ctx.where(ap), 'page_was_created is set exactly on the not-yet-a-page path that flags and writes the node (%d rows)' % len(rows), ok=not bad)
    for r, e, msg in bad:
        rr.fail(ctx.finding('R-PAGE-REPORT', ap, e.node if e is not None else ap.node, msg, detail={'row': r.show()[:400]}))
    if n_set < 1:
        raise AnalysisError('R-PAGE-REPORT: page_was_created is never set')
    # the walk history starts with page_was_created False
    init = P.method('LRUTrieWalkHistory', '__init__')
    ok = any(isinstance(a, ast.Assign) and ast.unparse(a.targets[0]) == 'self.page_was_created' and isinstance(a.value, ast.Constant) and a.value.value is False
             for a in init.node.body)
    rr.ob(ctx.where(init), 'a walk starts with page_was_created = False', ok=ok)
    if not ok:
        rr.fail(ctx.finding('R-PAGE-REPORT', init, init.node, 'the walk history does not start with page_was_created False', stmt='history init'))
    tp = P.method('Traph', '__add_page')
    rows = tables(ctx, tp, iters=1, keep=lambda n, c: n in ('add_page',), max_paths=200000)
    bad = []
    seen = 0
    for r in rows:
        incs = [e for e in r.events if e.kind == 'store' and 'nb_created_pages' in (e.name or '')]
        pw = [v for k, v in r.val.items() if k.endswith('page_was_created')]
        if incs:
            seen += 1
            if not (pw and pw[-1] is True and len(incs) == 1 and incs[0].args == ['1']):
                bad.append((r, incs[0]))
        elif pw and pw[-1] is True:
            bad.append((r, None))
    rr.ob(ctx.where(tp), 'nb_created_pages is incremented by one exactly when the walk reports a created page (%d rows)' % len(rows), ok=not bad and seen > 0)
    for r, e in bad:
        rr.fail(ctx.finding('R-PAGE-REPORT', tp, e.node if e is not None else tp.node, 'the write report does not count exactly the pages that were new',
                            detail={'row': r.show()[:400]}))
    # ... and the report that was counted into is the report handed back, on every path
    rnames = {a.target.value.id for a in P.own(tp, ast.AugAssign) if isinstance(a.target, ast.Attribute) and a.target.attr == 'nb_created_pages' and isinstance(a.target.value, ast.Name)}
    rets = [x for x in P.own(tp, ast.Return) if isinstance(x.value, ast.Tuple) and len(x.value.elts) == 2]
    if len(rnames) == 1 and rets:
        R_ = list(rnames)[0]
        other = [x for x in rets if not (isinstance(x.value.elts[1], ast.Name) and x.value.elts[1].id == R_)]
        rr.ob(ctx.where(tp), '__add_page hands back the report it counted the page into (`%s`) on each of its %d returns' % (R_, len(rets)), ok=not other)
        for x in other[:1]:
            rr.fail(ctx.finding('R-PAGE-REPORT', tp, x, '__add_page returns `%s` instead of the report `%s` it counted the new page into: a page created on this path is indexed but not '
                                'reported as created' % (ast.unparse(x.value.elts[1])[:40], R_)))
    # TraphWriteReport.__iadd__ sums the counters
    ia = P.method('TraphWriteReport', '__iadd__')
    ok = any(isinstance(a, ast.AugAssign) and isinstance(a.op, ast.Add) and 'nb_created_pages' in ast.unparse(a.target) and 'nb_created_pages' in ast.unparse(a.value)
             for a in ia.node.body)
    rr.ob(ctx.where(ia), 'merging reports adds the created-page counters', ok=ok)
    if not ok:
        rr.fail(ctx.finding('R-PAGE-REPORT', ia, ia.node, 'merging write reports no longer adds nb_created_pages', stmt='report merge'))


@rule('R-MONOTONE-POINTERS')
def monotone_pointers(ctx, rr):
    """left/right/child/parent pointers are append-only: written only by the two allocation functions and only into an empty
    slot (or into a node created on the same path), so a stored LRU never becomes unreachable"""
    P = ctx.P
    setters = ('set_left', 'set_right', 'set_child', 'set_parent')
    allowed = {'LRUTrie.__ensure_stem_from_siblings', 'LRUTrie.add_lru'}
    n = 0
    for u in P.units:
        if u.cls == TRIE_NODE:
            continue
        for c in P.own(u, ast.Call):
            if isinstance(c.func, ast.Attribute) and c.func.attr in setters and any(t.cls == TRIE_NODE for t in P.targets(c)):
                n += 1
                ok = u.qual in allowed
                rr.ob(ctx.where(u, c), 'structural pointer `%s` is written by an allocation function' % ast.unparse(c)[:50], ok=ok)
                if not ok:
                    rr.fail(ctx.finding('R-MONOTONE', u, c, 'a left/right/child/parent pointer is rewritten outside the insert path: existing subtrees can '
                                        'become unreachable'))
    if n < 5:
        raise AnalysisError('R-MONOTONE-POINTERS: structural pointer stores not found')
    al = P.method('LRUTrie', 'add_lru')
    rows = tables(ctx, al, iters=2 if ctx.tier == 'thorough' else 1, keep=lambda nm, c: nm in ('set_child', 'has_child', 'node', 'read_child', '__ensure_stem_from_siblings'))
    bad = []
    n_sc = 0
    for r in rows:
        for e in r.calls('set_child'):
            n_sc += 1
            i = first_idx(r, lambda x: x is e)
            sets = [x for x in r.events[:i] if x.kind == 'set' and x.name == e.var]
            fresh = bool(sets) and ('stem=' in sets[-1].args[0] or any(y.kind == 'set' and y.name == sets[-1].args[0].split('#')[0] and 'stem=' in y.args[0] for y in r.events[:i]))
            hv = r.val.get('%s.has_child()' % e.recv)
            if not fresh and hv is not False:
                bad.append((r, e))
    rr.ob(ctx.where(al), 'add_lru links a child only below a node whose child slot is empty or that was created on this path (%d set_child rows)' % n_sc, ok=not bad)
    for r, e in bad:
        rr.fail(ctx.finding('R-MONOTONE', al, e.node, 'add_lru overwrites the child pointer of a node that may already have children: the existing subtree becomes '
                            'unreachable', detail={'row': r.show()[:500]}))
    if n_sc < 1:
        raise AnalysisError('R-MONOTONE-POINTERS: no set_child row in add_lru')
