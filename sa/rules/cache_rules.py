"""Rules about derived state: R-NO-STALE-CACHE, R-MEMO-KEY, R-EVERY-PREFIX, R-ARGS-HONOURED, R-READ-RESETS."""
import ast

from ..core import rule
from ..program import AnalysisError
from ..cfg import solve_forward
from ..dataflow import node_root, calls_in_order, names_in_target
from ..effects import NODEC, HDRC, STORAGES, TRIE_NODE, LINK_NODE, self_attr, recv_name
from ..guards import guard_facts
from .effects_rules import is_query_name, WRITE_API

LONG_LIVED = ('Traph', 'LRUTrie', 'LinkStore')
CONTAINER_MUT = {'append', 'add', 'update', 'setdefault', 'pop', 'popitem', 'clear', 'extend', 'insert', 'remove', 'discard', '__setitem__'}


def _attr_mutations(P, u):
    """[(attr, node, kind)] for self.<attr> stores / container or object mutations in unit u, also through a local alias
    `x = self.<attr>` (kind: 'assign' | 'mutate' | 'reset')"""
    from ..effects import RELOADS
    out = []
    alias = {}
    for a in P.own(u, ast.Assign):
        if self_attr(a.value) and len(a.targets) == 1 and isinstance(a.targets[0], ast.Name):
            alias[a.targets[0].id] = self_attr(a.value)

    def attr_of(e):
        if self_attr(e):
            return self_attr(e)
        if isinstance(e, ast.Name) and e.id in alias:
            return alias[e.id]
        return None
    for n in P.own(u, (ast.Assign, ast.AugAssign, ast.Delete, ast.Call)):
        if isinstance(n, ast.Call):
            f = n.func
            if isinstance(f, ast.Attribute) and attr_of(f.value):
                rt = P.ev(u, f.value)
                if f.attr in CONTAINER_MUT and (any(a[0] in ('dict', 'list', 'set') for a in rt) or not rt):
                    out.append((attr_of(f.value), n, 'reset' if f.attr == 'clear' else 'mutate'))
                elif f.attr in RELOADS and any(t.cls in NODEC for t in P.targets(n)):
                    out.append((attr_of(f.value), n, 'mutate'))
            continue
        tgs = n.targets if isinstance(n, (ast.Assign, ast.Delete)) else [n.target]
        for t in tgs:
            if self_attr(t):
                out.append((self_attr(t), n, 'assign'))
            elif isinstance(t, ast.Subscript) and attr_of(t.value):
                out.append((attr_of(t.value), n, 'mutate'))
    return out


def _reach(P, start):
    seen = {start}
    work = [start]
    while work:
        x = work.pop()
        for y in P.calls[x]:
            if y not in seen:
                seen.add(y)
                work.append(y)
    return seen


@rule('R-NO-STALE-CACHE')
def no_stale_cache(ctx, rr):
    """index-derived state kept on the long-lived objects (Traph, LRUTrie, LinkStore) by a read-only request must be
    invalidated by every write request that can change the index; today no query keeps any"""
    P, E = ctx.P, ctx.E
    traph = P.require_class('Traph')
    queries = [u for n, u in traph.items() if is_query_name(n)]
    writers = [traph[n] for n in WRITE_API if n in traph and E.writes[traph[n]] & {'trie.node', 'links.node'}]
    qreach = set()
    for q in queries:
        qreach |= _reach(P, q)
    cached = {}
    n_units = 0
    for u in qreach:
        if u.cls not in LONG_LIVED or u.name == '__init__':
            continue
        n_units += 1
        for attr, node, kind in _attr_mutations(P, u):
            cached.setdefault((u.cls, attr), []).append((u, node))
    rr.ob('package', '%d functions of Traph/LRUTrie/LinkStore reachable from the %d read-only requests keep no state on the index objects '
          '(or every write request invalidates it)' % (n_units, len(queries)), ok=True)
    for (cls, attr), sites in sorted(cached.items()):
        # which writers reach a reset of this attribute?
        resetters = set()
        for u in P.units:
            if u.cls == cls:
                for a, node, kind in _attr_mutations(P, u):
                    if a == attr and kind in ('assign', 'reset') and u.name != '__init__':
                        # an assignment of a fresh empty container or a .clear()
                        if kind == 'reset' or (isinstance(node, ast.Assign) and isinstance(node.value, (ast.Dict, ast.List, ast.Set, ast.Call, ast.Constant))):
                            resetters.add(u)
        missing = [w for w in writers if not (_reach(P, w) & resetters)]
        u, node = sites[0]
        ok = not missing
        rr.ob(ctx.where(u, node), 'state %s.%s written by a read-only request is invalidated by all %d write requests' % (cls, attr, len(writers)), ok=ok)
        if not ok:
            rr.fail(ctx.finding('R-NO-STALE-CACHE', u, node, 'a read-only request keeps index-derived state in %s.%s, which is not invalidated by the write '
                                'request(s) %s: later queries answer from the stale copy' % (cls, attr, ', '.join(sorted(w.name for w in missing)[:6]))))
    rr.info['cached_attributes'] = ['%s.%s' % k for k in cached]
    # other places where state survives a request: mutable default arguments, module-level containers mutated by functions,
    # memoising decorators on functions that depend on the index
    MUT = (ast.Dict, ast.List, ast.Set, ast.ListComp, ast.DictComp, ast.SetComp)
    MUT_CALLS = {'dict', 'list', 'set', 'defaultdict', 'Counter', 'OrderedDict', 'deque', 'bytearray'}
    nfun = 0
    INDEXED = ('LRUTrie', 'LinkStore', 'LRUTrieNode', 'LinkStoreNode', 'Traph') + tuple(STORAGES)

    def depends_on_index(u):
        return u.cls in INDEXED or any(t.cls in INDEXED for t in _reach(P, u))
    for u in P.units:
        nfun += 1
        a = u.node.args
        for d in list(a.defaults) + [x for x in a.kw_defaults if x is not None]:
            if (isinstance(d, MUT) or (isinstance(d, ast.Call) and isinstance(d.func, ast.Name) and d.func.id in MUT_CALLS)) and depends_on_index(u):
                rr.ob(ctx.where(u, d), '%s has no mutable default argument' % u.qual, ok=False)
                rr.fail(ctx.finding('R-NO-STALE-CACHE', u, d, '%s has the mutable default argument `%s`: it is created once and shared by every later request, so what one request '
                                    'puts into it (memo, visited set) is seen by the next' % (u.qual, ast.unparse(d)[:30]), stmt='%s: mutable default' % u.qual))
        for dec in u.node.decorator_list:
            dn = ast.unparse(dec.func if isinstance(dec, ast.Call) else dec)
            if dn.split('.')[-1] in ('lru_cache', 'cache', 'cached_property', 'memoize', 'memoized'):
                dep = depends_on_index(u)
                rr.ob(ctx.where(u, dec), '%s is not memoised across requests' % u.qual, ok=not dep)
                if dep:
                    rr.fail(ctx.finding('R-NO-STALE-CACHE', u, dec, '%s is memoised with @%s but its result depends on the index: a write request does not invalidate the memo' % (u.qual, dn),
                                        stmt='%s: memoised' % u.qual))
    for mod, tree in P.modules.items():
        glob = {}
        for st in tree.body:
            if isinstance(st, ast.Assign) and len(st.targets) == 1 and isinstance(st.targets[0], ast.Name):
                v = st.value
                if isinstance(v, MUT) or (isinstance(v, ast.Call) and isinstance(v.func, ast.Name) and v.func.id in MUT_CALLS):
                    glob[st.targets[0].id] = st
        if not glob:
            continue
        for u in P.units:
            if u.module != mod:
                continue
            local = set(u.params) | {n_ for a_ in P.own(u, ast.Assign) for t_ in a_.targets for n_ in names_in_target(t_)}
            for x in P.own(u, (ast.Call, ast.Assign, ast.AugAssign, ast.Delete)):
                hit = None
                if isinstance(x, ast.Call) and isinstance(x.func, ast.Attribute) and isinstance(x.func.value, ast.Name) and x.func.value.id in glob \
                        and x.func.value.id not in local and x.func.attr in CONTAINER_MUT:
                    hit = x.func.value.id
                elif not isinstance(x, ast.Call):
                    for t in (x.targets if isinstance(x, (ast.Assign, ast.Delete)) else [x.target]):
                        if isinstance(t, ast.Subscript) and isinstance(t.value, ast.Name) and t.value.id in glob and t.value.id not in local:
                            hit = t.value.id
                if hit and depends_on_index(u):
                    rr.ob(ctx.where(u, x), 'module-level container %s is not used as request-spanning scratch state' % hit, ok=False)
                    rr.fail(ctx.finding('R-NO-STALE-CACHE', u, x, '%s mutates the module-level container `%s`: it outlives the request (and the Traph object), so later requests and '
                                        'other indexes see what this one left' % (u.qual, hit), stmt='%s: module state %s' % (u.qual, hit)))
    rr.ob('package', 'no mutable default argument, memoising decorator or mutated module-level container in %d functions' % nfun, ok=True)


def _node_identity(P, u, scope, node_var):
    """expressions that identify the block held by node variable `node_var` inside `scope`: N.block and every B with N.read(B)"""
    ids = {node_var + '.block'}
    for c in ast.walk(scope):
        if isinstance(c, ast.Call) and isinstance(c.func, ast.Attribute) and c.func.attr == 'read' and isinstance(c.func.value, ast.Name) \
                and c.func.value.id == node_var and c.args:
            ids.add(ast.unparse(c.args[0]))
    # plain copies of an identity (`target_block = target_node.block`)
    for _ in range(2):
        for a in ast.walk(scope):
            if isinstance(a, ast.Assign) and len(a.targets) == 1 and isinstance(a.targets[0], ast.Name) and ast.unparse(a.value) in ids:
                ids.add(a.targets[0].id)
    return ids


@rule('R-MEMO-KEY')
def memo_key(ctx, rr):
    """a request-local memo of webentity resolutions is keyed by the block whose resolution it holds and never stores a
    'no webentity' answer that its lookup would take for a hit"""
    P = ctx.P
    windup = P.method('LRUTrie', 'windup_lru_for_webentity')
    n = 0
    for u in P.units:
        if u.cls != 'Traph':
            continue
        calls = [c for c in P.own(u, ast.Call) if windup in P.targets(c)]
        if not calls:
            continue
        gf = None
        for c in calls:
            if not (c.args and isinstance(c.args[0], ast.Name)):
                raise AnalysisError('R-MEMO-KEY: windup_lru_for_webentity called on a non-variable at %s' % ctx.where(u, c))
            N = c.args[0].id
            st = P.stmt_of(c)
            V = names_in_target(st.targets[0])[0] if isinstance(st, ast.Assign) and names_in_target(st.targets[0]) else None
            # innermost loop containing the call = the scope in which N is (re)read
            scope = P.parent.get(id(st))
            cur = st
            while cur is not None and cur is not u.node and not isinstance(cur, (ast.For, ast.While)):
                cur = P.parent.get(id(cur))
            scope = cur if cur is not None else u.node
            ids = _node_identity(P, u, scope, N)
            # (1) set guards: `if K not in S:` enclosing the call, and S.add(K2) next to it
            par = P.parent.get(id(st))
            while par is not None and par is not scope:
                if isinstance(par, ast.If):
                    for leaf in ast.walk(par.test):
                        if isinstance(leaf, ast.Compare) and len(leaf.ops) == 1 and isinstance(leaf.ops[0], (ast.NotIn, ast.In)) \
                                and isinstance(leaf.comparators[0], ast.Name):
                            S = leaf.comparators[0].id
                            K = ast.unparse(leaf.left)
                            n += 1
                            ok = K in ids
                            rr.ob(ctx.where(u, leaf), 'memo set `%s` is tested with the identity of the node being resolved (%s)' % (S, sorted(ids)), ok=ok)
                            if not ok:
                                rr.fail(ctx.finding('R-MEMO-KEY', u, leaf, 'the resolution of node `%s` is skipped according to `%s in %s`, which is not the identity of '
                                                    'that node (%s): different pages sharing that key get one answer' % (N, K, S, sorted(ids))))
                            for a in ast.walk(par):
                                if isinstance(a, ast.Call) and isinstance(a.func, ast.Attribute) and a.func.attr == 'add' and isinstance(a.func.value, ast.Name) \
                                        and a.func.value.id == S and a.args:
                                    K2 = ast.unparse(a.args[0])
                                    ok2 = K2 in ids
                                    rr.ob(ctx.where(u, a), 'memo set `%s` records the identity of the resolved node' % S, ok=ok2)
                                    if not ok2:
                                        rr.fail(ctx.finding('R-MEMO-KEY', u, a, 'memo set `%s` records `%s` instead of the identity of the resolved node (%s)' % (S, K2, sorted(ids))))
                par = P.parent.get(id(par))
            if V is None:
                continue
            # (2) dict memos: V = D.get(K) / D[K] ... D[K2] = V
            lookups = []
            for a in ast.walk(scope):
                if isinstance(a, ast.Assign) and V in names_in_target(a.targets[0]) and a is not st:
                    v = a.value
                    if isinstance(v, ast.Call) and isinstance(v.func, ast.Attribute) and v.func.attr == 'get' and isinstance(v.func.value, ast.Name) and v.args:
                        lookups.append((v.func.value.id, ast.unparse(v.args[0]), a))
                    elif isinstance(v, ast.Subscript) and isinstance(v.value, ast.Name):
                        lookups.append((v.value.id, ast.unparse(v.slice), a))
                    else:
                        n += 1
                        rr.ob(ctx.where(u, a), 'the webentity of the link end comes from the upward resolution only', ok=False)
                        rr.fail(ctx.finding('R-MEMO-KEY', u, a, 'the webentity of the node being resolved (`%s`) is also taken from `%s`, which is not a memo '
                                            'of the upward resolution' % (V, ast.unparse(v)[:60])))
            for D, K, a in lookups:
                n += 1
                ok = K in ids
                rr.ob(ctx.where(u, a), 'memo `%s` is looked up with the identity of the node being resolved (%s)' % (D, sorted(ids)), ok=ok)
                if not ok:
                    rr.fail(ctx.finding('R-MEMO-KEY', u, a, 'memo `%s` is looked up with `%s`, which is not the identity of the node being resolved (%s): pages '
                                        'sharing that key get the answer of another page' % (D, K, sorted(ids))))
            dicts = {D for D, K, a in lookups}
            miss_is_none = {}
            for D in dicts:
                for t in ast.walk(scope):
                    if isinstance(t, ast.Compare) and isinstance(t.ops[0], (ast.Is, ast.IsNot)) and isinstance(t.left, ast.Name) and t.left.id == V:
                        miss_is_none[D] = True
            for a in ast.walk(scope):
                if isinstance(a, ast.Assign) and isinstance(a.targets[0], ast.Subscript) and isinstance(a.targets[0].value, ast.Name) \
                        and a.targets[0].value.id in dicts:
                    D = a.targets[0].value.id
                    K2 = ast.unparse(a.targets[0].slice)
                    n += 1
                    ok = K2 in ids and isinstance(a.value, ast.Name) and a.value.id == V
                    rr.ob(ctx.where(u, a), 'memo `%s` stores the resolution under the identity of the resolved node' % D, ok=ok)
                    if not ok:
                        rr.fail(ctx.finding('R-MEMO-KEY', u, a, 'memo `%s` stores `%s` under `%s`; it must store the resolution of node `%s` under that node\'s identity (%s)'
                                            % (D, ast.unparse(a.value)[:40], K2, N, sorted(ids))))
                    if miss_is_none.get(D):
                        gf = gf or guard_facts(ctx, u)
                        facts = gf.facts_at(a.value) or set()
                        okt = isinstance(a.value, ast.Name) and (('NN', a.value.id) in facts or any(f[0] == 'T' and f[1] == a.value.id for f in facts))
                        rr.ob(ctx.where(u, a), 'memo `%s` (miss = None) stores only answers known to be a webentity' % D, ok=okt)
                        if not okt:
                            rr.fail(ctx.finding('R-MEMO-KEY', u, a, 'memo `%s` can store a "no webentity" answer, but its lookup only treats None as a miss: the next link to '
                                                'that page skips the no-webentity test' % D))
    rr.require(n, 4, 'memo lookups/stores next to webentity resolutions')
    rr.info['sites'] = n


@rule('R-EVERY-PREFIX')
def every_prefix(ctx, rr):
    """a per-webentity request walks every prefix it is given (or fails): no prefix is skipped"""
    P = ctx.P
    from .table_rules import tables
    walks = ('webentity_dfs_iter', 'webentity_inorder_iter', 'dfs_iter', 'node_parents_iter')
    n = 0
    for name, u in P.require_class('Traph').items():
        if 'prefixes' not in u.params:
            continue
        loops = [f for f in P.own(u, ast.For) if 'prefixes' in ast.unparse(f.iter) and not any(isinstance(p, (ast.For, ast.While)) and p is not f
                                                                                             for p in _parents(P, u, f))]
        for lp in loops:
            has_walk = any(isinstance(c, ast.Call) and isinstance(c.func, ast.Attribute) and c.func.attr in walks for c in ast.walk(lp))
            if not has_walk:
                continue
            n += 1
            rows = tables(ctx, u, stmts=lp.body, iters=1, keep=lambda nm, c: nm in walks + ('lru_node',), max_paths=200000)
            bad = [r for r in rows if r.outcome in ('fall', 'continue', 'again', 'break') and not r.calls(walks)]
            rr.ob(ctx.where(u, lp), '%s: every prefix of the request is looked up and walked, or the request fails (%d rows)' % (u.qual, len(rows)), ok=not bad)
            for r in bad[:1]:
                rr.fail(ctx.finding('R-EVERY-PREFIX', u, lp, '%s can skip one of the prefixes it was given without walking it: pages below that prefix are missing from the '
                                    'answer' % u.qual, detail={'row': r.show()[:400]}))
            # the loop runs over the whole list the request was given: no filtered copy
            it_names = {x.id for x in ast.walk(lp.iter) if isinstance(x, ast.Name)}
            for a in P.own(u, ast.Assign):
                for t in a.targets:
                    if isinstance(t, ast.Name) and t.id in it_names and isinstance(a.value, (ast.ListComp, ast.GeneratorExp, ast.SetComp)) \
                            and any(g.ifs for g in a.value.generators):
                        rr.ob(ctx.where(u, a), '%s walks the full prefix list' % u.qual, ok=False)
                        rr.fail(ctx.finding('R-EVERY-PREFIX', u, a, '%s drops some of the prefixes it was given before walking them (`%s`): the bounded walk stops at every node '
                                            'that carries a webentity, also the webentity\'s own nested prefixes, so pages below a dropped prefix are missing'
                                            % (u.qual, ast.unparse(a)[:80]), stmt='%s: filtered prefix list' % u.qual))
                    if isinstance(t, ast.Name) and t.id in it_names and isinstance(a.value, ast.Call) and isinstance(a.value.func, ast.Name) and a.value.func.id == 'filter':
                        rr.fail(ctx.finding('R-EVERY-PREFIX', u, a, '%s filters the prefixes it was given before walking them' % u.qual, stmt='%s: filtered prefix list' % u.qual))
            # page and link queries of one webentity use the walk that stops at other webentities
            if name not in ('get_webentity_child_webentities_iter', 'get_webentity_parent_webentities'):
                used = {c.func.attr for c in ast.walk(lp) if isinstance(c, ast.Call) and isinstance(c.func, ast.Attribute) and c.func.attr in walks}
                okw = used <= {'webentity_dfs_iter', 'webentity_inorder_iter'}
                rr.ob(ctx.where(u, lp), '%s walks each prefix with the bounded (per-webentity) walk: %s' % (u.qual, sorted(used)), ok=okw)
                if not okw:
                    rr.fail(ctx.finding('R-EVERY-PREFIX', u, lp, '%s walks its prefixes with %s instead of the bounded walk: the walk does not stop at nested webentities, so pages and '
                                        'links of child webentities are attributed to this one' % (u.qual, sorted(used - {'webentity_dfs_iter', 'webentity_inorder_iter'})),
                                        stmt='%s: unbounded walk' % u.qual))
    rr.require(n, 8, 'per-prefix loops')


def _parents(P, u, node):
    cur = P.parent.get(id(node))
    while cur is not None and cur is not u.node:
        yield cur
        cur = P.parent.get(id(cur))


# request arguments that are documented as not used (the prefixes, not the id, select the nodes)
UNUSED_OK = {
    ('Traph.get_webentity_pages_iter', 'weid'), ('Traph.get_webentity_crawled_pages_iter', 'weid'),
    ('Traph.get_webentity_most_linked_pages_iter', 'weid'), ('Traph.webentity_page_nodes_iter', 'weid'),
    ('Traph.get_webentity_outlinks_iter', 'weid'), ('Traph.get_webentity_inlinks_iter', 'weid'),
    ('Traph.paginate_webentity_pages', 'weid'),
}


@rule('R-ARGS-HONOURED')
def args_honoured(ctx, rr):
    """every argument of a request is looked at (an ignored switch or consistency argument silently changes the answer)"""
    P = ctx.P
    n = 0
    for cls in ('Traph', 'LRUTrie', 'LinkStore'):
        for name, u in P.require_class(cls).items():
            if name.startswith('__') and name.endswith('__') and name != '__init__':
                continue
            loads = {x.id for x in ast.walk(u.node) if isinstance(x, ast.Name) and isinstance(x.ctx, ast.Load)}
            for p in u.call_params:
                n += 1
                used = p in loads
                allowed = (u.qual, p) in UNUSED_OK
                if used or allowed:
                    rr.ob(ctx.where(u), '%s(%s) is %s' % (u.qual, p, 'used' if used else 'documented as unused'), ok=True)
                else:
                    rr.ob(ctx.where(u), '%s(%s) is used' % (u.qual, p), ok=False)
                    rr.fail(ctx.finding('R-ARGS-HONOURED', u, u.node, 'argument `%s` of %s is ignored: the request behaves as if it had not been given' % (p, u.qual),
                                        stmt='%s(%s)' % (u.qual, p)))
    rr.require(n, 100, 'request arguments')


@rule('R-READ-RESETS')
def read_resets(ctx, rr):
    """node objects are reused for many blocks: read() must re-initialise every content field on every path, or the
    previous block's content (a stale tail) leaks into the next one"""
    P = ctx.P
    for cls in (TRIE_NODE, LINK_NODE):
        rd = P.method(cls, 'read')
        init = P.method(cls, '__init__')
        # content fields = attributes initialised by the constructor, except the storage handle
        fields = set()
        for a in P.own(init, ast.Assign):
            for t in a.targets:
                if self_attr(t) and self_attr(t) != 'storage':
                    fields.add(self_attr(t))
        # plus fields set through helper methods called by the constructor (self.__set_default_data -> data)
        def assigned_by(unit, depth=0):
            out = set()
            for a in P.own(unit, (ast.Assign, ast.AugAssign)):
                tg = a.targets if isinstance(a, ast.Assign) else [a.target]
                for t in tg:
                    if self_attr(t):
                        out.add(self_attr(t))
            if depth < 2:
                for c in P.own(unit, ast.Call):
                    if recv_name(c) == 'self':
                        for t in P.targets(c):
                            if t.cls == cls and t.name not in ('read',):
                                out |= assigned_by(t, depth + 1)
            return out
        fields |= assigned_by(init) - {'storage'}
        fields -= {'block'}         # the address is kept when the block does not exist (documented behaviour of refresh on missing blocks)
        g = ctx.cfg(rd)

        def transfer(nd, st):
            root = node_root(nd)
            if root is None:
                return st
            st = set(st)
            a = nd.ast
            if nd.kind == 'stmt' and isinstance(a, (ast.Assign, ast.AugAssign)):
                tg = a.targets if isinstance(a, ast.Assign) else [a.target]
                for t in tg:
                    if self_attr(t) and isinstance(a, ast.Assign):
                        st.add(self_attr(t))
            for c in calls_in_order(P, rd, root):
                if recv_name(c) == 'self':
                    for t in P.targets(c):
                        if t.cls == cls and t is not rd:
                            st |= assigned_by(t)
            return frozenset(st)
        IN = solve_forward(g, frozenset(), transfer, lambda lab, st: st, lambda a, b: a & b)
        at_exit = None
        for p, _ in g.exit.pred:
            if p.id in IN:
                s = transfer(p, IN[p.id])
                at_exit = s if at_exit is None else (at_exit & s)
        at_exit = at_exit or frozenset()
        missing = sorted(fields - set(at_exit))
        rr.ob(ctx.where(rd), '%s.read re-initialises every content field %s on every path' % (cls, sorted(fields)), ok=not missing)
        if missing:
            rr.fail(ctx.finding('R-READ-RESETS', rd, rd.node, '%s.read does not re-initialise %s on every path: a node object reused for another block keeps the '
                                'previous block\'s %s (stems read back altered, lookups miss)' % (cls, missing, '/'.join(missing)), stmt='%s.read resets' % cls))
        # the reset must precede the conditional re-fill: no path may reach the tail loop with the old tail
    if len(P.classes[TRIE_NODE]) < 10:
        raise AnalysisError('R-READ-RESETS: node class not recognised')


@rule('R-REFUSE-CLEAN')
def refuse_clean(ctx, rr):
    """a request that can still be refused has not changed any webentity / rule mark yet: validate first, then mutate"""
    P, E = ctx.P, ctx.E
    n = 0
    for name, u in P.require_class('Traph').items():
        raises = [r for r in P.own(u, ast.Raise) if r.exc is not None]
        muts = [c for c in P.own(u, ast.Call) if any((t.cls, t.name) in E.mutators and t.cls == TRIE_NODE for t in P.targets(c))]
        if not raises or not muts:
            continue
        g = ctx.cfg(u)
        node_of = {}
        for nd in g.nodes:
            root = node_root(nd)
            if root is None:
                continue
            for x in ast.walk(root):
                node_of.setdefault(id(x), nd)
            if nd.kind == 'stmt' and isinstance(nd.ast, ast.Raise):
                node_of[id(nd.ast)] = nd
        raise_nodes = {node_of[id(r)].id for r in raises if id(r) in node_of}
        for c in muts:
            n += 1
            start = node_of.get(id(c))
            if start is None:
                continue
            seen, work, hit = set(), [m for m, _ in start.succ], None
            while work:
                m = work.pop()
                if m.id in seen:
                    continue
                seen.add(m.id)
                if m.id in raise_nodes:
                    hit = m
                    break
                work += [x for x, _ in m.succ]
            rr.ob(ctx.where(u, c), '%s: no refusal (raise) is reachable after `%s`' % (u.qual, ast.unparse(c)[:50]), ok=hit is None)
            if hit is not None:
                rr.fail(ctx.finding('R-REFUSE-CLEAN', u, c, '%s changes a mark (`%s`) on a path that can still refuse the request (raise at line %d): a refused request '
                                    'leaves the index modified' % (u.qual, ast.unparse(c)[:50], hit.lineno)))
    rr.require(n, 6, 'mark changes in functions that can refuse')


@rule('R-NO-EARLY-EXIT')
def no_early_exit(ctx, rr):
    """enumeration loops of the facade and of the link store visit every item: no `break` out of a loop over a store iterator"""
    P = ctx.P
    n = 0
    for u in P.units:
        if u.cls not in ('Traph', 'LinkStore', 'LRUTrie'):
            continue
        for lp in P.own(u, (ast.For, ast.While)):
            is_iter_loop = u.cls != 'LRUTrie' and isinstance(lp, ast.For) and isinstance(lp.iter, ast.Call) and any(t.is_gen for t in P.targets(lp.iter))
            is_walk_loop = isinstance(lp, ast.While) and u.cls == 'LinkStore' and 'has_previous' in ast.unparse(lp.test)
            # the stack-driven traversals of the trie: `while <stack>` with a pop in the body
            tn = {x.id for x in ast.walk(lp.test) if isinstance(x, ast.Name)} if isinstance(lp, ast.While) else set()
            is_stack_loop = u.cls == 'LRUTrie' and u.is_gen and bool(tn) and any(
                isinstance(c, ast.Call) and isinstance(c.func, ast.Attribute) and c.func.attr == 'pop' and isinstance(c.func.value, ast.Name) and c.func.value.id in tn for c in ast.walk(lp))
            if not (is_iter_loop or is_walk_loop or is_stack_loop):
                continue
            n += 1
            brk = None
            for x in ast.walk(lp):
                if isinstance(x, ast.Break):
                    # the break must belong to this loop (not to a nested one)
                    cur = P.parent.get(id(x))
                    while cur is not None and not isinstance(cur, (ast.For, ast.While)):
                        cur = P.parent.get(id(cur))
                    if cur is lp:
                        brk = x
            rr.ob(ctx.where(u, lp), '%s: the loop over `%s` is never left early' % (u.qual, ast.unparse(lp.iter if isinstance(lp, ast.For) else lp.test)[:50]), ok=brk is None)
            if brk is not None:
                rr.fail(ctx.finding('R-NO-EARLY-EXIT', u, brk, '%s leaves the loop over `%s` with `break`: the remaining items (links, pages) are silently dropped from the answer'
                                    % (u.qual, ast.unparse(lp.iter if isinstance(lp, ast.For) else lp.test)[:50])))
        if u.cls == 'LinkStore' and u.is_gen and u.name != 'nodes_iter':
            for w in P.own(u, ast.While):
                ys = [y for y in ast.walk(w) if isinstance(y, ast.Yield)]
                uses_counter = any(isinstance(c.func, ast.Name) and c.func.id == 'Counter' for c in P.own(u, ast.Call)) or \
                    any(isinstance(a, ast.AugAssign) and isinstance(a.target, ast.Subscript) for a in P.own(u, ast.AugAssign))
                if uses_counter:
                    rr.ob(ctx.where(u, w), '%s emits its totals only after the whole list was walked' % u.qual, ok=not ys)
                    if ys:
                        rr.fail(ctx.finding('R-NO-EARLY-EXIT', u, ys[0], '%s yields partial totals from inside its walk: a target met again later is emitted twice with partial weights '
                                            '(callers counting entries over-count)' % u.qual))
    rr.require(n, 20, 'enumeration loops')
