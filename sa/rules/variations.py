"""R-VARIATIONS: helpers.https_variation / lru_variations never fail, anchor the scheme rewrite, list the input first."""
import ast

from ..core import rule
from ..program import AnalysisError
from ..cfg import solve_forward
from ..dataflow import node_root, decompose
from ..guards import guard_facts

ALL = frozenset([0, 1, 2, 3])       # 3 == "3 or more"


def _len_of(e):
    """var name if e is len(var)"""
    if isinstance(e, ast.Call) and isinstance(e.func, ast.Name) and e.func.id == 'len' and len(e.args) == 1 \
            and isinstance(e.args[0], ast.Name):
        return e.args[0].id
    return None


def _sat(n, op, c):
    lo, hi = (n, n) if n < 3 else (3, 10 ** 6)
    # does some concrete length in [lo,hi] satisfy op c / does some fail
    def holds(x):
        return {ast.Eq: x == c, ast.NotEq: x != c, ast.Lt: x < c, ast.LtE: x <= c, ast.Gt: x > c, ast.GtE: x >= c}[type(op)]
    cands = [lo] if lo == hi else [3, 4, max(c, 3), max(c, 3) + 1, max(c - 1, 3)]
    return any(holds(x) for x in cands), any(not holds(x) for x in cands)


def refine_len(st, leaves):
    st = dict(st)
    for truth, e in leaves:
        if isinstance(e, ast.Compare) and len(e.ops) == 1 and isinstance(e.comparators[0], ast.Constant) \
                and isinstance(e.comparators[0].value, int):
            v = _len_of(e.left)
            if v and v in st:
                c = e.comparators[0].value
                keep = set()
                for n in st[v]:
                    can_t, can_f = _sat(n, e.ops[0], c)
                    if (truth and can_t) or (not truth and can_f):
                        keep.add(n)
                st[v] = frozenset(keep)
        elif isinstance(e, ast.Name) and e.id in st:
            st[e.id] = frozenset(n for n in st[e.id] if (n > 0) == truth)
        else:
            v = _len_of(e)
            if v and v in st:
                st[v] = frozenset(n for n in st[v] if (n > 0) == truth)
    return st


def length_analysis(ctx, u, on_site, capture_calls=None, captured=None):
    """list-length-set abstract interpretation of unit u; on_site(node, var, lengths, need, what)"""
    P = ctx.P
    g = ctx.cfg(u)

    def lens_of_value(st, v):
        if isinstance(v, ast.List):
            return frozenset([min(len(v.elts), 3)])
        if isinstance(v, ast.ListComp):
            return ALL
        if isinstance(v, ast.Call) and isinstance(v.func, ast.Attribute) and v.func.attr == 'split':
            return frozenset([1, 2, 3])
        if isinstance(v, ast.Call) and isinstance(v.func, ast.Name) and v.func.id == 'list':
            return ALL
        if isinstance(v, ast.Name) and v.id in st:
            return st[v.id]
        return None

    def transfer(n, st, report=False):
        st = dict(st)
        root = node_root(n)
        if root is None:
            return st
        # uses first (evaluation), then effects
        for x in ast.walk(root):
            if isinstance(x, ast.Subscript) and isinstance(x.value, ast.Name) and x.value.id in st \
                    and isinstance(x.ctx, ast.Load):
                k = None
                if isinstance(x.slice, ast.Constant) and isinstance(x.slice.value, int):
                    k = x.slice.value
                elif isinstance(x.slice, ast.UnaryOp) and isinstance(x.slice.op, ast.USub) and isinstance(x.slice.operand, ast.Constant):
                    k = -x.slice.operand.value
                if k is not None:
                    need = k + 1 if k >= 0 else -k
                    if report:
                        on_site(x, x.value.id, st[x.value.id], need, 'subscript %s' % ast.unparse(x))
                    # execution continues only if the subscript did not raise
                    st[x.value.id] = frozenset(y for y in st[x.value.id] if y >= min(need, 3))
        if isinstance(n.ast, ast.Expr) and isinstance(n.ast.value, ast.Call):
            c = n.ast.value
            f = c.func
            if isinstance(f, ast.Attribute) and isinstance(f.value, ast.Name) and f.value.id in st:
                v = f.value.id
                if report and capture_calls is not None and id(c) in capture_calls:
                    captured[id(c)] = st[v]
                if f.attr == 'append':
                    st[v] = frozenset(min(x + 1, 3) for x in st[v])
                elif f.attr == 'pop':
                    if report:
                        on_site(c, v, st[v], 1, 'pop')
                    new = set()
                    for x in st[v]:
                        if x == 3:
                            new |= {2, 3}
                        elif x > 0:
                            new.add(x - 1)
                    st[v] = frozenset(new)
                elif f.attr in ('extend', 'insert', 'remove', 'clear', 'reverse', 'sort'):
                    if f.attr in ('extend', 'insert'):
                        st[v] = frozenset(y for x in st[v] for y in range(x, 4))
                    elif f.attr in ('remove', 'clear'):
                        st[v] = ALL
        if isinstance(n.ast, ast.Assign):
            lv = lens_of_value(st, n.ast.value)
            for t in n.ast.targets:
                if isinstance(t, ast.Name):
                    if lv is not None:
                        st[t.id] = lv
                    else:
                        st.pop(t.id, None)
        return st

    def refine(lab, st):
        if lab[0] in ('T', 'F') and lab[1] is not None:
            leaves = []
            decompose(lab[1], lab[0] == 'T', leaves)
            st = refine_len(st, leaves)
            if any(not v for v in st.values()):
                return None       # infeasible edge
        return st

    def join(a, b):
        out = {}
        for k in set(a) & set(b):
            out[k] = a[k] | b[k]
        return out
    IN = solve_forward(g, {}, lambda n, st: transfer(n, st), refine, join)
    for n in g.nodes:
        if n.id in IN:
            transfer(n, IN[n.id], True)


def _lengths_at(ctx, u, calls):
    """{id(call): length set of the receiver list when the call is evaluated}"""
    out = {}
    ids = {id(c): c for c in calls}
    from ..cfg import solve_forward
    P = ctx.P
    g = ctx.cfg(u)
    # reuse the transfer/refine of length_analysis through a capturing hook: replay the analysis and read the IN state
    captured = {}

    def hook(node, var, lens, need, what):
        captured[id(node)] = lens
    # length_analysis reports pops and subscripts; for appends we recompute the IN state of the statement
    length_analysis(ctx, u, hook, capture_calls=ids, captured=captured)
    for k in ids:
        if k in captured:
            out[k] = captured[k]
    return out


@rule('R-VARIATIONS')
def variations(ctx, rr):
    P = ctx.P
    hv = P.funcs.get(('traph.helpers', 'https_variation'))
    lv = P.funcs.get(('traph.helpers', 'lru_variations'))
    if hv is None or lv is None:
        raise AnalysisError('anchor vanished: traph.helpers.https_variation / lru_variations')
    # ---- the facade feeds expand_prefix / automatic creation with lru_variations
    ep = P.method('Traph', 'expand_prefix')
    if lv not in P.calls[ep]:
        raise AnalysisError('Traph.expand_prefix no longer calls helpers.lru_variations')
    # the expansion is the expansion of the given prefix itself: encoded, otherwise untouched
    from .generic_rules import _is_encode_call
    from ..dataflow import reaching_defs as _rdefs
    rd = _rdefs(ep, ctx.cfg(ep))
    for c in P.own(ep, ast.Call):
        if lv not in P.targets(c) or not c.args:
            continue
        arg = c.args[0]
        vals = []
        sites = {}
        if isinstance(arg, ast.Name):
            st = P.stmt_of(c)
            nid = [n.id for n in ctx.cfg(ep).nodes if n.ast is st]
            for d in (rd.get(nid[0], {}).get(arg.id, ()) if nid else ()):
                vals.append(d.value if isinstance(d, ast.Assign) else d)
                sites[id(vals[-1])] = d if isinstance(d, ast.Assign) else c
        else:
            vals = [arg]

        def _bytes_guarded(nd_):
            # nd_ sits in the true branch of `if isinstance(<parameter>, bytes)`: the spelled-out __encode
            cur_ = nd_
            while cur_ is not None and cur_ is not ep.node:
                par_ = P.parent.get(id(cur_))
                if isinstance(par_, ast.If) and any(cur_ is b_ for b_ in par_.body) and isinstance(par_.test, ast.Call) and isinstance(par_.test.func, ast.Name) \
                        and par_.test.func.id == 'isinstance' and len(par_.test.args) == 2 and isinstance(par_.test.args[0], ast.Name) and par_.test.args[0].id in ep.params \
                        and isinstance(par_.test.args[1], ast.Name) and par_.test.args[1].id == 'bytes':
                    return True
                cur_ = par_
            return False

        def _ok_val(v):
            if v == 'param' or (isinstance(v, ast.Name) and v.id in ep.params):
                return _bytes_guarded(sites.get(id(v), c))
            if isinstance(v, ast.Call) and isinstance(v.func, ast.Attribute) and v.func.attr == 'encode' and isinstance(v.func.value, ast.Name) and v.func.value.id in ep.params:
                return True
            return _is_encode_call(v) and len(v.args) == 1 and isinstance(v.args[0], ast.Name) and v.args[0].id in ep.params
        okv = bool(vals) and all(_ok_val(v) for v in vals)
        rr.ob(ctx.where(ep, c), 'expand_prefix expands exactly the encoded prefix it was given', ok=okv)
        if not okv:
            rr.fail(ctx.finding('R-VARIATIONS', ep, c, 'Traph.expand_prefix alters the prefix before expanding it (%s): the variations of a different LRU are returned and attached, '
                                'and the given prefix is no longer listed first' % ', '.join(ast.unparse(v)[:50] if v != 'param' else 'raw parameter' for v in vals),
                                stmt='expand_prefix argument'))
    # ... and what it returns is that expansion, in the order lru_variations built it (the given prefix first)
    # expansion is total: expand_prefix refuses nothing on the grounds of the prefix's content (only __encode may reject a non-bytes argument)
    for rz in P.own(ep, ast.Raise):
        cur_, conds_ = P.parent.get(id(rz)), []
        while cur_ is not None and cur_ is not ep.node:
            if isinstance(cur_, (ast.If, ast.While)):
                conds_.append(cur_.test)
            cur_ = P.parent.get(id(cur_))
        names_ep = {a_.arg for a_ in ep.node.args.args if a_.arg != 'self'} | {t_.id for a_ in P.own(ep, ast.Assign) for t_ in a_.targets if isinstance(t_, ast.Name)}
        dep_ = [t_ for t_ in conds_ for c_ in ast.walk(t_) if isinstance(c_, ast.Call) and not (isinstance(c_.func, ast.Name) and c_.func.id in ('isinstance', 'type'))
                and any(isinstance(n_, ast.Name) and n_.id in names_ep for n_ in ast.walk(c_))]
        rr.ob(ctx.where(ep, rz), 'expand_prefix does not refuse a prefix for its content', ok=not dep_)
        if dep_:
            rr.fail(ctx.finding('R-VARIATIONS', ep, rz, 'Traph.expand_prefix raises under `%s`, a test of the prefix bytes: well-formed prefixes failing it (an empty-valued stem, an unusual '
                                'scheme) have no expansion any more, also when a creation rule proposes them during add_page' % ast.unparse(dep_[0])[:60], stmt='expand_prefix refusal'))
    from ..dataflow import single_defs as _sd_ep
    sd_ep = _sd_ep(P, ep)
    for r_ in P.own(ep, ast.Return):
        v_ = r_.value
        if isinstance(v_, ast.Name) and v_.id in sd_ep:
            v_ = sd_ep[v_.id]
        while isinstance(v_, ast.Call) and isinstance(v_.func, ast.Name) and v_.func.id in ('list', 'tuple') and len(v_.args) == 1:
            v_ = v_.args[0]
            if isinstance(v_, ast.Name) and v_.id in sd_ep:
                v_ = sd_ep[v_.id]
        is_call = isinstance(v_, ast.Call) and lv in P.targets(v_)
        reorder = [c for c in ast.walk(r_.value) if isinstance(c, ast.Call) and ((isinstance(c.func, ast.Name) and c.func.id in ('sorted', 'reversed', 'set', 'frozenset'))
                                                                              or (isinstance(c.func, ast.Attribute) and c.func.attr in ('sort', 'reverse')))] if r_.value is not None else []
        if not is_call and not reorder:
            # a return that does not come from lru_variations at all: a short cut that decides by itself what the class is
            from_lv = r_.value is not None and any(isinstance(c, ast.Call) and lv in P.targets(c) for c in ast.walk(r_.value))
            if not from_lv and not (isinstance(r_.value, ast.Name) and r_.value.id in sd_ep and any(isinstance(c, ast.Call) and lv in P.targets(c) for c in ast.walk(sd_ep[r_.value.id]))):
                rr.ob(ctx.where(ep, r_), 'expand_prefix answers with the expansion computed by lru_variations', ok=False)
                rr.fail(ctx.finding('R-VARIATIONS', ep, r_, 'Traph.expand_prefix answers `%s` without asking lru_variations: for the prefixes taking this short cut the scheme twin (and the '
                                    'www form) is missing, so the class depends on which variation is expanded' % ast.unparse(r_.value)[:40] if r_.value is not None else 'None',
                                    stmt='expand_prefix short cut'))
            continue
        rr.ob(ctx.where(ep, r_), 'expand_prefix returns the expansion in the order lru_variations built it', ok=not reorder)
        if reorder:
            rr.fail(ctx.finding('R-VARIATIONS', ep, r_, 'Traph.expand_prefix re-orders the expansion (`%s`): the given prefix is no longer listed first, and the order in which the variations '
                                'are attached and reported changes' % ast.unparse(reorder[0])[:50], stmt='expand_prefix order'))
    # every stem is split off: a bounded split glues the stems beyond the bound (host stems included) into one
    for u in (hv, lv):
        for c in P.own(u, ast.Call):
            if isinstance(c.func, ast.Attribute) and c.func.attr in ('split', 'rsplit') and (len(c.args) > 1 or any(k.arg == 'maxsplit' for k in c.keywords)):
                rr.ob(ctx.where(u, c), 'stems are split without a bound', ok=False)
                rr.fail(ctx.finding('R-VARIATIONS', u, c, '`%s` splits only a bounded number of stems: for an LRU with more stems before its last host stem, the remainder is one '
                                    'glued stem, the host section text no longer matches and the www variation is computed for a wrong host list' % ast.unparse(c)[:50]))
    # ---- (no-raise) list subscripts and pops
    nsites = [0]
    for u in (hv, lv):
        def on_site(node, var, lens, need, what, u=u):
            nsites[0] += 1
            ok = all(x >= min(need, 3) for x in lens)
            rr.ob(ctx.where(u, node), '%s on list `%s` whose possible lengths are %s needs length >= %d' % (
                what, var, sorted('3+' if x == 3 else str(x) for x in lens), need), ok=ok)
            if not ok:
                rr.fail(ctx.finding('R-VARIATIONS', u, node, '%s on list `%s` that can have length %s here: raises IndexError for such an LRU '
                                    '(expansion must never fail)' % (what, var, sorted(x for x in lens if x < need))))
        length_analysis(ctx, u, on_site)
    # ---- (no-raise) maybe-None values
    def may_return_none(fu):
        for r in P.own(fu, ast.Return):
            if r.value is None or (isinstance(r.value, ast.Constant) and r.value.value is None):
                return True
        g = ctx.cfg(fu)
        return any(not (p.kind == 'stmt' and isinstance(p.ast, ast.Return)) for p, _ in g.exit.pred)
    gf = guard_facts(ctx, lv)
    maybe_none = set()
    for a in P.own(lv, ast.Assign):
        if isinstance(a.value, ast.Call) and any(may_return_none(t) for t in P.targets(a.value)):
            for t in a.targets:
                if isinstance(t, ast.Name):
                    maybe_none.add(t.id)
    for f in P.own(lv, ast.For):
        if isinstance(f.iter, (ast.Tuple, ast.List)) and any(isinstance(e, ast.Name) and e.id in maybe_none for e in f.iter.elts):
            for t in ast.walk(f.target):
                if isinstance(t, ast.Name):
                    maybe_none.add(t.id)
    for x in P.own(lv, ast.Name):
        if x.id in maybe_none and isinstance(x.ctx, ast.Load):
            par = P.parent.get(id(x))
            consumed = isinstance(par, ast.Attribute) or (isinstance(par, ast.Call) and x in par.args) or isinstance(par, ast.Subscript)
            if not consumed:
                continue
            facts = gf.facts_at(x)
            if facts is None:
                continue
            nsites[0] += 1
            ok = ('NN', x.id) in facts
            rr.ob(ctx.where(lv, x), 'maybe-None value `%s` is used only under a truthiness guard' % x.id, ok=ok)
            if not ok:
                rr.fail(ctx.finding('R-VARIATIONS', lv, x, 'value `%s` may be None (no scheme variation) and is used unguarded: the expansion '
                                    'fails or lists None' % x.id))
    # ---- the www form is worked out whether or not the scheme has a twin: no return under "no scheme variation"
    for r_ in P.own(lv, ast.Return):
        facts = gf.facts_at(r_.value) if r_.value is not None else None
        if facts is None:
            facts = gf.facts_at(r_) if hasattr(gf, 'facts_at') else None
        if not facts:
            continue
        twinless = [f for f in facts if f[0] == 'F' and f[1] in maybe_none]
        if twinless:
            rr.ob(ctx.where(lv, r_), 'lru_variations does not stop at a scheme without twin', ok=False)
            rr.fail(ctx.finding('R-VARIATIONS', lv, r_, 'lru_variations returns as soon as the scheme has no http(s) twin (`%s` empty): for other schemes the www / non-www form is never '
                                'produced, so expanding the www form gives another class than expanding the bare one' % twinless[0][1], stmt='return without www'))
    # ---- (no-raise) a stem is taken apart with a bounded split when the pieces are unpacked into a fixed number of names
    for u in (hv, lv):
        for x in ast.walk(u.node):
            tgt, src = None, None
            if isinstance(x, ast.comprehension):
                tgt, src = x.target, x.iter
            elif isinstance(x, ast.For) and P.owner_of(u.node, x) is u.node:
                tgt, src = x.target, x.iter
            elif isinstance(x, ast.Assign) and len(x.targets) == 1:
                tgt, src = x.targets[0], x.value
            if not (isinstance(tgt, (ast.Tuple, ast.List)) and not any(isinstance(e, ast.Starred) for e in tgt.elts)):
                continue
            arity = len(tgt.elts)
            # the unpacked value: a split call itself, or the elements of a comprehension / list of split calls
            cands = []
            if isinstance(src, ast.Call):
                cands = [src]
            elif isinstance(src, ast.Name):
                for a in P.own(u, ast.Assign):
                    if any(isinstance(t, ast.Name) and t.id == src.id for t in a.targets) and isinstance(a.value, (ast.ListComp, ast.GeneratorExp)):
                        cands.append(a.value.elt)
            elif isinstance(src, (ast.ListComp, ast.GeneratorExp)):
                cands = [src.elt]
            for c in cands:
                if isinstance(c, ast.Call) and isinstance(c.func, ast.Attribute) and c.func.attr in ('split', 'rsplit') and c.args \
                        and not (len(c.args) > 1 or any(k.arg == 'maxsplit' for k in c.keywords)):
                    rr.ob(ctx.where(u, c), '`%s` unpacked into %d names is bounded to %d pieces' % (ast.unparse(c)[:30], arity, arity), ok=False)
                    rr.fail(ctx.finding('R-VARIATIONS', u, c, '`%s` is unpacked into %d names but splits at every separator: a stem whose value contains the separator (a port-like path, an '
                                        'IPv6 host, a query with `:`) makes the expansion raise ValueError' % (ast.unparse(c)[:40], arity), stmt='unbounded split unpacked'))
    # ---- (anchoring) the scheme test and rewrite look at the start of the LRU only
    p = hv.params[0]
    n_anchor = 0
    for t in ast.walk(hv.node):
        if isinstance(t, ast.Compare) and any(isinstance(o, (ast.In, ast.NotIn)) for o in t.ops) \
                and any(isinstance(c, ast.Name) and c.id == p for c in t.comparators):
            n_anchor += 1
            rr.ob(ctx.where(hv, t), 'scheme test `%s` is anchored at the start of the LRU' % ast.unparse(t), ok=False)
            rr.fail(ctx.finding('R-VARIATIONS', hv, t, 'scheme test `%s` matches anywhere in the LRU: a path/query stem containing the '
                                'scheme text is mistaken for the scheme stem' % ast.unparse(t)))
        if isinstance(t, ast.Call) and isinstance(t.func, ast.Attribute) and isinstance(t.func.value, ast.Name) and t.func.value.id == p:
            if t.func.attr in ('replace', 'find', 'index', 'partition', 'rpartition', 'rfind', 'rindex', 'count', 'split', 'rsplit'):
                n_anchor += 1
                rr.ob(ctx.where(hv, t), 'scheme rewrite `%s` is anchored at the start of the LRU' % ast.unparse(t)[:60], ok=False)
                rr.fail(ctx.finding('R-VARIATIONS', hv, t, 'scheme rewrite `%s` searches the whole LRU instead of rewriting the leading scheme '
                                    'stem: text inside a later stem can be rewritten' % ast.unparse(t)[:80]))
            elif t.func.attr == 'startswith':
                n_anchor += 1
                rr.ob(ctx.where(hv, t), 'scheme test `%s` is anchored at the start of the LRU' % ast.unparse(t), ok=True)
    if n_anchor == 0:
        # a rewrite through a regular expression: `.` does not match a line break unless DOTALL is set, and stems may contain any byte
        import re as _re3
        pats = []
        for st_ in [x for x in P.modules[hv.module].body if isinstance(x, ast.Assign)] + list(P.own(hv, ast.Assign)) + [ast.Expr(value=c) for c in P.own(hv, ast.Call)]:
            for c in ast.walk(st_):
                if isinstance(c, ast.Call) and isinstance(c.func, ast.Attribute) and c.func.attr in ('compile', 'match', 'sub', 'search', 'fullmatch') \
                        and isinstance(c.func.value, ast.Name) and c.func.value.id == 're' and c.args and isinstance(c.args[0], ast.Constant) and isinstance(c.args[0].value, (bytes, str)):
                    flags = ' '.join(ast.unparse(a) for a in c.args[1:]) + ' '.join(ast.unparse(k.value) for k in c.keywords)
                    pats.append((c, c.args[0].value, flags))
        used = {x.id for x in ast.walk(hv.node) if isinstance(x, ast.Name)}
        for c, pat, flags in pats:
            par_ = P.parent.get(id(c))
            if isinstance(par_, ast.Assign) and par_ in P.modules[hv.module].body and not any(isinstance(t, ast.Name) and t.id in used for t in par_.targets):
                continue
            import re._parser as _sp
            try:
                tree_ = _sp.parse(pat)
            except Exception:
                continue

            def has_any(t_):
                for op, av in t_:
                    if str(op) == 'ANY':
                        return True
                    if isinstance(av, tuple):
                        for z in av:
                            if hasattr(z, 'data') and has_any(z):
                                return True
                            if isinstance(z, list):
                                for zz in z:
                                    if hasattr(zz, 'data') and has_any(zz):
                                        return True
                    elif hasattr(av, 'data') and has_any(av):
                        return True
                return False
            dotall = 'DOTALL' in flags or 're.S' in flags or bool(tree_.state.flags & _re3.DOTALL)
            if has_any(tree_) and not dotall:
                n_anchor += 2
                rr.ob(ctx.where(hv, c), 'the scheme pattern carries the rest of the LRU over unchanged', ok=False)
                rr.fail(ctx.finding('R-VARIATIONS', hv, c, 'https_variation rewrites the scheme with the pattern %r: `.` stops at a line break (no DOTALL), so an LRU with a newline byte in a '
                                    'later stem gets a truncated twin - more than the scheme stem changes and the class is not closed' % pat, stmt='scheme pattern dot'))
    # the twin differs from the LRU in its scheme stem only: https_variation names no stem of another kind (a port, a host, a path)
    import re as _re_st
    doc_ = ast.get_docstring(hv.node, clean=False)
    for k_ in ast.walk(hv.node):
        if isinstance(k_, ast.Constant) and isinstance(k_.value, (bytes, str)) and k_.value != doc_:
            v_k = k_.value if isinstance(k_.value, bytes) else k_.value.encode('latin-1', 'replace')
            m_k = _re_st.fullmatch(rb'([a-z]):[^|]*\|', v_k)
            if m_k and m_k.group(1) != b's':
                rr.ob(ctx.where(hv, k_), 'https_variation touches the scheme stem only', ok=False)
                rr.fail(ctx.finding('R-VARIATIONS', hv, k_, 'https_variation names the non-scheme stem %r: the scheme twin then differs from the LRU in more than its scheme (or exists only '
                                    'for some ports/hosts), so the twin of the twin is not the LRU and the class depends on which variation is expanded' % k_.value, stmt='non-scheme stem'))
    rr.require(n_anchor, 2, 'scheme tests/rewrites in https_variation')
    # the scheme test names a whole stem (separator included) and the rewrite cuts exactly what the test matched
    from ..consts import const_env as _cenv
    CE_ = _cenv(ctx)

    def _fold(e):
        try:
            return CE_.ev(hv.module, e)
        except Exception:
            return None
    for t in ast.walk(hv.node):
        if not (isinstance(t, ast.Call) and isinstance(t.func, ast.Attribute) and isinstance(t.func.value, ast.Name) and t.func.value.id == p and t.func.attr == 'startswith'
                and len(t.args) == 1):
            continue
        needle = _fold(t.args[0])
        if not isinstance(needle, (bytes, str)):
            continue
        sep = b'|' if isinstance(needle, bytes) else '|'
        okn = needle.endswith(sep)
        rr.ob(ctx.where(hv, t), 'scheme test `%s` names a whole stem (closing separator included)' % ast.unparse(t)[:50], ok=okn)
        if not okn:
            rr.fail(ctx.finding('R-VARIATIONS', hv, t, 'scheme test `%s` has no closing separator: every scheme that merely begins with this text (s:httpx|, ...) is taken for it and gets a '
                                'mangled twin, so expansion changes more than the scheme stem and the class is not closed' % ast.unparse(t)[:60]))
        # the return guarded by this test cuts len(needle) bytes
        par_ = P.parent.get(id(t))
        while par_ is not None and not isinstance(par_, ast.If):
            par_ = P.parent.get(id(par_))
        if par_ is None or not any(x is t for x in ast.walk(par_.test)):
            continue
        for r_ in [x for st_ in par_.body for x in ast.walk(st_) if isinstance(x, ast.Return) and x.value is not None]:
            for sl in ast.walk(r_.value):
                if isinstance(sl, ast.Subscript) and isinstance(sl.value, ast.Name) and sl.value.id == p and isinstance(sl.slice, ast.Slice) and sl.slice.lower is not None \
                        and sl.slice.upper is None:
                    k_ = _fold(sl.slice.lower)
                    if not isinstance(k_, int):
                        continue
                    okc = k_ == len(needle)
                    rr.ob(ctx.where(hv, sl), 'the rewrite under `%s` cuts exactly the %d bytes the test matched' % (ast.unparse(t)[:40], len(needle)), ok=okc)
                    if not okc:
                        rr.fail(ctx.finding('R-VARIATIONS', hv, sl, 'under `%s` (%d bytes matched) the rewrite cuts %d bytes: the twin loses or keeps a byte of the scheme stem, which is not the '
                                            'http(s) twin of the LRU' % (ast.unparse(t)[:40], len(needle), k_)))
    # the www test / removal concerns the last host stem only
    host_lists = set()
    build_appends = set()
    for a in P.own(lv, ast.Assign):
        if isinstance(a.value, ast.ListComp) and 'startswith' in ast.unparse(a.value) and isinstance(a.targets[0], ast.Name):
            host_lists.add(a.targets[0].id)
    if not host_lists:
        # the same filter written as a loop: `hosts = []; for s in <stems>: if s.startswith(b'h:'): hosts.append(s)` (either polarity)
        from .generic_rules import round_must_pass as _rmp2
        for f_ in P.own(lv, ast.For):
            if not isinstance(f_.target, ast.Name) or any(isinstance(x, (ast.Break, ast.Return)) for b_ in f_.body for x in ast.walk(b_)):
                continue
            v_ = f_.target.id
            apps = [c for b_ in f_.body for c in ast.walk(b_) if isinstance(c, ast.Call) and isinstance(c.func, ast.Attribute) and c.func.attr == 'append'
                    and isinstance(c.func.value, ast.Name) and len(c.args) == 1 and isinstance(c.args[0], ast.Name) and c.args[0].id == v_]
            tests_ = [c for b_ in f_.body for c in ast.walk(b_) if isinstance(c, ast.Call) and isinstance(c.func, ast.Attribute) and c.func.attr == 'startswith'
                      and isinstance(c.func.value, ast.Name) and c.func.value.id == v_]
            if len(apps) == 1 and len(tests_) == 1:
                gf_ = guard_facts(ctx, lv).facts_at(apps[0]) or set()
                txt_ = ast.unparse(tests_[0])
                if any(f0[0] == 'T' and f0[1].replace(' ', '') == txt_.replace(' ', '') for f0 in gf_):
                    inits_ = [a for a in P.own(lv, ast.Assign) if any(isinstance(t, ast.Name) and t.id == apps[0].func.value.id for t in a.targets)]
                    if len(inits_) == 1 and isinstance(inits_[0].value, ast.List) and not inits_[0].value.elts:
                        host_lists.add(apps[0].func.value.id)
                        build_appends.add(id(apps[0]))
    if not host_lists:
        # the host stems are no longer collected by filtering every stem with startswith(b'h:'); the known wrong alternatives are
        # prefix scans (a port stem between scheme and hosts ends them) and regular expressions over the raw LRU (not anchored at a
        # stem start); anything else is not recognised
        for a in P.own(lv, ast.Assign):
            txt = ast.unparse(a.value)
            if isinstance(a.targets[0], ast.Name) and ('takewhile' in txt or 'dropwhile' in txt or '.findall(' in txt or '.finditer(' in txt or 're.' in txt) and 'h:' in \
                    (txt + ' '.join(ast.unparse(x.value) for m_ in [P.modules[lv.module]] for x in m_.body if isinstance(x, ast.Assign))):
                rr.ob(ctx.where(lv, a), 'the host stems are all the stems that start with h:', ok=False)
                rr.fail(ctx.finding('R-VARIATIONS', lv, a, 'the host stems are collected with `%s` instead of filtering every stem with startswith(b"h:"): a prefix scan stops at a port '
                                    'stem, a regular expression over the raw LRU also matches `h:` inside another stem; the www variation is then missing or computed for a wrong '
                                    'host list' % txt[:60], stmt='host stem collection'))
                return
    n_www = 0
    for t in ast.walk(lv.node):
        if isinstance(t, ast.Compare) and any(isinstance(o, (ast.In, ast.NotIn)) for o in t.ops) and any(isinstance(c, ast.Name) and c.id in host_lists for c in t.comparators):
            n_www += 1
            rr.ob(ctx.where(lv, t), 'www test `%s` looks at the last host stem only' % ast.unparse(t), ok=False)
            rr.fail(ctx.finding('R-VARIATIONS', lv, t, 'the www test `%s` matches a www stem anywhere among the hosts: an inner `h:www` stem would be removed and the '
                                'variation points at another site' % ast.unparse(t)))
        if isinstance(t, ast.Call) and isinstance(t.func, ast.Attribute) and isinstance(t.func.value, ast.Name) and t.func.value.id in host_lists \
                and t.func.attr in ('remove', 'index', 'count'):
            n_www += 1
            rr.ob(ctx.where(lv, t), 'www removal `%s` concerns the last host stem only' % ast.unparse(t), ok=False)
            rr.fail(ctx.finding('R-VARIATIONS', lv, t, '`%s` removes/locates the first matching host stem instead of the trailing one' % ast.unparse(t)))
        if isinstance(t, ast.Compare) and isinstance(t.left, ast.Call) and isinstance(t.left.func, ast.Attribute) and isinstance(t.left.func.value, ast.Subscript) \
                and isinstance(t.left.func.value.value, ast.Name) and t.left.func.value.value.id in host_lists \
                and t.left.func.attr in ('lower', 'upper', 'casefold', 'title', 'strip', 'lstrip', 'rstrip', 'swapcase', 'capitalize'):
            n_www += 1
            rr.ob(ctx.where(lv, t), 'www test `%s` compares the stored stem itself' % ast.unparse(t), ok=False)
            rr.fail(ctx.finding('R-VARIATIONS', lv, t, 'the www test compares a normalised copy of the last host stem (`.%s()`): a stem the other direction never writes (h:WWW, ...) is '
                                'removed, and expanding the result again appends lower-case h:www, so the class is not closed' % t.left.func.attr))
        if isinstance(t, ast.Compare) and isinstance(t.left, ast.Subscript) and isinstance(t.left.value, ast.Name) and t.left.value.id in host_lists:
            n_www += 1
            idx = ast.unparse(t.left.slice)
            rr.ob(ctx.where(lv, t), 'www test `%s` looks at the last host stem' % ast.unparse(t), ok=idx == '-1')
            if idx != '-1':
                rr.fail(ctx.finding('R-VARIATIONS', lv, t, 'the www test looks at host stem [%s], not at the trailing one' % idx))
    # `hosts[-1] in <bytes constant>` is a substring test (h, w, ww, :w ... all "match"); a www test by position in the list of ALL stems
    # ignores the stems that may sit between the scheme and the hosts (a port)
    for t in ast.walk(lv.node):
        if isinstance(t, ast.Compare) and len(t.ops) == 1 and isinstance(t.ops[0], (ast.In, ast.NotIn)) and isinstance(t.left, ast.Subscript) \
                and isinstance(t.left.value, ast.Name) and t.left.value.id in host_lists and isinstance(t.comparators[0], ast.Constant) \
                and isinstance(t.comparators[0].value, (bytes, str)):
            n_www += 1
            rr.ob(ctx.where(lv, t), 'www test `%s` compares the whole stem' % ast.unparse(t), ok=False)
            rr.fail(ctx.finding('R-VARIATIONS', lv, t, 'the www test `%s` asks whether the last host stem occurs INSIDE the constant (a byte-string `in`): stems like h:w or h:ww pass '
                                'for www and are removed, so the class is not closed' % ast.unparse(t)[:50]))
        if isinstance(t, ast.Compare) and isinstance(t.left, ast.Subscript) and isinstance(t.left.value, ast.Name) and t.left.value.id not in host_lists \
                and any(isinstance(c, ast.Constant) and isinstance(c.value, (bytes, str)) and c.value in (b'h:www', 'h:www') for c in t.comparators) \
                and any(isinstance(x, ast.Name) and x.id in host_lists for x in ast.walk(t.left.slice)):
            n_www += 1
            rr.ob(ctx.where(lv, t), 'www test `%s` looks at the last host stem' % ast.unparse(t)[:50], ok=False)
            rr.fail(ctx.finding('R-VARIATIONS', lv, t, 'the www test `%s` finds the last host by its position among all stems: with a stem between the scheme and the hosts (a port) it looks '
                                'at the wrong stem, so a www form gets a second www or a non-www host is removed' % ast.unparse(t)[:50]))
    # a www test that looks at the text of the whole LRU instead of the last host stem
    lp_ = lv.params[0] if lv.params else None
    for i_ in P.own(lv, ast.If):
        guards_hosts = any(isinstance(c, ast.Call) and isinstance(c.func, ast.Attribute) and c.func.attr in ('pop', 'append') and isinstance(c.func.value, ast.Name)
                           and c.func.value.id in host_lists and id(c) not in build_appends for b_ in i_.body + i_.orelse for c in ast.walk(b_))
        if not guards_hosts:
            continue
        raw = [x for x in ast.walk(i_.test) if isinstance(x, ast.Name) and x.id == lp_]
        www = [x for x in ast.walk(i_.test) if isinstance(x, ast.Constant) and isinstance(x.value, (bytes, str)) and (b'www' in x.value if isinstance(x.value, bytes) else 'www' in x.value)]
        if raw and www:
            n_www += 1
            rr.ob(ctx.where(lv, i_), 'www test `%s` looks at the last host stem' % ast.unparse(i_.test)[:50], ok=False)
            rr.fail(ctx.finding('R-VARIATIONS', lv, i_.test, 'the www test `%s` looks at the text of the whole LRU, not at the last host stem: for a prefix that goes on after its hosts (port, '
                                'path, query stems) a trailing www host is not recognised and gets a second www added, so the class is not closed' % ast.unparse(i_.test)[:50]))
    rr.require(n_www, 1, 'www tests in lru_variations')
    # a single host stem never gets a www added or removed (its www form would not expand back): checked with the length sets
    def on_www(node, var, lens, need, what):
        pass
    sites = []

    def collect(node, var, lens, need, what, u=lv):
        if what == 'pop' and var in host_lists:
            sites.append((node, var, lens, 'pop'))
    length_analysis(ctx, lv, collect)
    # appends: rerun with a hook on append
    from ..cfg import solve_forward as _sf
    app_sites = []
    for c in P.own(lv, ast.Call):
        if isinstance(c.func, ast.Attribute) and c.func.attr == 'append' and isinstance(c.func.value, ast.Name) and c.func.value.id in host_lists:
            if id(c) in build_appends:
                continue        # the append that collects the host stems, not the www variation
            app_sites.append(c)
    lens_at = _lengths_at(ctx, lv, app_sites + [s_[0] for s_ in sites])
    for c in app_sites + [s_[0] for s_ in sites]:
        ls = lens_at.get(id(c))
        if ls is None:
            continue
        okl = all(x >= 2 for x in ls)
        rr.ob(ctx.where(lv, c), 'the www stem is added/removed only when there are at least two host stems (lengths here: %s)' % sorted(ls), ok=okl)
        if not okl:
            rr.fail(ctx.finding('R-VARIATIONS', lv, c, 'a www stem is added to / removed from a host list that can hold a single host (lengths %s): the www form of a single-host prefix '
                                'does not expand back to it, so the class is not closed' % sorted(ls)))
    # the host list is changed (www removed or added) on every path that goes on to build the www variations: otherwise the "variation"
    # is the LRU itself, listed twice
    g_ = ctx.cfg(lv)
    changers = {id(c) for c in app_sites} | {id(s_[0]) for s_ in sites}
    IN_ = _sf(g_, False, lambda n_, st: True if (node_root(n_) is not None and any(id(x) in changers for x in ast.walk(node_root(n_)))) else st, lambda lab, st: st, lambda a, b: a and b)
    res_names_ = {r_.value.id for r_ in P.own(lv, ast.Return) if isinstance(r_.value, ast.Name)}
    for n_ in g_.nodes:
        root = node_root(n_)
        if root is None or n_.id not in IN_:
            continue
        for c in ast.walk(root):
            if isinstance(c, ast.Call) and isinstance(c.func, ast.Attribute) and c.func.attr == 'append' and isinstance(c.func.value, ast.Name) and c.func.value.id in res_names_ \
                    and c.args and isinstance(c.args[0], ast.Call) and isinstance(c.args[0].func, ast.Attribute) and c.args[0].func.attr == 'replace':
                if not changers:
                    continue        # the changed host list is built as a new value (`hosts[:-1]`, `hosts + [...]`), not edited in place
                okc = bool(IN_[n_.id])
                rr.ob(ctx.where(lv, c), 'a www variation is only built after the host list was changed', ok=okc)
                if not okc:
                    rr.fail(ctx.finding('R-VARIATIONS', lv, c, 'a path reaches `%s` without having added or removed the www stem: the "variation" is the LRU itself, so a prefix is listed twice '
                                        '(e.g. two host stems ending in www once the removal is limited to longer lists)' % ast.unparse(c)[:50], stmt='www variation unchanged hosts'))
    # the www variations are the LRU (and its scheme variation) with the host section substituted in place
    res_names = [r.value.id for r in P.own(lv, ast.Return) if isinstance(r.value, ast.Name)]
    for c in P.own(lv, ast.Call):
        if isinstance(c.func, ast.Attribute) and c.func.attr == 'append' and isinstance(c.func.value, ast.Name) and c.func.value.id in res_names and c.args:
            a = c.args[0]
            if isinstance(a, ast.Name):
                continue        # the scheme variation itself
            oks = isinstance(a, ast.Call) and isinstance(a.func, ast.Attribute) and a.func.attr == 'replace' and len(a.args) == 3 and ast.unparse(a.args[2]) == '1' \
                and isinstance(a.func.value, ast.Name)
            rr.ob(ctx.where(lv, c), 'www variation `%s` substitutes the host section in place' % ast.unparse(a)[:60], ok=oks)
            if not oks:
                rr.fail(ctx.finding('R-VARIATIONS', lv, c, 'a variation is built as `%s` instead of substituting the host section of the LRU in place: stems between the scheme and the '
                                    'hosts (a port) or after them can be lost or rewritten' % ast.unparse(a)[:70]))
            if oks:
                # what is searched for is the whole host section (every host stem joined), so that the first occurrence is the host section
                needle = a.args[0]
                defs = [x.value for x in P.own(lv, ast.Assign) if isinstance(needle, ast.Name) and any(isinstance(t, ast.Name) and t.id == needle.id for t in x.targets)] \
                    if isinstance(needle, ast.Name) else [needle]

                def is_join(e):
                    return isinstance(e, ast.BinOp) and isinstance(e.op, ast.Add) and isinstance(e.left, ast.Call) and isinstance(e.left.func, ast.Attribute) \
                        and e.left.func.attr == 'join' and e.left.args and isinstance(e.left.args[0], ast.Name) and e.left.args[0].id in host_lists
                okn = bool(defs) and all(is_join(d) for d in defs)
                rr.ob(ctx.where(lv, c), 'the text replaced by `%s` is the whole joined host section' % ast.unparse(a)[:50], ok=okn)
                if not okn:
                    rr.fail(ctx.finding('R-VARIATIONS', lv, c, 'the www variation replaces the first occurrence of `%s`, which is not the whole host section (%s): when the same stem text '
                                        'occurs earlier in the LRU, another stem is rewritten and the class is no longer closed'
                                        % (ast.unparse(needle), ', '.join(ast.unparse(d)[:40] for d in defs) or 'no definition'), stmt='www needle'))
    # strip()/rstrip()/lstrip() with an argument remove a SET of characters, not a prefix or suffix
    for u in (hv, lv):
        for c in P.own(u, ast.Call):
            if isinstance(c.func, ast.Attribute) and c.func.attr in ('strip', 'rstrip', 'lstrip') and c.args and isinstance(c.args[0], ast.Constant) \
                    and isinstance(c.args[0].value, (bytes, str)) and len(c.args[0].value) > 1:
                rr.ob(ctx.where(u, c), 'stems are removed as whole stems', ok=False)
                rr.fail(ctx.finding('R-VARIATIONS', u, c, '`%s` strips every trailing/leading character that occurs in %r, not that stem: a neighbouring host label ending in one of these '
                                    'characters is shortened too, so a non-www stem changes and the class is not closed' % (ast.unparse(c)[:50], c.args[0].value)))
    # the two scheme branches are symmetric: no http(s) LRU is declared twin-less under an extra condition (its twin would still map to it)
    for r_ in P.own(hv, ast.Return):
        is_none = r_.value is None or (isinstance(r_.value, ast.Constant) and r_.value.value is None)
        if is_none and r_ is not hv.node.body[-1] and not (isinstance(hv.node.body[-1], ast.If) and r_ in ast.walk(hv.node.body[-1]) and False):
            par_ = P.parent.get(id(r_))
            if isinstance(par_, ast.If):
                tested = ast.unparse(par_.test)
                rr.ob(ctx.where(hv, r_), 'https_variation gives every http(s) LRU its twin', ok=False)
                rr.fail(ctx.finding('R-VARIATIONS', hv, r_, 'https_variation returns None under `%s`: LRUs of that shape get no scheme twin although the twin still maps back to them, so the '
                                    'variation class depends on which variation is met first' % tested[:60]))
    # the scheme variation is another LRU or nothing: never the LRU itself (it would be listed twice)
    for r_ in P.own(hv, ast.Return):
        same = isinstance(r_.value, ast.Name) and r_.value.id in hv.params
        rr.ob(ctx.where(hv, r_), 'https_variation returns a different LRU or None', ok=not same)
        if same:
            rr.fail(ctx.finding('R-VARIATIONS', hv, r_, 'https_variation returns its argument unchanged for a scheme without twin: lru_variations tests the result for truthiness only, '
                                'so the prefix (and its www form) is listed twice'))
    # ---- (first) the result list starts with the input and is only appended to
    res = set()
    for r in P.own(lv, ast.Return):
        if isinstance(r.value, ast.Name):
            res.add(r.value.id)
        else:
            res.add('<%s>' % (ast.unparse(r.value) if r.value else None))
    ok = len(res) == 1 and not list(res)[0].startswith('<')
    if ok:
        rv = list(res)[0]
        inits = [a for a in P.own(lv, ast.Assign) if any(isinstance(t, ast.Name) and t.id == rv for t in a.targets)]
        ok = len(inits) == 1 and isinstance(inits[0].value, ast.List) and len(inits[0].value.elts) == 1 \
            and isinstance(inits[0].value.elts[0], ast.Name) and inits[0].value.elts[0].id == lv.params[0]
        for c in P.own(lv, ast.Call):
            if isinstance(c.func, ast.Attribute) and isinstance(c.func.value, ast.Name) and c.func.value.id == rv \
                    and c.func.attr != 'append':
                ok = False
        for a in P.own(lv, (ast.AugAssign, ast.Delete)):
            if rv in ast.unparse(a):
                ok = False
    rr.ob(ctx.where(lv), 'the result list is initialised with the input LRU and only appended to (input listed first)', ok=ok)
    if not ok:
        rr.fail(ctx.finding('R-VARIATIONS', lv, lv.node, 'the expansion no longer lists the given prefix first (result list not initialised '
                            'with the input or reordered)', stmt='result list'))
    rr.info['sites'] = nsites[0]
