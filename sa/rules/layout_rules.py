"""E7 rules on the on-disk layout: R-ACCESSOR-TABLE, R-GEOMETRY, R-TAIL-PROTOCOL."""
import ast
import collections

from ..core import rule
from ..program import AnalysisError
from ..consts import const_env, parse_format, UNKNOWN
from ..effects import STORAGES, NODEC, HDRC, TRIE_NODE, LINK_NODE, TRIE_HEADER, LINK_HEADER, self_attr
from ..guards import guard_facts

PREFIXES = ('has_', 'set_', 'unset_', 'read_')


def family_of(name):
    base = name
    for pre in PREFIXES:
        if base.startswith(pre):
            base = base[len(pre):]
            break
    if base.endswith('_node'):
        base = base[:-5]
    return base


def data_indices(P, u):
    """constant names used as subscript of self.data in unit u (directly)"""
    idx = []
    for n in P.own(u, ast.Subscript):
        if ast.unparse(n.value) == 'self.data':
            if isinstance(n.slice, ast.Name):
                idx.append(n.slice.id)
            else:
                idx.append('<%s>' % ast.unparse(n.slice))
    return idx


# flag vocabulary of the repository: (tester, setter, clearer) per flag; polarity: tester true <=> bit set, except
# can_have_child_webentities (true <=> bit clear, "flag_" clears it)
FLAG_FAMILIES = [
    ('is_page', 'flag_as_page', 'unflag_as_page', False),
    ('is_crawled', 'flag_as_crawled', 'unflag_as_crawled', False),
    ('has_webentity_creation_rule', 'flag_as_webentity_creation_rule', 'unflag_as_webentity_creation_rule', False),
    ('has_tail', 'flag_as_having_tail', None, False),
    ('is_tail', None, None, False),
    ('can_have_child_webentities', 'flag_can_have_child_webentities', None, True),
]


def flag_ops(P, u):
    """[(helper name, register const name, bit const name, negated)] for flag/unflag/test calls on self.data"""
    out = []
    for c in P.own(u, ast.Call):
        if isinstance(c.func, ast.Name) and c.func.id in ('flag', 'unflag', 'test') and len(c.args) == 3 \
                and ast.unparse(c.args[0]) == 'self.data':
            par = P.parent.get(id(c))
            neg = isinstance(par, ast.UnaryOp) and isinstance(par.op, ast.Not)
            out.append((c.func.id, ast.unparse(c.args[1]), ast.unparse(c.args[2]), neg))
    return out


def _fold_int(e, env):
    """value of a side-effect free integer / boolean expression over the names in env (None when it uses anything else)"""
    if isinstance(e, ast.Constant) and isinstance(e.value, (int, bool)):
        return e.value
    if isinstance(e, ast.Name):
        return env.get(e.id)
    if isinstance(e, ast.Subscript) and isinstance(e.value, ast.Name) and isinstance(e.slice, ast.Name):
        return env.get('%s[%s]' % (e.value.id, e.slice.id))
    if isinstance(e, ast.UnaryOp):
        v = _fold_int(e.operand, env)
        if v is None:
            return None
        return {ast.Invert: lambda x: ~x, ast.USub: lambda x: -x, ast.Not: lambda x: not x, ast.UAdd: lambda x: x}[type(e.op)](v)
    if isinstance(e, ast.BinOp):
        a, b = _fold_int(e.left, env), _fold_int(e.right, env)
        if a is None or b is None:
            return None
        try:
            return {ast.LShift: lambda x, y: x << y, ast.RShift: lambda x, y: x >> y, ast.BitAnd: lambda x, y: x & y, ast.BitOr: lambda x, y: x | y,
                    ast.BitXor: lambda x, y: x ^ y, ast.Add: lambda x, y: x + y, ast.Sub: lambda x, y: x - y, ast.Mult: lambda x, y: x * y,
                    ast.Pow: lambda x, y: x ** y if 0 <= y < 64 else None, ast.FloorDiv: lambda x, y: x // y, ast.Mod: lambda x, y: x % y}[type(e.op)](a, b)
        except (KeyError, ZeroDivisionError, ValueError):
            return None
    if isinstance(e, ast.Compare) and len(e.ops) == 1:
        a, b = _fold_int(e.left, env), _fold_int(e.comparators[0], env)
        if a is None or b is None:
            return None
        op = {ast.Eq: lambda x, y: x == y, ast.NotEq: lambda x, y: x != y, ast.Gt: lambda x, y: x > y, ast.GtE: lambda x, y: x >= y, ast.Lt: lambda x, y: x < y,
              ast.LtE: lambda x, y: x <= y}.get(type(e.ops[0]))
        return None if op is None else op(a, b)
    if isinstance(e, ast.Call) and isinstance(e.func, ast.Name) and e.func.id in ('bool', 'int') and len(e.args) == 1:
        v = _fold_int(e.args[0], env)
        return None if v is None else (bool(v) if e.func.id == 'bool' else int(v))
    return None


def _bit_helpers(ctx, rr):
    """flag / unflag / test of the node modules set, clear and read exactly bit `pos` of the register: decided by folding their one
    expression for every position of a byte and three register values"""
    P = ctx.P
    n = 0
    for mod in sorted({P.class_mod[TRIE_NODE], P.class_mod[LINK_NODE]}):
        for name in ('flag', 'unflag', 'test'):
            u = P.funcs.get((mod, name))
            if u is None:
                continue
            ps = u.call_params
            if len(ps) != 3:
                raise AnalysisError('R-ACCESSOR-TABLE: bit helper %s.%s does not take (data, register, pos)' % (mod, name))
            D, R, B = ps
            body = [s_ for s_ in u.node.body if not (isinstance(s_, ast.Expr) and isinstance(s_.value, ast.Constant))]
            bad = None
            for old in (0x00, 0xFF, 0xA5):
                for pos in range(8):
                    env = {B: pos, '%s[%s]' % (D, R): old}
                    got = None
                    # explaining locals in front of the one effective statement (`mask = 1 << pos`)
                    stmts_ = list(body)
                    while len(stmts_) > 1 and isinstance(stmts_[0], ast.Assign) and len(stmts_[0].targets) == 1 and isinstance(stmts_[0].targets[0], ast.Name):
                        v0 = _fold_int(stmts_[0].value, env)
                        if v0 is None:
                            break
                        env[stmts_[0].targets[0].id] = v0
                        stmts_ = stmts_[1:]
                    body_ = stmts_
                    if len(body_) == 1 and isinstance(body_[0], ast.AugAssign) and isinstance(body_[0].target, ast.Subscript) and ast.unparse(body_[0].target) == '%s[%s]' % (D, R):
                        v = _fold_int(body_[0].value, env)
                        if v is not None:
                            got = _fold_int(ast.BinOp(left=ast.Constant(value=old), op=body_[0].op, right=ast.Constant(value=v)), {})
                    elif len(body_) == 1 and isinstance(body_[0], ast.Assign) and ast.unparse(body_[0].targets[0]) == '%s[%s]' % (D, R):
                        got = _fold_int(body_[0].value, env)
                    elif len(body_) == 1 and isinstance(body_[0], ast.Return) and body_[0].value is not None:
                        got = _fold_int(body_[0].value, env)
                    if got is None:
                        raise AnalysisError('R-ACCESSOR-TABLE: bit helper %s.%s is not one foldable expression over (data[register], pos)' % (mod, name))
                    want = {'flag': old | (1 << pos), 'unflag': old & ~(1 << pos) & 0xFF, 'test': bool(old & (1 << pos))}[name]
                    if (bool(got) if name == 'test' else got) != want and bad is None:
                        bad = (old, pos, got, want)
            n += 1
            rr.ob(ctx.where(u), '%s(data, register, pos) %s exactly bit pos (24 cases folded)' % (name, {'flag': 'sets', 'unflag': 'clears', 'test': 'reads'}[name]), ok=bad is None)
            if bad is not None:
                rr.fail(ctx.finding('R-ACCESSOR-TABLE', u, u.node, 'bit helper %s: for register value 0x%02X and pos %d it gives %r where %r is required: %s touches other flags of the '
                                    'node (tail marks, page / crawled / rule marks) than the one it was asked for' % ((name,) + bad + (name,)), stmt='bit helper %s' % name))
    rr.require(n, 3, 'bit helpers')


@rule('R-ACCESSOR-TABLE')
def accessor_table(ctx, rr):
    P = ctx.P
    CE = const_env(ctx)
    _bit_helpers(ctx, rr)
    nfam = 0
    for cls in (TRIE_NODE, LINK_NODE):
        mod = P.class_mod[cls]
        methods = P.require_class(cls)
        fmt_name = 'LRU_TRIE_NODE_FORMAT' if cls == TRIE_NODE else 'LINK_STORE_NODE_FORMAT'
        size, nvalues, fields = parse_format(CE.require(mod, fmt_name))
        fam = collections.defaultdict(dict)
        for name, u in methods.items():
            if name.startswith('__') or name in ('unpack', 'pack', 'read', 'write', 'refresh', 'stem', 'set_stem') \
                    or 'set_default_data' in name:
                continue
            idx = data_indices(P, u)
            if idx:
                fam[family_of(name)][name] = idx
        by_const = {}
        for base, ms in sorted(fam.items()):
            generic = any('out' in methods[m].params for m in ms)
            consts = set(i for v in ms.values() for i in v)
            where = '%s:%d %s.%s*' % (P.paths[mod], methods[sorted(ms)[0]].node.lineno, cls, base)
            if generic:
                # has_links / links / set_links: out=True -> OUT field, out=False -> IN field, identically in all members
                maps = {}
                for m in ms:
                    maps[m] = _out_mapping(P, methods[m]) or _out_mapping_rows(ctx, methods[m])
                def val_of(x):
                    if x is None:
                        return None
                    return int(x) if str(x).isdigit() else CE.get(mod, x)
                vals = set(tuple(sorted((k_, val_of(x_)) for k_, x_ in v.items())) if v else None for v in maps.values())
                ok = len(vals) == 1 and None not in vals
                exp = None
                if ok:
                    mp = dict(list(vals)[0])
                    o = fam.get('outlinks', {})
                    i = fam.get('inlinks', {})
                    oc = set(val_of(x) for v in o.values() for x in v)
                    ic = set(val_of(x) for v in i.values() for x in v)
                    ok = {mp.get(True)} == oc and {mp.get(False)} == ic
                    exp = mp
                rr.ob(where, 'generic accessors %s select the outbound field for out=True and the inbound field for out=False, '
                      'the same fields the directional accessors use (%s)' % (sorted(ms), exp), ok=ok)
                if not ok:
                    rr.fail(ctx.finding('R-ACCESSOR-TABLE', methods[sorted(ms)[0]], methods[sorted(ms)[0]].node,
                                        'direction-generic accessors %s disagree with the directional accessors on which field is '
                                        'outbound/inbound: %s' % (sorted(ms), maps), stmt='%s.%s family' % (cls, base)))
                nfam += 1
                continue
            ok = len(consts) == 1 and not any(c.startswith('<') for c in consts)
            rr.ob(where, 'accessor family %s touches exactly one field constant %s' % (sorted(ms), sorted(consts)), ok=ok)
            nfam += 1
            if not ok:
                rr.fail(ctx.finding('R-ACCESSOR-TABLE', methods[sorted(ms)[0]], methods[sorted(ms)[0]].node,
                                    'accessor family `%s` touches several fields: %s' % (base, {k: sorted(set(v)) for k, v in ms.items()}),
                                    stmt='%s.%s family' % (cls, base)))
                continue
            cname = list(consts)[0]
            val = CE.require(mod, cname)
            ok2 = isinstance(val, int) and 0 <= val < nvalues and val not in by_const
            rr.ob(where, 'field position %s=%s is inside the record (%d values) and not shared with another family' % (cname, val, nvalues), ok=ok2)
            if not ok2:
                rr.fail(ctx.finding('R-ACCESSOR-TABLE', methods[sorted(ms)[0]], methods[sorted(ms)[0]].node,
                                    'field constant %s=%r of family `%s` is out of the record or also used by family `%s`'
                                    % (cname, val, base, by_const.get(val)), stmt='%s.%s family' % (cls, base)))
            by_const.setdefault(val, base)
        # read_X / X_node move along their own family's pointer
        fam_methods = collections.defaultdict(set)
        for name in methods:
            fam_methods[family_of(name)].add(name)
        for name, u in methods.items():
            if (name.startswith('read_') or name.endswith('_node')) and family_of(name) in fam:
                base = family_of(name)
                for c in P.own(u, ast.Call):
                    if isinstance(c.func, ast.Attribute) and self_attr(c.func) is not None:
                        callee = c.func.attr
                        if callee in methods and family_of(callee) in fam and family_of(callee) != base:
                            rr.fail(ctx.finding('R-ACCESSOR-TABLE', u, c, '%s.%s follows the pointer of another family (%s)' % (cls, name, callee)))
                rr.ob(ctx.where(u), '%s follows only its own family pointer `%s`' % (name, base), ok=True)
    # flags
    node = P.classes[TRIE_NODE]
    mod = P.class_mod[TRIE_NODE]
    bits = {}
    for tester, setter, clearer, inverted in FLAG_FAMILIES:
        names = [n for n in (tester, setter, clearer) if n]
        ops = {}
        for n in names:
            if n not in node:
                raise AnalysisError('anchor vanished: LRUTrieNode.%s' % n)
            o = flag_ops(P, node[n])
            if len(o) != 1:
                raise AnalysisError('LRUTrieNode.%s no longer is a single flag operation' % n)
            ops[n] = o[0]
        regs = {o[1] for o in ops.values()}
        bitnames = {o[2] for o in ops.values()}
        exp = {tester: ('test', inverted)}
        if setter:
            exp[setter] = ('unflag' if inverted else 'flag', False)
        if clearer:
            exp[clearer] = ('flag' if inverted else 'unflag', False)
        ok = len(bitnames) == 1 and regs == {'LRU_TRIE_NODE_FLAGS'} and all(
            (ops[n][0], ops[n][3]) == exp[n] for n in names)
        rr.ob('%s:%d %s' % (P.paths[mod], node[tester].node.lineno, tester),
              'flag family %s: one bit %s in the flags register, test/set/clear polarity as named' % (names, sorted(bitnames)), ok=ok)
        nfam += 1
        if not ok:
            rr.fail(ctx.finding('R-ACCESSOR-TABLE', node[tester], node[tester].node,
                                'flag family %s is inconsistent: %s' % (names, ops), stmt='flag family %s' % tester))
        for b in bitnames:
            v = CE.require(mod, b)
            if not (isinstance(v, int) and 0 <= v < 8) or (v in bits and bits[v] != b):
                rr.fail(ctx.finding('R-ACCESSOR-TABLE', node[tester], node[tester].node,
                                    'flag bit %s=%r is not a distinct bit of one byte (also %s)' % (b, v, bits.get(v)),
                                    stmt='flag bit %s' % b))
            bits[v] = b
    # the flags register constant is the position of the 'B' byte in the format, the stem is position 0 ('p')
    size, nvalues, fields = parse_format(CE.require(mod, 'LRU_TRIE_NODE_FORMAT'))
    pos = 0
    byte_pos = None
    for cnt, code in fields:
        if code == 'x':
            continue
        if code == 'B' and byte_pos is None:
            byte_pos = pos
        pos += 1 if code in 'sp' else cnt
    ok = CE.require(mod, 'LRU_TRIE_NODE_FLAGS') == byte_pos and CE.require(mod, 'LRU_TRIE_NODE_STEM') == 0 and fields[0][1] == 'p'
    rr.ob('%s LRU_TRIE_NODE_FORMAT' % P.paths[mod], 'flags register is the one-byte field (position %s) and the stem is the leading pascal string' % byte_pos, ok=ok)
    if not ok:
        rr.fail(ctx.finding('R-ACCESSOR-TABLE', node['is_page'], node['is_page'].node, 'LRU_TRIE_NODE_FLAGS / LRU_TRIE_NODE_STEM do not '
                            'match the byte / pascal-string positions of LRU_TRIE_NODE_FORMAT', stmt='flags register'))
    rr.require(nfam, 12, 'accessor families')
    rr.info['families'] = nfam
    rr.info['flag_bits'] = {str(k): v for k, v in bits.items()}


def _out_mapping(P, u):
    """{True: const, False: const} for the `offset = A; if not out: offset = B; self.data[offset]` idiom"""
    body = [s for s in u.node.body if not (isinstance(s, ast.Expr) and isinstance(s.value, ast.Constant))]
    var = None
    mp = {}
    for s in body:
        if isinstance(s, ast.Assign) and len(s.targets) == 1 and isinstance(s.targets[0], ast.Name) and isinstance(s.value, ast.Name):
            var = s.targets[0].id
            mp[True] = mp[False] = s.value.id
        elif isinstance(s, ast.If) and var and len(s.body) == 1 and isinstance(s.body[0], ast.Assign) \
                and isinstance(s.body[0].targets[0], ast.Name) and s.body[0].targets[0].id == var \
                and isinstance(s.body[0].value, ast.Name) and not s.orelse:
            t = ast.unparse(s.test)
            if t == 'not out':
                mp[False] = s.body[0].value.id
            elif t == 'out':
                mp[True] = s.body[0].value.id
            else:
                return None
        elif isinstance(s, ast.If):
            return None
    idx = data_indices(P, u)
    if var is None or set(idx) != {var}:
        return None
    return mp


def _out_mapping_rows(ctx, u):
    """the same mapping read off the decision table of the accessor (any spelling of the selection)"""
    from .table_rules import tables
    import re as _re
    try:
        rows = tables(ctx, u, iters=1)
    except AnalysisError:
        return None
    mp = {}
    for r in rows:
        o = r.val.get('truthy:out')
        if o is None:
            return None
        idx = set()
        for e in r.events:
            if e.kind in ('return', 'store'):
                idx |= set(_re.findall(r'self\.data\[(\w+)\]', (e.text or '') + ' ' + (e.name or '')))
        for k in r.val:
            idx |= set(_re.findall(r'self\.data\[(\w+)\]', k))
        if len(idx) != 1:
            return None
        if mp.get(o, list(idx)[0]) != list(idx)[0]:
            return None
        mp[o] = list(idx)[0]
    return mp if set(mp) == {True, False} else None


def list_len(CE, mod, e):
    if isinstance(e, ast.List):
        return len(e.elts)
    if isinstance(e, ast.BinOp) and isinstance(e.op, ast.Add):
        a, b = list_len(CE, mod, e.left), list_len(CE, mod, e.right)
        return None if a is None or b is None else a + b
    if isinstance(e, ast.BinOp) and isinstance(e.op, ast.Mult):
        a = list_len(CE, mod, e.left)
        k = CE.ev(mod, e.right)
        if a is not None and isinstance(k, int):
            return a * k
    return None


def pack_format_of(P, CE, u, e):
    """name of the struct format constant that expression e (a payload handed to storage.write) is packed with"""
    mod = u.module
    if isinstance(e, ast.Call):
        f = e.func
        if isinstance(f, ast.Attribute) and f.attr == 'pack' and isinstance(f.value, ast.Name):
            g = P.modglobals.get(mod, {}).get(f.value.id)
            if g and g[0] == 'extmod' and g[1] == 'struct' and e.args and isinstance(e.args[0], ast.Name):
                return e.args[0].id
        for t in P.targets(e):
            rets = [r.value for r in P.own(t, ast.Return) if r.value is not None]
            fm = {pack_format_of(P, CE, t, r) for r in rets}
            if len(fm) == 1:
                return list(fm)[0]
    if isinstance(e, ast.Name):
        vals = [a.value for a in P.own(u, ast.Assign) if any(isinstance(t, ast.Name) and t.id == e.id for t in a.targets)]
        fm = {pack_format_of(P, CE, u, v) for v in vals}
        if len(fm) == 1:
            return list(fm)[0]
    return None


@rule('R-GEOMETRY')
def geometry(ctx, rr):
    P = ctx.P
    CE = const_env(ctx)
    nmod, hmod = P.class_mod[TRIE_NODE], P.class_mod[TRIE_HEADER]
    lmod, lhmod = P.class_mod[LINK_NODE], P.class_mod[LINK_HEADER]

    def check(where, what, ok, u=None, node=None, stmt=None):
        rr.ob(where, what, ok=ok)
        if not ok:
            uu = u or P.method(TRIE_NODE, 'write')
            rr.fail(ctx.finding('R-GEOMETRY', uu, node or uu.node, 'layout relation broken: ' + what, stmt=stmt or what[:60]))

    nsize, nvals, nfields = parse_format(CE.require(nmod, 'LRU_TRIE_NODE_FORMAT'))
    hsize, hvals, _ = parse_format(CE.require(hmod, 'LRU_TRIE_HEADER_FORMAT'))
    lsize, lvals, _ = parse_format(CE.require(lmod, 'LINK_STORE_NODE_FORMAT'))
    lhsize, lhvals, _ = parse_format(CE.require(lhmod, 'LINK_STORE_HEADER_FORMAT'))
    check(P.paths[hmod], 'trie header block size %d == trie node block size %d' % (hsize, nsize), hsize == nsize, stmt='trie header size')
    check(P.paths[lhmod], 'link header block size %d == link node block size %d' % (lhsize, lsize), lhsize == lsize, stmt='link header size')
    check(P.paths[nmod], 'LRU_TRIE_NODE_BLOCK_SIZE folds to calcsize(node format) = %d' % nsize,
          CE.require(nmod, 'LRU_TRIE_NODE_BLOCK_SIZE') == nsize, stmt='trie block size')
    check(P.paths[lmod], 'LINK_STORE_NODE_BLOCK_SIZE folds to calcsize(link format) = %d' % lsize,
          CE.require(lmod, 'LINK_STORE_NODE_BLOCK_SIZE') == lsize, stmt='link block size')
    stem = CE.require(nmod, 'LRU_TRIE_STEM_SIZE')
    check(P.paths[nmod], 'LRU_TRIE_STEM_SIZE %s == pascal field %dp - 1 (length byte)' % (stem, nfields[0][0]),
          nfields[0][1] == 'p' and stem == nfields[0][0] - 1, stmt='stem size')
    f1 = CE.require(nmod, 'LRU_TRIE_FIRST_DATA_BLOCK')
    hb = CE.require(hmod, 'LRU_TRIE_HEADER_BLOCKS')
    check(P.paths[nmod], 'first trie data block %s == header blocks %s * block size and > 0 (0 stays NULL)' % (f1, hb),
          f1 == hb * nsize and f1 > 0, stmt='first trie data block')
    f2 = CE.require(lmod, 'LINK_STORE_FIRST_DATA_BLOCK')
    lhb = CE.require(lhmod, 'LINK_STORE_HEADER_BLOCKS')
    check(P.paths[lmod], 'first link data block %s == header blocks %s * block size and > 0 (0 stays NULL)' % (f2, lhb),
          f2 == lhb * lsize and f2 > 0, stmt='first link data block')
    # default data lists have as many values as the format packs
    for cls, mod, nv in ((TRIE_NODE, nmod, nvals), (LINK_NODE, lmod, lvals), (TRIE_HEADER, hmod, hvals), (LINK_HEADER, lhmod, lhvals)):
        for name, u in P.classes[cls].items():
            for a in P.own(u, ast.Assign):
                tnames = [ast.unparse(t) for t in a.targets]
                if ('self.data' in tnames or 'data' in tnames) and isinstance(a.value, (ast.List, ast.BinOp)):
                    ln = list_len(CE, mod, a.value)
                    if ln is None:
                        continue
                    check(ctx.where(u, a), '%s.%s builds a record of %d values; the format packs %d' % (cls, name, ln, nv), ln == nv, u, a)
    # the chunk size of the tail writer is the payload size of set_stem
    w = P.method(TRIE_NODE, 'write')
    ss = P.method(TRIE_NODE, 'set_stem')
    chunk_consts = set()
    for c in P.own(w, ast.Call):
        if any(t.is_gen for t in P.targets(c)) and c.args:
            chunk_consts.add(ast.unparse(c.args[0]))
    stem_consts = set()
    for n in ast.walk(ss.node):
        subs = []
        if isinstance(n, ast.Slice):
            subs = [x for x in (n.lower, n.upper) if x is not None]
        elif isinstance(n, ast.Compare) and 'len(' in ast.unparse(n):
            subs = [n.left] + list(n.comparators)
        for sub in subs:
            for x in ast.walk(sub):
                if isinstance(x, ast.Name) and x.id.isupper():
                    stem_consts.add(x.id)
    vals = {CE.get(nmod, c) for c in chunk_consts | stem_consts}
    check(ctx.where(w), 'tail chunk size %s and set_stem payload constants %s fold to the single value LRU_TRIE_STEM_SIZE=%s'
          % (sorted(chunk_consts), sorted(stem_consts), stem), bool(chunk_consts) and bool(stem_consts) and vals == {stem}, w, stmt='tail chunk size')
    # every storage.write payload is packed with the owning store's format, whose size is the block size the storage was built with
    traph_init = P.method('Traph', '__init__')
    built = {}    # field -> set(block size const value)
    for u in (traph_init,):
        for a in P.own(u, ast.Assign):
            if isinstance(a.value, ast.Call) and P.expr_classes(u, a.value) & set(STORAGES) and a.value.args:
                for t in a.targets:
                    if self_attr(t):
                        built.setdefault(self_attr(t), set()).add(CE.ev(u.module, a.value.args[0]))
    side = {}
    for a in P.own(traph_init, ast.Call):
        cl = {t.cls for t in P.targets(a)}
        if cl & {'LRUTrie', 'LinkStore'} and a.args and self_attr(a.args[0]):
            side['trie' if 'LRUTrie' in cl else 'links'] = built.get(self_attr(a.args[0]), set())
    check(ctx.where(traph_init), 'storages are built with block sizes trie=%s links=%s == node block sizes (%d, %d) on every branch'
          % (sorted(map(str, side.get('trie', []))), sorted(map(str, side.get('links', []))), nsize, lsize),
          side.get('trie') == {nsize} and side.get('links') == {lsize}, traph_init, stmt='storage block sizes')
    nwrites = 0
    for cls, fmt_mod, size in ((TRIE_NODE, nmod, nsize), (TRIE_HEADER, hmod, nsize), (LINK_NODE, lmod, lsize), (LINK_HEADER, lhmod, lsize)):
        for name, u in P.classes[cls].items():
            for c in P.own(u, ast.Call):
                if any(t.cls in STORAGES and t.name == 'write' for t in P.targets(c)):
                    nwrites += 1
                    fm = pack_format_of(P, CE, u, c.args[0]) if c.args else None
                    fsize = parse_format(CE.get(fmt_mod, fm))[0] if fm and CE.get(fmt_mod, fm) is not UNKNOWN else None
                    check(ctx.where(u, c), 'payload of `%s` is one struct.pack(%s) record of %s bytes == block size %d'
                          % (ast.unparse(c)[:60], fm, fsize, size), fsize == size, u, c)
    rr.require(nwrites, 6, 'storage.write sites in node/header classes')
    # unpack uses the same format as pack, per class
    for cls in (TRIE_NODE, TRIE_HEADER, LINK_NODE, LINK_HEADER):
        fms = set()
        for name, u in P.classes[cls].items():
            for c in P.own(u, ast.Call):
                f = c.func
                if isinstance(f, ast.Attribute) and f.attr in ('pack', 'unpack') and isinstance(f.value, ast.Name) and f.value.id == 'struct' \
                        and c.args and isinstance(c.args[0], ast.Name):
                    fms.add(c.args[0].id)
        check(P.paths[P.class_mod[cls]] + ' ' + cls, '%s packs and unpacks with one format constant %s' % (cls, sorted(fms)), len(fms) == 1, stmt=cls + ' formats')
    # sequential scans step by the storage block size
    for cls in ('LRUTrie', 'LinkStore'):
        u = P.method(cls, 'nodes_iter')
        reads = [c for c in P.own(u, ast.Call) if isinstance(c.func, ast.Attribute) and c.func.attr == 'read' and c.args and isinstance(c.func.value, ast.Name)]
        from ..dataflow import rtext as _rt
        steps = [_rt(P, u, c.args[0], keep=(c.func.value.id,)) for c in reads]
        ok = bool(reads) and all(_rt(P, u, c.args[0], keep=(c.func.value.id,)) in ('%s.block+self.storage.block_size' % c.func.value.id,
                                                          'self.storage.block_size+%s.block' % c.func.value.id) for c in reads)
        check(ctx.where(u), '%s.nodes_iter advances by exactly one block (%s)' % (cls, steps), ok, u, stmt='nodes_iter step')
        # ... and hands out every block it passes: block accounting (metrics, counters) is done by the consumers
        ys = [y for y in P.own(u, ast.Yield)]
        loops = [w for w in P.own(u, (ast.While, ast.For))]
        uncond = len(loops) == 1 and bool(ys) and any(P.stmt_of(y) in loops[0].body for y in ys)
        check(ctx.where(u), '%s.nodes_iter yields every block unconditionally' % cls, uncond, u, stmt='nodes_iter yield')
    rr.info.update({'trie_block': nsize, 'link_block': lsize, 'stem_payload': stem, 'node_values': nvals})


@rule('R-TAIL-PROTOCOL')
def tail_protocol(ctx, rr):
    """multi-block stems: the writer flags what the reader tests"""
    P = ctx.P
    node = P.require_class(TRIE_NODE)
    w, r, ss = P.method(TRIE_NODE, 'write'), P.method(TRIE_NODE, 'read'), P.method(TRIE_NODE, 'set_stem')
    has_tail_bit = flag_ops(P, P.method(TRIE_NODE, 'has_tail'))[0][2]
    is_tail_bit = flag_ops(P, P.method(TRIE_NODE, 'is_tail'))[0][2]

    def fail(u, n, msg):
        rr.fail(ctx.finding('R-TAIL-PROTOCOL', u, n, msg))

    # --- set_stem: head keeps the first payload bytes, the rest goes to the tail, has-tail flagged iff longer
    gf = guard_facts(ctx, ss)
    flagged = [c for c in P.own(ss, ast.Call) if isinstance(c.func, ast.Attribute) and c.func.attr == 'flag_as_having_tail']
    tails = [a for a in P.own(ss, ast.Assign) if any(ast.unparse(t) == 'self.tail' for t in a.targets)]
    ok = len(flagged) == 1 and len(tails) == 1
    if ok:
        for x in (flagged[0], tails[0].value):
            facts = gf.facts_at(x)
            from ..guards import holds_cmp
            ok = ok and holds_cmp(facts, 'len(%s)' % ss.call_params[0], '>', 'LRU_TRIE_STEM_SIZE')
        ok = ok and ast.unparse(tails[0].value).replace(' ', '') == '%s[LRU_TRIE_STEM_SIZE:]' % ss.call_params[0]
        heads = [a for a in P.own(ss, ast.Assign) if any(isinstance(t, ast.Subscript) and ast.unparse(t.value) == 'self.data' for t in a.targets)]
        hv = {ast.unparse(a.value).replace(' ', '') for a in heads}
        ok = ok and hv == {ss.call_params[0], '%s[:LRU_TRIE_STEM_SIZE]' % ss.call_params[0]}
    rr.ob(ctx.where(ss), 'set_stem: has-tail flag and tail remainder are set exactly when the stem exceeds the block payload; head keeps the first payload bytes', ok=ok)
    if not ok:
        fail(ss, ss.node, 'set_stem no longer splits the stem into payload-sized head plus tail under the `longer than payload` condition')
    # --- write: every tail block flagged IS_TAIL, HAS_TAIL iff not last
    gfw = guard_facts(ctx, w)
    loops = [f for f in P.own(w, ast.For) if isinstance(f.iter, ast.Call) and any(t.is_gen for t in P.targets(f.iter))]
    ok = len(loops) == 1
    if ok:
        loop = loops[0]
        tgt = [x.id for x in ast.walk(loop.target) if isinstance(x, ast.Name)]
        is_last = tgt[0] if tgt else None
        from .table_rules import tables
        import re as _re
        CE_ = const_env(ctx)
        mod_ = P.class_mod[TRIE_NODE]
        bit_is, bit_has = CE_.require(mod_, is_tail_bit), CE_.require(mod_, has_tail_bit)
        rows = tables(ctx, w, stmts=loop.body, iters=1, keep=lambda nm, c: nm in ('flag', 'unflag', 'write', 'pack'))
        ops = []
        ok = bool(rows)
        for row in rows:
            last = row.val.get('truthy:' + is_last)
            # the record that is packed: a list literal whose 2nd element is the flags byte, then flag()/unflag() calls on it
            byte, rec = None, None
            for e in row.events:
                if e.kind == 'set' and e.args:
                    m = _re.search(r'[\[\(]\s*[^,\[\]\(\)]+,\s*(\d+)\s*[\]\)]', e.args[0])
                    if m:
                        byte, rec, rec_text = int(m.group(1)), e.name, e.args[0]
                if e.kind == 'call' and e.name in ('flag', 'unflag') and len(e.args) == 3 and rec is not None and \
                        (e.args[0].split('#')[0] == rec or e.args[0] == rec_text):
                    try:
                        bit = int(e.args[2])
                    except ValueError:
                        byte = None
                        break
                    byte = (byte | (1 << bit)) if e.name == 'flag' else (byte & ~(1 << bit))
            if byte is None:
                ok = False
                ops.append(('?', last))
                continue
            ops.append((byte, last))
            has_is, has_has = bool(byte >> bit_is & 1), bool(byte >> bit_has & 1)
            if last is None:
                # the path does not depend on is_last: then HAS_TAIL would be the same for last and non-last chunks
                ok = False
            elif not has_is or has_has != (not last):
                ok = False
        # the tail blocks are appended (no block argument) right after the head
        sw = [c for c in ast.walk(loop) if isinstance(c, ast.Call) and any(t.cls in STORAGES and t.name == 'write' for t in P.targets(c))]
        ok = ok and len(sw) == 1 and len(sw[0].args) == 1 and not sw[0].keywords
        rr.info['tail_writer_ops'] = [list(map(str, o)) for o in ops]
    # the "is this a new node" test of the tail writer sees the state before this write: `self.exists` is not set earlier in write()
    if loops:
        cfgw = ctx.cfg(w)
        encl = P.parent.get(id(loops[0]))
        while encl is not None and not isinstance(encl, ast.If):
            encl = P.parent.get(id(encl))
        sets = [n_ for n_ in cfgw.nodes if n_.kind == 'stmt' and isinstance(n_.ast, ast.Assign) and any(ast.unparse(t) == 'self.exists' for t in n_.ast.targets)]
        tests = [n_ for n_ in cfgw.nodes if n_.kind == 'test' and encl is not None and n_.ast is encl.test]
        early = False
        for s0 in sets:
            seen_, work_ = set(), [s0]
            while work_:
                x_ = work_.pop()
                for y_, _lab in x_.succ:
                    if y_.id not in seen_:
                        seen_.add(y_.id)
                        work_.append(y_)
            if any(t_.id in seen_ for t_ in tests):
                early = True
        oke = bool(tests) and 'self.exists' in ast.unparse(encl.test) and not early
        rr.ob(ctx.where(w, encl or w.node), 'write: the tail is written for every node that did not exist before this write (`exists` is updated after the tail test)', ok=oke)
        if not oke:
            fail(w, encl or w.node, 'the tail writer no longer runs for every new node with an overflowing stem (`self.exists` is set before the test, or the test lost it): the head '
                 'is flagged HAS_TAIL but no tail block follows, the next appended block is swallowed as its tail')
    rr.ob(ctx.where(w), 'write: each tail block carries IS_TAIL, carries HAS_TAIL iff it is not the last chunk, and is appended', ok=ok)
    if not ok:
        fail(w, loops[0] if loops else w.node, 'tail writer does not flag IS_TAIL on every chunk and HAS_TAIL exactly on non-last chunks (or does not append)')
    # the tail is only written for a node that does not exist yet
    if loops:
        facts = gfw.facts_at(loops[0].iter) or set()
        ok = any(f[0] == 'F' and f[1] == 'self.exists' for f in facts) and any(f[0] == 'T' and f[1] == 'self.tail' for f in facts)
        rr.ob(ctx.where(w, loops[0]), 'tail blocks are appended only for a new node with a non-empty tail', ok=ok)
        if not ok:
            fail(w, loops[0], 'tail blocks may be appended again when an existing node is rewritten')
    # --- read: continue iff HAS_TAIL of the block just read; tail read only when head has_tail
    gfr = guard_facts(ctx, r)
    wl = [x for x in P.own(r, ast.While)]
    ok = len(wl) == 1
    if ok:
        brk = [b for b in ast.walk(wl[0]) if isinstance(b, ast.Break)]
        okb = False
        for b in brk:
            facts = gfr.facts_at(b) or set()
            for f in facts:
                if f[0] == 'F' and f[1].replace(' ', '').startswith('test(') and f[1].replace(' ', '').endswith(',%s)' % has_tail_bit):
                    okb = True
        facts = gfr.facts_at(wl[0].test) or set()
        okh = any(f[0] == 'T' and f[1] == 'self.has_tail()' for f in facts)
        ok = okb and okh
    if len(wl) == 1:
        # every chunk read by the loop ends up in the tail: inside the loop the tail is grown (`+=`, a list that is joined afterwards), never re-bound
        plain = [a for a in ast.walk(wl[0]) if isinstance(a, ast.Assign) and any(ast.unparse(t) == 'self.tail' for t in a.targets)
                 and not any(ast.unparse(x) == 'self.tail' for x in ast.walk(a.value))]
        rr.ob(ctx.where(r, wl[0]), 'read: the tail is assembled from every chunk the loop reads', ok=not plain)
        # ... as it is: the pascal field hands back exactly the bytes written (its own length byte says how many), so nothing is
        # stripped, cut or replaced on the way into the tail
        from ..dataflow import resolve_locals as _rlt
        pieces = []
        for x in ast.walk(wl[0]):
            if isinstance(x, ast.Call) and isinstance(x.func, ast.Attribute) and x.func.attr in ('append', 'extend') and x.args and P.owner_of(r.node, x) is r.node:
                pieces.append(x.args[0])
            if isinstance(x, ast.AugAssign) and isinstance(x.op, ast.Add):
                pieces.append(x.value)
        altered = []
        for e_ in pieces:
            v_ = _rlt(P, r, e_)
            if any(isinstance(c_, ast.Call) and isinstance(c_.func, ast.Attribute) and c_.func.attr in ('rstrip', 'strip', 'lstrip', 'replace', 'rstrip', 'decode', 'lower', 'upper', 'split',
                                                                                                          'partition', 'rpartition', 'translate') for c_ in ast.walk(v_)) \
                    or any(isinstance(c_, ast.Subscript) and isinstance(c_.slice, ast.Slice) for c_ in ast.walk(v_)):
                altered.append(e_)
        rr.ob(ctx.where(r, wl[0]), 'read: tail chunks enter the stem exactly as unpacked', ok=not altered)
        for e_ in altered[:1]:
            fail(r, e_, 'a tail chunk is altered before it is added to the stem (`%s`): a stem whose chunk ends (or starts) with the bytes removed reads back shorter than it was written, is '
                 'not found again and gets stored twice' % ast.unparse(_rlt(P, r, e_))[:50])
        for a in plain[:1]:
            fail(r, a, 'the tail loop re-binds self.tail to the chunk just read (`%s`): for a stem of three blocks or more only the last chunk survives, the stem read back is not the '
                 'stem written' % ast.unparse(a)[:50])
    rr.ob(ctx.where(r), 'read: the tail loop is entered iff the head has HAS_TAIL and stops at the first block without HAS_TAIL (bit %s)' % has_tail_bit, ok=ok)
    if not ok:
        fail(r, wl[0] if wl else r.node, 'tail reader no longer continues exactly while the block just read carries the HAS_TAIL flag the writer sets')
    # whenever the head carries HAS_TAIL the tail is read: no extra condition may skip it
    from .table_rules import tables
    rows = tables(ctx, r, iters=1, keep=lambda nm, c: nm in ('read', 'has_tail'))
    badrows = []
    for row in rows:
        ht = [v for k, v in row.val.items() if k.endswith('.has_tail()')]
        exists = [v for k, v in row.val.items() if k.startswith('isnone:')]
        tail_reads = [e for e in row.calls('read') if not e.args]
        if ht and ht[-1] is True and not tail_reads:
            badrows.append(row)
    rr.ob(ctx.where(r), 'read: a head with HAS_TAIL always gets its tail blocks read (%d rows)' % len(rows), ok=not badrows)
    for row in badrows[:1]:
        fail(r, wl[0] if wl else r.node, 'a node whose head carries HAS_TAIL can be loaded without its tail (an extra condition skips the tail read): the stem comes back '
             'truncated to the block payload')
    # stem() = head + tail
    st = P.method(TRIE_NODE, 'stem')
    rets = [x.value for x in P.own(st, ast.Return) if x.value is not None]
    ok = len(rets) == 1 and isinstance(rets[0], ast.BinOp) and isinstance(rets[0].op, ast.Add) and ast.unparse(rets[0].right) == 'self.tail'
    if ok:
        head = rets[0].left
        if isinstance(head, ast.Name):
            src = [a.value for a in P.own(st, ast.Assign) if any(isinstance(t, ast.Name) and t.id == head.id for t in a.targets)]
            ok = len(src) == 1 and ast.unparse(src[0]) == 'self.data[LRU_TRIE_NODE_STEM]'
        else:
            ok = ast.unparse(head) == 'self.data[LRU_TRIE_NODE_STEM]'
    rr.ob(ctx.where(st), 'stem() returns head payload followed by the tail', ok=ok)
    if not ok:
        fail(st, st.node, 'stem() no longer returns head payload + tail')


@rule('R-METRICS')
def metrics(ctx, rr):
    """metrics count each kind of block by its own mark, independently of the other marks"""
    P = ctx.P
    u = P.method('LRUTrie', 'metrics')
    loops = [f for f in P.own(u, ast.For) if isinstance(f.iter, ast.Call) and any(t.name == 'nodes_iter' for t in P.targets(f.iter))]
    if not loops:
        raise AnalysisError('R-METRICS: LRUTrie.metrics no longer scans the blocks with nodes_iter')
    from .table_rules import tables
    spec_all = {"'nb_nodes'": None, "'nb_pages'": ['.is_page()'], "'nb_crawled_pages'": ['.is_page()', '.is_crawled()'], "'nb_fragmented_nodes'": ['.has_tail()'],
                "'nb_tail_nodes'": ['.is_tail()']}
    # a counter is checked in the scan loop that maintains it (the scan may be split into several passes)
    tabs = []
    for lp_ in loops:
        rws = tables(ctx, u, stmts=lp_.body, iters=1, keep=lambda n, c: n in ('is_page', 'is_crawled', 'has_tail', 'is_tail'))
        mine = {k for k in spec_all for r in rws for e in r.events if e.kind == 'store' and 'Add=' in e.text and k in (e.name or '')}
        tabs.append((lp_, rws, mine))
    missing = set(spec_all) - set().union(*[m for _, _, m in tabs])
    dup = [k for k in spec_all if sum(1 for _, _, m in tabs if k in m) > 1]
    bad = []
    if missing or dup:
        bad.append((tabs[0][1][0], 'counter(s) %s are %s' % (sorted(missing or dup), 'never incremented' if missing else 'maintained by more than one pass')))
    rows = []
    for lp_, rws, mine in tabs:
      spec = {k: v for k, v in spec_all.items() if k in mine}
      rows += rws
      for r in rws:
          incs = {}
          for e in r.events:
              if e.kind == 'store' and 'Add=' in e.text and e.args == ['1']:
                  for k in spec:
                      if k in (e.name or ''):
                          incs[k] = incs.get(k, 0) + 1
          for k, marks in spec.items():
              if marks is None:
                  want = True
              else:
                  vals = [[v for kk, v in r.val.items() if kk.endswith(m)] for m in marks]
                  if any(not v for v in vals):
                      if any(v and v[-1] is False for v in vals):
                          want = False
                      else:
                          bad.append((r, 'counter %s is decided without looking at %s' % (k, marks)))
                          continue
                  else:
                      want = all(v[-1] for v in vals)
              if (incs.get(k, 0) == 1) != want or incs.get(k, 0) > 1:
                  bad.append((r, 'counter %s is %s although %s' % (k, 'incremented' if incs.get(k) else 'not incremented', marks)))
    rr.ob(ctx.where(u, loops[0]), 'metrics: nodes, pages, crawled pages, fragmented nodes and tail blocks are each counted by their own mark (%d rows)' % len(rows), ok=not bad)
    for r, msg in bad[:3]:
        rr.fail(ctx.finding('R-METRICS', u, loops[0], 'LRUTrie.metrics: ' + msg, detail={'row': r.show()[:300]}))
    lm = P.method('LinkStore', 'metrics')
    ok = any(isinstance(c, ast.Call) and any(t.name == 'count_links' for t in P.targets(c)) for c in P.own(lm, ast.Call))
    rr.ob(ctx.where(lm), 'link metrics are derived from count_links', ok=ok)
    if not ok:
        rr.fail(ctx.finding('R-METRICS', lm, lm.node, 'LinkStore.metrics no longer reports count_links', stmt='link metrics'))
