"""Further table rules widening the behaviour covered per property: R-ENUM-FILTERS, R-LRU-ASSEMBLY, R-LINK-WALK, R-PREFIX-EDIT,
R-PAGINATE, R-STORAGE-SEM, R-HIERARCHY."""
import ast

from ..core import rule
from ..program import AnalysisError
from ..abpe import split_tuple
from ..dataflow import names_in_target, node_root
from ..effects import TRIE_NODE, STORAGES, self_attr
from ..guards import guard_facts, holds_cmp
from .table_rules import tables, base, first_idx
from .table_rules2 import atom_val


# ------------------------------------------------------------------------------------------------ R-ENUM-FILTERS
@rule('R-ENUM-FILTERS')
def enum_filters(ctx, rr):
    """enumerations and counters select nodes by exactly the mark they report"""
    P = ctx.P
    specs = [
        ('LRUTrie.pages_iter', 'yield', ['.is_page()']),
        ('LRUTrie.webentity_prefix_iter', 'yield', ['.has_webentity()']),
        ('LRUTrie.count_pages', 'count', ['.is_page()']),
        ('LRUTrie.count_crawled_pages', 'count', ['.is_page()', '.is_crawled()']),
        ('Traph.webentity_page_nodes_iter', 'yield', ['.is_page()']),
    ]
    for qual, kind, marks in specs:
        u = P.unit(qual)
        loops = [f for f in ast.walk(u.node) if isinstance(f, ast.For)]
        if not loops and kind == 'count':
            # comprehension form: sum(1 for n in self.nodes_iter() if <marks>)
            gens = [g for g in ast.walk(u.node) if isinstance(g, ast.GeneratorExp) and isinstance(g.elt, ast.Constant) and g.elt.value == 1 and len(g.generators) == 1]
            if len(gens) == 1:
                comp = gens[0].generators[0]
                conds = []
                for c_ in comp.ifs:
                    conds += (c_.values if isinstance(c_, ast.BoolOp) and isinstance(c_.op, ast.And) else [c_])
                got = sorted('.' + ast.unparse(c_).split('.', 1)[1] for c_ in conds if isinstance(c_, ast.Call) and '.' in ast.unparse(c_))
                okc = got == sorted(marks) and len(got) == len(conds) and isinstance(comp.iter, ast.Call) and any(t.name == 'nodes_iter' for t in P.targets(comp.iter))
                rr.ob(ctx.where(u, gens[0]), '%s counts exactly the nodes with %s (comprehension over every block)' % (qual, ' and '.join(marks)), ok=okc)
                if not okc:
                    rr.fail(ctx.finding('R-ENUM-FILTERS', u, gens[0], '%s: the counting comprehension filters by %s instead of %s' % (qual, got, marks)))
                continue
        if not loops:
            raise AnalysisError('R-ENUM-FILTERS: %s no longer iterates' % qual)
        lp = loops[-1]
        rows = tables(ctx, u, stmts=lp.body, iters=1)
        bad = []
        for r in rows:
            vals = [atom_val(r, m) for m in marks]
            want = all(v is True for v in vals)
            acted = bool([e for e in r.events if e.kind == 'yield']) if kind == 'yield' else bool([e for e in r.events if e.kind == 'aug' and e.args == ['1']])
            decided = all(v is not None for v in vals) or any(v is False for v in vals)
            if not decided and acted:
                bad.append((r, 'a node is %s without testing %s' % ('yielded' if kind == 'yield' else 'counted', marks)))
            elif acted != want and decided:
                bad.append((r, 'a node is %s although %s = %s' % (('yielded' if kind == 'yield' else 'counted') if acted else 'skipped', marks, vals)))
        src_ok = True
        if kind == 'count':
            src_ok = isinstance(lp.iter, ast.Call) and any(t.name == 'nodes_iter' for t in P.targets(lp.iter))
        rr.ob(ctx.where(u, lp), '%s selects exactly the nodes with %s (%d rows)' % (qual, ' and '.join(marks), len(rows)), ok=not bad and src_ok)
        for r, msg in bad:
            rr.fail(ctx.finding('R-ENUM-FILTERS', u, lp, '%s: %s' % (qual, msg), detail={'row': r.show()[:300]}))
        if not src_ok:
            rr.fail(ctx.finding('R-ENUM-FILTERS', u, lp, '%s no longer scans every block (nodes_iter)' % qual))
    # page listings report the crawled mark of the node they list
    for qual, only in (('Traph.get_webentity_pages_iter', False), ('Traph.get_webentity_crawled_pages_iter', True)):
        u = P.unit(qual)
        loops = [f for f in P.own(u, ast.For)]
        rows = tables(ctx, u, stmts=loops[0].body, iters=1, keep=lambda n, c: n in ('append', 'is_crawled'))
        bad = []
        import re as _re2
        for r in rows:
            apps = r.calls('append')
            cr = atom_val(r, '.is_crawled()')
            sets = {e.name: (e.args[0] if e.args else '') for e in r.events if e.kind == 'set' and e.name}

            def resolved(txt, depth=3):
                for _ in range(depth):
                    txt = _re2.sub(r'[A-Za-z_][A-Za-z_0-9]*(#\d+)?', lambda m_: sets.get(m_.group(0).split('#')[0], m_.group(0)) if m_.group(0).split('#')[0] in sets else m_.group(0), txt)
                return txt
            if only:
                if bool(apps) != bool(cr):
                    bad.append((r, 'page %s although crawled=%s' % ('listed' if apps else 'dropped', cr)))
                for a in apps:
                    t_ = resolved(a.args[0])
                    if "'crawled': True" not in t_ and not ("'crawled': " in t_ and '.is_crawled()' in t_.split("'crawled': ", 1)[1]):
                        bad.append((r, 'crawled-only listing reports %s' % a.args[0]))
            else:
                if len(apps) != 1:
                    bad.append((r, 'every page of the walk must be listed once'))
                for a in apps:
                    t_ = resolved(a.args[0])
                    if '.is_crawled()' not in t_ or "'lru'" not in t_:
                        bad.append((r, 'listing entry %s does not carry the LRU and the crawled mark of the node' % a.args[0]))
        rr.ob(ctx.where(u, loops[0]), '%s lists %s with their own crawled mark' % (qual, 'crawled pages only' if only else 'every page'), ok=not bad)
        for r, msg in bad:
            rr.fail(ctx.finding('R-ENUM-FILTERS', u, loops[0], '%s: %s' % (qual, msg), detail={'row': r.show()[:300]}))


# ------------------------------------------------------------------------------------------------ R-LRU-ASSEMBLY
@rule('R-LRU-ASSEMBLY')
def lru_assembly(ctx, rr):
    """LRUs are assembled in stem order: top-down walks append the stem, the bottom-up walk prepends the parent's stem"""
    P = ctx.P
    n = 0
    for u in P.units:
        if u.cls != 'LRUTrie':
            continue
        for b in P.own(u, (ast.BinOp, ast.AugAssign)):
            if isinstance(b, ast.BinOp) and isinstance(b.op, ast.Add):
                l, r_ = ast.unparse(b.left), ast.unparse(b.right)
                if l.endswith('.stem()') or r_.endswith('.stem()'):
                    n += 1
                    bottom_up = u.name.startswith('windup')
                    ok = (l.endswith('.stem()') and not r_.endswith('.stem()')) if bottom_up else (r_.endswith('.stem()') and not l.endswith('.stem()'))
                    rr.ob(ctx.where(u, b), '%s assembles the LRU as `%s` (%s)' % (u.qual, ast.unparse(b), 'parent stem first' if bottom_up else 'accumulated prefix first'), ok=ok)
                    if not ok:
                        rr.fail(ctx.finding('R-LRU-ASSEMBLY', u, b, '%s concatenates stems in the wrong order (`%s`): the LRU read back is not the LRU stored' % (u.qual, ast.unparse(b))))
            elif isinstance(b, ast.AugAssign) and isinstance(b.op, ast.Add) and ast.unparse(b.value).endswith('.stem()'):
                n += 1
                okx = not u.name.startswith('windup')
                rr.ob(ctx.where(u, b), '%s extends the LRU by the stem of the node it leaves downwards' % u.qual, ok=okx)
                if not okx:
                    rr.fail(ctx.finding('R-LRU-ASSEMBLY', u, b, '%s appends the stem of a parent to the LRU built so far (`%s`): the bottom-up walk must put the parent stem in front, the LRU '
                                        'read back is not the LRU stored' % (u.qual, ast.unparse(b))))
    rr.require(n, 5, 'stem concatenations')
    # windup walks the parents of the node it was given and starts from that node's own stem
    w = P.method('LRUTrie', 'windup_lru')
    ok = any(isinstance(f.iter, ast.Call) and any(t.name == 'node_parents_iter' for t in P.targets(f.iter)) for f in P.own(w, ast.For))
    inplace = [lp_ for lp_ in P.own(w, ast.While) if any(isinstance(c, ast.Call) and isinstance(c.func, ast.Attribute) and c.func.attr == 'read_parent' for c in ast.walk(lp_))]
    if not ok and inplace and any(isinstance(c, ast.Call) and isinstance(c.func, ast.Attribute) and c.func.attr == 'parent_node' for c in P.own(w, ast.Call)):
        ok = True           # the same climb written in place; its exits are checked below like those of node_parents_iter
    # stems collected bottom-up in a list are put in top-down order before they are joined
    for L_ in {c.func.value.id for c in P.own(w, ast.Call) if isinstance(c.func, ast.Attribute) and c.func.attr == 'append' and isinstance(c.func.value, ast.Name)
               and c.args and ast.unparse(c.args[0]).endswith('.stem()')}:
        n += 1
        rev = any(isinstance(c, ast.Call) and ((isinstance(c.func, ast.Attribute) and c.func.attr == 'reverse' and ast.unparse(c.func.value) == L_)
                                               or (isinstance(c.func, ast.Name) and c.func.id == 'reversed' and c.args and ast.unparse(c.args[0]) == L_)) for c in P.own(w, ast.Call)) \
            or any(isinstance(x, ast.Subscript) and ast.unparse(x) == '%s[::-1]' % L_ for x in ast.walk(w.node))
        rr.ob(ctx.where(w), 'windup_lru reverses the stems it collected bottom-up before joining them', ok=rev)
        if not rev:
            rr.fail(ctx.finding('R-LRU-ASSEMBLY', w, w.node, 'windup_lru joins the stems in the order it climbed (`%s` is never reversed): the LRU read back is the stored LRU backwards' % L_,
                                stmt='windup list order'))
    # windup_lru gives up early only for a block that is no node head at all (missing, or a tail fragment): any other early exit
    # loses real nodes (a head WITH a tail is a perfectly good long-stem node)
    from ..dataflow import test_leaves as _tl
    for r_ in P.own(w, ast.Return):
        cur_ = P.parent.get(id(r_))
        guards = []
        while cur_ is not None and cur_ is not w.node:
            if isinstance(cur_, ast.If):
                guards += _tl(cur_.test)
            cur_ = P.parent.get(id(cur_))
        if not guards:
            continue
        legit = all((isinstance(g_, ast.Attribute) and g_.attr == 'exists') or (isinstance(g_, ast.Call) and isinstance(g_.func, ast.Attribute) and g_.func.attr == 'is_tail')
                    or (isinstance(g_, ast.Compare) and 'block' in ast.unparse(g_)) for g_ in guards)
        rr.ob(ctx.where(w, r_), 'windup_lru returns early only for a block that is not the head of a node', ok=legit)
        if not legit:
            rr.fail(ctx.finding('R-LRU-ASSEMBLY', w, r_, 'windup_lru gives up under `%s`: real nodes (e.g. every node whose stem is longer than one block) are not reconstructed bottom-up '
                                'although the lookup and the traversal find them' % ', '.join(ast.unparse(g_)[:30] for g_ in guards), stmt='windup early return'))
    rr.ob(ctx.where(w), 'windup_lru follows node_parents_iter', ok=ok)
    if not ok:
        rr.fail(ctx.finding('R-LRU-ASSEMBLY', w, w.node, 'windup_lru no longer walks the parent chain', stmt='windup parents'))
    npi = P.method('LRUTrie', 'node_parents_iter')
    rows = tables(ctx, npi, iters=2, keep=lambda nm, c: nm in ('has_parent', 'parent_node', 'read_parent'))
    bad = []
    for r in rows:
        hp = [v for k, v in r.val.items() if k.endswith('.has_parent()')]
        ys = [e for e in r.events if e.kind == 'yield']
        if hp and hp[0] is False and ys:
            bad.append(r)
        if hp and hp[0] is True and not ys:
            bad.append(r)
    rr.ob(ctx.where(npi), 'node_parents_iter yields one node per existing parent link, none for a top-level node (%d rows)' % len(rows), ok=not bad)
    for r in bad:
        rr.fail(ctx.finding('R-LRU-ASSEMBLY', npi, npi.node, 'node_parents_iter does not yield exactly the chain of parents', detail={'row': r.show()[:300]}, stmt='parents chain'))
    # the climb ends at a node without parent and nowhere else: every yield-free exit of the loop is decided by has_parent() alone
    from ..dataflow import test_leaves as _leaves
    for cu_, lp_ in [(npi, x) for x in P.own(npi, (ast.While, ast.For))] + [(w, x) for x in inplace]:
        extra = []
        if isinstance(lp_, ast.While):
            extra = [x for x in _leaves(lp_.test) if not (isinstance(x, ast.Call) and isinstance(x.func, ast.Attribute) and x.func.attr == 'has_parent')
                     and not (isinstance(x, ast.Constant) and x.value is True)]
        exits = []
        for st_ in lp_.body:
            for x in ast.walk(st_):
                if isinstance(x, (ast.Break, ast.Return)) and P.owner_of(cu_.node, x) is cu_.node:
                    cur_ = P.parent.get(id(x))
                    tests_ = []
                    while cur_ is not None and cur_ is not lp_:
                        if isinstance(cur_, ast.If):
                            tests_ += _leaves(cur_.test)
                        cur_ = P.parent.get(id(cur_))
                    if any(not (isinstance(t_, ast.Call) and isinstance(t_.func, ast.Attribute) and t_.func.attr == 'has_parent') for t_ in tests_) or not tests_:
                        exits.append(x)
        okc = not extra and not exits
        rr.ob(ctx.where(cu_, lp_), 'the climb of node_parents_iter stops only where has_parent() is false', ok=okc)
        if not okc:
            what = ast.unparse(extra[0])[:40] if extra else ast.unparse(P.parent.get(id(exits[0])).test)[:40] if isinstance(P.parent.get(id(exits[0])), ast.If) else 'an unconditional exit'
            rr.fail(ctx.finding('R-LRU-ASSEMBLY', cu_, extra[0] if extra else exits[0], 'node_parents_iter can stop climbing because of `%s` although the node still has a parent: the LRU '
                                'rebuilt bottom-up is cut short and the webentity above is not found for deep nodes' % what, stmt='parents chain bound'))
    # upward webentity resolution starts at the node itself
    ww = P.method('LRUTrie', 'windup_lru_for_webentity')
    rows = tables(ctx, ww, iters=1, keep=lambda nm, c: nm in ('has_webentity', 'webentity', 'node_parents_iter', 'warn'))
    Np = ww.call_params[0]
    bad = []
    for r in rows:
        own = r.val.get('%s.has_webentity()' % Np)
        ret = [e for e in r.events if e.kind == 'return']
        if own is None:
            bad.append((r, 'the node itself is not asked for its webentity before its parents are'))
        elif own and (not ret or base(ret[0].text) != '%s.webentity()' % Np or r.calls('node_parents_iter')):
            bad.append((r, 'a node that carries a webentity does not resolve to it directly'))
        if own is False:
            pw = [v for k, v in r.val.items() if k.endswith('.has_webentity()') and not k.startswith(Np + '.')]
            if pw and pw[-1] and (not ret or not base(ret[0].text).endswith('.webentity()')):
                bad.append((r, 'the first parent with a webentity is not the answer'))
    rr.ob(ctx.where(ww), 'windup_lru_for_webentity: the node itself first, then the nearest parent with a webentity (%d rows)' % len(rows), ok=not bad)
    for r, msg in bad[:2]:
        rr.fail(ctx.finding('R-LRU-ASSEMBLY', ww, ww.node, 'windup_lru_for_webentity: ' + msg, detail={'row': r.show()[:300]}, stmt='windup webentity'))
    # an upward walk written in place (parent_node / read_parent instead of node_parents_iter): every ancestor reached is asked for its
    # webentity before the walk gives up - the top-most one included
    import re as _re
    rows2 = tables(ctx, ww, iters=2, keep=lambda nm, c: nm in ('has_webentity', 'webentity', 'node_parents_iter', 'warn', 'has_parent', 'parent_node', 'read_parent'))
    unexamined = []
    for r in rows2:
        if r.outcome != 'return':
            continue
        ret = [e for e in r.events if e.kind == 'return']
        if ret and ret[-1].text not in ('None', ''):
            continue
        vers = {}
        for k in r.val:
            m_ = _re.match(r'^(\w+#\d+)\.(\w+)\(\)$', k)
            if m_:
                vers.setdefault(m_.group(1), set()).add(m_.group(2))
        for v_, asked in vers.items():
            if not (asked & {'has_webentity', 'webentity'}):
                unexamined.append((r, v_))
    rr.ob(ctx.where(ww), 'windup_lru_for_webentity: no ancestor reached by the walk is left unexamined when the walk gives up (%d rows)' % len(rows2), ok=not unexamined)
    for r, v_ in unexamined[:1]:
        rr.fail(ctx.finding('R-LRU-ASSEMBLY', ww, ww.node, 'windup_lru_for_webentity gives up although ancestor `%s` was reached and never asked for its webentity (the top-most ancestor '
                            'is skipped): pages whose nearest webentity sits on a one-stem prefix resolve to nothing' % v_, detail={'row': r.show()[:400]}, stmt='windup top ancestor'))
    # helpers: lru_iter cuts after each separator; lru_dirname drops the last stem
    h = P.funcs.get(('traph.helpers', 'lru_iter'))
    d = P.funcs.get(('traph.helpers', 'lru_dirname'))
    if h is None or d is None:
        raise AnalysisError('anchor vanished: helpers.lru_iter / lru_dirname')
    ys = [y for y in P.own(h, ast.Yield)]

    def lin(e):
        """linear form {name: coef, '': const} of an index expression, or None"""
        if isinstance(e, ast.Constant) and isinstance(e.value, int):
            return {'': e.value}
        if isinstance(e, ast.Name):
            return {e.id: 1, '': 0}
        if isinstance(e, ast.BinOp) and isinstance(e.op, (ast.Add, ast.Sub)):
            a_, b_ = lin(e.left), lin(e.right)
            if a_ is None or b_ is None:
                return None
            sg = 1 if isinstance(e.op, ast.Add) else -1
            out_ = dict(a_)
            for k_, v_ in b_.items():
                out_[k_] = out_.get(k_, 0) + sg * v_
            return {k_: v_ for k_, v_ in out_.items() if v_ or k_ == ''}
        return None
    # the byte tested against the separator is lru[C:D]; the stem yielded is lru[A:B]: B must be D (the separator is included) and
    # the next stem starts at B
    tests = [c for c in ast.walk(h.node) if isinstance(c, ast.Compare) and isinstance(c.left, ast.Subscript) and isinstance(c.left.slice, ast.Slice)
             and isinstance(c.comparators[0], ast.Constant) and c.comparators[0].value in (b'|', '|')]
    if len(ys) != 1 or len(tests) != 1 or not (isinstance(ys[0].value, ast.Subscript) and isinstance(ys[0].value.slice, ast.Slice)):
        # the known wrong rewrite: split on the separator and drop the empty pieces (a stem that is the separator alone disappears,
        # so stored LRUs with an empty stem are shortened)
        splits = [f for f in P.own(h, ast.For) if any(isinstance(c_, ast.Call) and isinstance(c_.func, ast.Attribute) and c_.func.attr == 'split' for c_ in ast.walk(f.iter))]
        if splits and isinstance(splits[0].target, ast.Name):
            v_ = splits[0].target.id
            drops = [i_ for i_ in ast.walk(splits[0]) if isinstance(i_, ast.If) and any(isinstance(x, ast.Name) and x.id == v_ for x in ast.walk(i_.test))
                     and not any(isinstance(x, ast.Compare) for x in ast.walk(i_.test))]
            if drops:
                rr.ob(ctx.where(h), 'lru_iter yields every stem, also an empty one', ok=False)
                rr.fail(ctx.finding('R-LRU-ASSEMBLY', h, drops[0], 'lru_iter splits on the separator and skips empty pieces: an empty stem (`||`) vanishes from every LRU that has one, so the '
                                    'stored LRU differs from the submitted one', stmt='lru_iter'))
                ys = None
        if ys is not None:
            # a scan through a regular expression: `.` does not match a line break unless DOTALL is set, and a stem may hold any byte
            import re as _re_li
            import re._parser as _sp_li
            used_li = {x.id for x in ast.walk(h.node) if isinstance(x, ast.Name)}
            cands_li = [a_.value for a_ in P.modules[h.module].body if isinstance(a_, ast.Assign) and any(isinstance(t_, ast.Name) and t_.id in used_li for t_ in a_.targets)]
            cands_li += list(P.own(h, ast.Call))
            for c_ in cands_li:
                if not (isinstance(c_, ast.Call) and isinstance(c_.func, ast.Attribute) and isinstance(c_.func.value, ast.Name) and c_.func.value.id == 're'
                        and c_.args and isinstance(c_.args[0], ast.Constant) and isinstance(c_.args[0].value, (bytes, str))):
                    continue
                flags_ = ' '.join(ast.unparse(a_) for a_ in c_.args[1:]) + ' '.join(ast.unparse(k_.value) for k_ in c_.keywords)
                try:
                    tree_li = _sp_li.parse(c_.args[0].value)
                except Exception:
                    continue

                def any_li(x_):
                    if hasattr(x_, 'data'):
                        return any(str(op_) == 'ANY' or any_li(av_) for op_, av_ in x_.data)
                    if isinstance(x_, (tuple, list)):
                        return any(any_li(z_) for z_ in x_)
                    return False
                if any_li(tree_li) and not ('DOTALL' in flags_ or 're.S' in flags_ or tree_li.state.flags & _re_li.DOTALL):
                    rr.ob(ctx.where(h), 'lru_iter cuts at the separator byte only, whatever bytes a stem holds', ok=False)
                    rr.fail(ctx.finding('R-LRU-ASSEMBLY', h, h.node, 'lru_iter scans with the pattern %r: `.` stops at a line break (no DOTALL), so a stem holding a 0x0A byte loses everything '
                                        'up to that byte and the LRU is stored and searched under a different byte string' % c_.args[0].value, stmt='lru_iter'))
                    ys = None
                    break
        if ys is not None:
            raise AnalysisError('R-LRU-ASSEMBLY: helpers.lru_iter is not a single-yield scan for the separator byte')
    if ys is None:
        B = D = C = None
    else:
        from ..dataflow import resolve_locals as _rlh
        B, D, C = lin(_rlh(P, h, ys[0].value.slice.upper)) if ys[0].value.slice.upper is not None else None, lin(_rlh(P, h, tests[0].left.slice.upper)), \
            lin(_rlh(P, h, tests[0].left.slice.lower))
    if ys is not None:
        if B is None or D is None or C is None:
            raise AnalysisError('R-LRU-ASSEMBLY: index arithmetic of helpers.lru_iter is not linear')

        def norm(d_):
            return {k_: v_ for k_, v_ in d_.items() if v_}
        one = dict(D)
        one[''] = one.get('', 0) - 1
        ok = norm(B) == norm(D) and norm(C) == norm(one)
        A = ys[0].value.slice.lower
        if ok and isinstance(A, ast.Name):
            upd = [a for a in P.own(h, ast.Assign) if any(isinstance(t, ast.Name) and t.id == A.id for t in a.targets) and not (isinstance(a.value, ast.Constant))]
            ok = len(upd) == 1 and lin(_rlh(P, h, upd[0].value)) is not None and norm(lin(_rlh(P, h, upd[0].value))) == norm(B)
        rr.ob(ctx.where(h), 'lru_iter yields stems including their closing separator', ok=ok)
        if not ok:
            rr.fail(ctx.finding('R-LRU-ASSEMBLY', h, h.node, 'lru_iter no longer yields each stem with its closing separator', stmt='lru_iter'))
    # lru_dirname: the stems of the LRU (as lru_iter cuts them) without the last one, joined by nothing
    from ..dataflow import resolve_locals as _rl
    dp = d.call_params[0] if d.call_params else None

    from ..dataflow import single_defs as _sd
    sdd = _sd(P, d)

    def stem_list(e):
        if isinstance(e, ast.Name) and e.id in sdd:
            e = sdd[e.id]
        if isinstance(e, ast.Call) and isinstance(e.func, ast.Name) and e.func.id in ('list', 'tuple') and len(e.args) == 1:
            e = e.args[0]
            if isinstance(e, ast.Call) and h in P.targets(e):
                return True
        if isinstance(e, ast.ListComp) and len(e.generators) == 1 and not e.generators[0].ifs and isinstance(e.generators[0].iter, ast.Call) and h in P.targets(e.generators[0].iter) \
                and ast.unparse(e.elt) == ast.unparse(e.generators[0].target):
            return True
        return False
    slices = [x for x in ast.walk(d.node) if isinstance(x, ast.Subscript) and isinstance(x.slice, ast.Slice)]
    def drops_last(x):
        if x.slice.lower is not None or x.slice.upper is None or x.slice.step is not None:
            return False
        up = ast.unparse(x.slice.upper).replace(' ', '')
        return up == '-1' or up == 'len(%s)-1' % ast.unparse(x.value).replace(' ', '')
    good = [x for x in slices if stem_list(x.value) and drops_last(x)]
    other = [x for x in slices if stem_list(x.value) and x not in good]
    raw = [x for x in ast.walk(d.node) if (isinstance(x, ast.Subscript) and isinstance(x.value, ast.Name) and x.value.id == dp and isinstance(x.slice, ast.Slice))
           or (isinstance(x, ast.Call) and isinstance(x.func, ast.Attribute) and x.func.attr in ('rsplit', 'rpartition', 'rstrip', 'split', 'partition', 'rfind', 'rindex')
               and any(isinstance(y, ast.Name) and y.id == dp for y in ast.walk(x.func.value)))]
    # a cut on the raw bytes that is the same function: the closing separator of the last stem is found first, the one before it is searched
    # below that position, the result is the LRU up to and including it (empty when there is none)
    def raw_equiv():
        asg = {a.targets[0].id: a.value for a in P.own(d, ast.Assign) if len(a.targets) == 1 and isinstance(a.targets[0], ast.Name)}
        rf = [x for x in raw if isinstance(x, ast.Call) and x.func.attr == 'rfind' and isinstance(x.func.value, ast.Name) and x.func.value.id == dp
              and x.args and isinstance(x.args[0], ast.Constant) and x.args[0].value == b'|']
        if len(rf) != 2 or len([x for x in raw if isinstance(x, ast.Call)]) != 2:
            return False
        first = [x for x in rf if len(x.args) == 1]
        second = [x for x in rf if len(x.args) == 3 and isinstance(x.args[1], ast.Constant) and x.args[1].value == 0 and isinstance(x.args[2], ast.Name)
                  and first and asg.get(x.args[2].id) is first[0]]
        if len(first) != 1 or len(second) != 1:
            return False
        n2 = [k for k, v in asg.items() if v is second[0]]
        rets = list(P.own(d, ast.Return))
        for r in rets:
            v = r.value
            if isinstance(v, ast.Constant) and v.value == b'':
                continue
            if isinstance(v, ast.Subscript) and isinstance(v.value, ast.Name) and v.value.id == dp and isinstance(v.slice, ast.Slice) and v.slice.lower is None and v.slice.step is None \
                    and v.slice.upper is not None and n2 and ast.unparse(v.slice.upper).replace(' ', '') in ('%s+1' % n2[0], '1+%s' % n2[0]):
                continue
            return False
        return bool(rets)
    if good and not other and not raw:
        ok = True
    elif raw and not good and not other and raw_equiv():
        ok = True
    elif other or raw:
        ok = False
    else:
        raise AnalysisError('R-LRU-ASSEMBLY: helpers.lru_dirname does not slice the list of stems given by lru_iter (shape not recognised)')
    rr.ob(ctx.where(d), 'lru_dirname joins the stems lru_iter cuts, without the last one', ok=ok)
    if not ok:
        why = 'lru_dirname no longer drops exactly the last stem'
        if raw and not good:
            why = ('lru_dirname cuts the raw bytes (`%s`) instead of dropping the last of the stems lru_iter gives: for an LRU of one stem (a scheme-level prefix) the result is not the '
                   'empty LRU, so every walk started from such a prefix rebuilds its LRUs with the first stem doubled' % ast.unparse(raw[0])[:40])
        rr.fail(ctx.finding('R-LRU-ASSEMBLY', d, d.node, why, stmt='lru_dirname'))


# ------------------------------------------------------------------------------------------------ R-LINK-WALK
@rule('R-LINK-WALK')
def link_walk(ctx, rr):
    """link-list walks visit the head stub and every previous stub exactly once; weights count stubs; counts halve the stubs"""
    P = ctx.P
    ls = P.require_class('LinkStore')
    # trace language of one walk: account(head) (test move account)* test  -- whatever the loop is spelled like
    import re as _re
    for name, acc in (('link_nodes_iter', lambda e: e.kind == 'yield'),
                      ('weighted_link_nodes_iter', lambda e: e.kind in ('store', 'aug') and '.target()' in (e.text or '')),
                      ('deduped_link_nodes_iter', lambda e: e.kind == 'call' and e.name == 'target')):
        u = P.method('LinkStore', name)
        # a walk may delegate to another walk of the store (itself checked here): then every stub handed out is accounted for once
        deleg = [f_ for f_ in P.own(u, ast.For) if isinstance(f_.iter, ast.Call) and any(t.cls == 'LinkStore' and t.name in ('link_nodes_iter',) and t is not u for t in P.targets(f_.iter))]
        own_moves = [c for c in P.own(u, ast.Call) if isinstance(c.func, ast.Attribute) and c.func.attr in ('read_previous', 'has_previous')]
        if name != 'link_nodes_iter' and len(deleg) == 1 and not own_moves:
            from .generic_rules import round_must_pass as _rmpw
            f_ = deleg[0]
            arg_ok = len(f_.iter.args) == 1 and isinstance(f_.iter.args[0], ast.Name) and f_.iter.args[0].id in u.call_params
            lv_ = f_.target.id if isinstance(f_.target, ast.Name) else None

            def accounts(root):
                return any(isinstance(c, ast.Call) and isinstance(c.func, ast.Attribute) and c.func.attr == 'target' and isinstance(c.func.value, ast.Name) and c.func.value.id == lv_
                           for c in ast.walk(root))
            skipped = _rmpw(ctx, u, f_, accounts)
            brk_ = any(isinstance(x, (ast.Break, ast.Return)) for b_ in f_.body for x in ast.walk(b_))
            okd = arg_ok and lv_ is not None and skipped is None and not brk_
            rr.ob(ctx.where(u), '%s: walks the list through link_nodes_iter and accounts for every stub it hands out' % name, ok=okd)
            if not okd:
                rr.fail(ctx.finding('R-LINK-WALK', u, f_, '%s: delegates the walk to link_nodes_iter but %s: links are lost or counted wrongly' % (
                    name, 'does not start it at the head it was given' if not arg_ok else 'does not account for every stub handed out'), stmt=name + ' walk'))
            continue
        rows = tables(ctx, u, iters=2, keep=lambda n_, c: n_ in ('read_previous', 'target', 'has_previous'))
        bad = []
        nwalk = 0
        for r in rows:
            if r.outcome == 'raise':
                continue
            toks = ''
            for e in r.events:
                if e.kind == 'call' and e.name == 'has_previous':
                    toks += 'H'
                elif e.kind == 'call' and e.name == 'read_previous':
                    toks += 'M'
                elif acc(e):
                    toks += 'A'
            nwalk += 1
            ends_ok = toks.endswith('H') if r.outcome in ('fall', 'return') else True
            if not _re.match(r'^A(HMA)*H?(M)?$', toks) or not ends_ok:
                why = 'the head stub is not accounted for first' if not toks.startswith('A') else (
                    'a stub is accounted for twice' if 'AA' in toks or 'AHA' in toks else (
                        'the walk moves twice without accounting for the stub in between' if 'MM' in toks or 'MHM' in toks else (
                            'the walk moves without testing has_previous()' if _re.search(r'(^|[AM])M', toks) else 'the walk ends before has_previous() said so')))
                bad.append((r, toks, why))
        hp = [k for r in rows for k in r.val if base(k).endswith('.has_previous()')]
        if not nwalk or not hp:
            raise AnalysisError('R-LINK-WALK: walk of LinkStore.%s not recognised' % name)
        rr.ob(ctx.where(u), '%s: head accounted first, then (test has_previous, move, account) until has_previous is false (%d traces)' % (name, nwalk), ok=not bad)
        for r, toks, why in bad[:1]:
            rr.fail(ctx.finding('R-LINK-WALK', u, u.node, '%s: %s (trace %s; A=account H=has_previous M=read_previous): links are lost, repeated or counted wrongly' % (name, why, toks),
                                detail={'row': r.show()[:300]}, stmt=name + ' walk'))
        for r in rows:
            early = [e for e in r.events if e.kind == 'return'] if name != 'link_nodes_iter' else []
    # de-duplication: whatever is handed out has been put into the "already seen" set first (the head included)
    dd = P.method('LinkStore', 'deduped_link_nodes_iter')
    from ..dataflow import rtext as _rtd
    seen_sets = {c.func.value.id for c in P.own(dd, ast.Call) if isinstance(c.func, ast.Attribute) and c.func.attr == 'add' and isinstance(c.func.value, ast.Name)}
    seen_sets |= {a.targets[0].id for a in P.own(dd, ast.Assign) if isinstance(a.targets[0], ast.Name) and isinstance(a.value, (ast.Set, ast.SetComp))}
    if seen_sets and not any(isinstance(f_, ast.For) for f_ in P.own(dd, ast.For)):
        gd = ctx.cfg(dd)

        def trd(nd, st):
            root = node_root(nd)
            if root is None:
                return st
            add = set()
            for c in ast.walk(root):
                if isinstance(c, ast.Call) and isinstance(c.func, ast.Attribute) and c.func.attr == 'add' and isinstance(c.func.value, ast.Name) and c.func.value.id in seen_sets and c.args:
                    add.add(_rtd(P, dd, c.args[0]))
                if isinstance(c, ast.Set) and isinstance(nd.ast, ast.Assign) and any(isinstance(t, ast.Name) and t.id in seen_sets for t in nd.ast.targets):
                    add |= {_rtd(P, dd, e_) for e_ in c.elts}
            return st | frozenset(add)
        from ..cfg import solve_forward as _sfd
        IND = _sfd(gd, frozenset(), trd, lambda lab, st: st, lambda a, b: a & b)
        for nd in gd.nodes:
            root = node_root(nd)
            if root is None or nd.id not in IND:
                continue
            for y in ast.walk(root):
                if isinstance(y, ast.Yield) and y.value is not None:
                    okd = _rtd(P, dd, y.value) in trd(nd, IND[nd.id])
                    rr.ob(ctx.where(dd, y), 'deduped_link_nodes_iter remembers `%s` before (or when) it hands it out' % ast.unparse(y.value)[:30], ok=okd)
                    if not okd:
                        rr.fail(ctx.finding('R-LINK-WALK', dd, y, 'deduped_link_nodes_iter yields `%s` without recording it as seen: the same neighbour met again further down the list is '
                                            'handed out a second time, so distinct-neighbour counts (indegree, cited webentities) are too high' % ast.unparse(y.value)[:30], stmt='dedupe memory'))
    if not seen_sets:
        # no set at all: telling "met before" from "new" over an unordered list needs a memory that grows with the list.  A walk that yields inside
        # its loop, builds no container and delegates to nothing but the link node's own accessors can only compare with a bounded number of
        # earlier targets (the previous one, say) and hands a neighbour out again when its stubs are not adjacent.
        CONT = ('set', 'dict', 'list', 'frozenset', 'OrderedDict', 'defaultdict', 'Counter', 'deque', 'bytearray')
        has_cont = any(isinstance(x, (ast.Set, ast.SetComp, ast.Dict, ast.DictComp, ast.List, ast.ListComp)) for x in ast.walk(dd.node)) or \
            any(isinstance(c.func, ast.Name) and c.func.id in CONT or isinstance(c.func, ast.Attribute) and c.func.attr in CONT + ('fromkeys',) for c in P.own(dd, ast.Call))
        NODE_OPS = ('target', 'has_previous', 'read_previous', 'read', 'node', 'next', 'previous', 'weight', 'block')
        delegates = any(not (isinstance(c.func, ast.Attribute) and c.func.attr in NODE_OPS)
                        and not (isinstance(c.func, ast.Name) and (c.func.id.endswith(('Exception', 'Error')) or c.func.id == 'LinkStoreNode')) for c in P.own(dd, ast.Call))
        loops_y = [y for lp in P.own(dd, (ast.While, ast.For)) for y in ast.walk(lp) if isinstance(y, ast.Yield)]
        if loops_y and not has_cont and not delegates:
            rr.ob(ctx.where(dd, loops_y[0]), 'deduped_link_nodes_iter keeps a growing memory of the targets it handed out', ok=False)
            rr.fail(ctx.finding('R-LINK-WALK', dd, loops_y[0], 'deduped_link_nodes_iter yields inside its walk but keeps no container of the targets already handed out (only scalars): '
                                'a neighbour whose stubs are not adjacent in the list is handed out again, so distinct-neighbour counts and the deduplicated link enumeration '
                                'disagree with the other direction', stmt='dedupe memory'))
    w = P.method('LinkStore', 'weighted_link_nodes_iter')
    wrows = tables(ctx, w, iters=2, keep=lambda n_, c: n_ in ('read_previous', 'has_previous'))
    okw = True
    for r in wrows:
        accs = [e for e in r.events if e.kind in ('store', 'aug') and '.target()' in (e.text or '')]
        for i_, e in enumerate(accs):
            t = (e.text or '').replace(' ', '')
            if not (t.endswith('Add=1') or (i_ == 0 and t.endswith(']=1'))):
                okw = False
    rr.ob(ctx.where(w), 'weights: every stub adds exactly 1 to its target (the head may initialise it to 1)', ok=okw)
    if not okw:
        rr.fail(ctx.finding('R-LINK-WALK', w, w.node, 'weighted_link_nodes_iter no longer counts one per stub (head = 1, each previous += 1): reported weights differ from submission counts',
                            stmt='weights'))
    cl = P.method('LinkStore', 'count_links')
    rets = [ast.unparse(r.value).replace(' ', '') for r in P.own(cl, ast.Return) if r.value is not None]
    asg = {a.targets[0].id: ast.unparse(a.value).replace(' ', '') for a in P.own(cl, ast.Assign) if isinstance(a.targets[0], ast.Name)}
    full = [r_ for r_ in rets]
    for k, v in asg.items():
        full = [x.replace(k, '(' + v + ')') if x.startswith(k + '/') or x.startswith(k + '//') else x for x in full]
    ok = full in (['(self.storage.count_blocks()-LINK_STORE_HEADER_BLOCKS)/2'], ['(self.storage.count_blocks()-LINK_STORE_HEADER_BLOCKS)//2'])
    rr.ob(ctx.where(cl), 'count_links = (blocks - header blocks) / 2 (two stubs per link)', ok=ok)
    if not ok:
        rr.fail(ctx.finding('R-LINK-WALK', cl, cl.node, 'count_links is no longer (stub blocks) / 2: %s' % rets, stmt='count_links'))
    for cls in ('FileStorage', 'MemoryStorage'):
        cb = P.method(cls, 'count_blocks')
        rets = [ast.unparse(r.value).replace(' ', '') for r in P.own(cb, ast.Return) if r.value is not None]
        ok = rets in (['self.__len__()/self.block_size'], ['len(self)/self.block_size'], ['self.__len__()//self.block_size'], ['len(self)//self.block_size'])
        rr.ob(ctx.where(cb), '%s.count_blocks = length / block size' % cls, ok=ok)
        if not ok:
            rr.fail(ctx.finding('R-LINK-WALK', cb, cb.node, '%s.count_blocks is no longer length / block_size: %s' % (cls, rets), stmt=cls + ' count_blocks'))
    # links_iter: both calls take the same head and the guard tests that head
    li = P.method('Traph', 'links_iter')
    heads = {ast.unparse(c) for c in ast.walk(li.node) if isinstance(c, ast.Call) and isinstance(c.func, ast.Attribute) and c.func.attr == 'links'}
    ok = len(heads) == 1
    rr.ob(ctx.where(li), 'links_iter tests and walks the same link head', ok=ok)
    if not ok:
        rr.fail(ctx.finding('R-LINK-WALK', li, li.node, 'links_iter tests one head and walks another: %s' % sorted(heads), stmt='links_iter head'))
    # ... and every neighbour the walk hands out is reported, whatever the direction switch says
    from .generic_rules import round_must_pass as _rmp
    nli = 0
    for lp_ in P.own(li, ast.For):
        if not (isinstance(lp_.iter, ast.Call) and any(t.cls == 'LinkStore' and t.is_gen for t in P.targets(lp_.iter))):
            continue
        nli += 1
        badn = _rmp(ctx, li, lp_, lambda root: any(isinstance(y, ast.Yield) for y in ast.walk(root)))
        rr.ob(ctx.where(li, lp_), 'links_iter yields one pair for every neighbour of the list, in either direction', ok=badn is None)
        if badn is not None:
            rr.fail(ctx.finding('R-LINK-WALK', li, badn.ast if isinstance(badn.ast, ast.AST) else lp_, 'links_iter can finish a round of its neighbour loop without yielding the pair: some links '
                                '(self-links, or links in one direction only) are missing from the enumeration, which is then no longer the transpose of the other direction',
                                stmt='links_iter round without yield'))
    if not nli:
        raise AnalysisError('R-LINK-WALK: neighbour loop of Traph.links_iter not found')


# ------------------------------------------------------------------------------------------------ R-PREFIX-EDIT
@rule('R-PREFIX-EDIT')
def prefix_edit(ctx, rr):
    """prefix edits: detaching is refused when the caller names another owner; deletion checks each prefix; moves chain both"""
    P = ctx.P
    u = P.method('Traph', 'remove_prefix_from_webentity')
    W = u.call_params[1]
    rows = tables(ctx, u, iters=1, keep=lambda n, c: n in ('unset_webentity', 'write', 'webentity', 'add_lru', 'lru_node'))
    bad = []
    for r in rows:
        given = r.val.get('truthy:' + W)
        same = None
        for k, v in r.by_src(W, '.webentity()', kinds=('EQ:', 'ORD:')):
            same = v if k.startswith('EQ:') else v == 'EQ'
        un = r.calls('unset_webentity')
        raises = [e for e in r.events if e.kind == 'raise']
        allowed = (given is False) or (same is True)
        if given is None:
            bad.append((r, 'the owner named by the caller is not consulted'))
        elif allowed:
            if not (un and r.calls('write') and not raises):
                bad.append((r, 'an allowed detach does not unset and write the node'))
        else:
            if un or not raises or raises[0].name != 'TraphException':
                bad.append((r, 'a detach naming another owner is not refused with TraphException'))
    rr.ob(ctx.where(u), 'remove_prefix_from_webentity: detach iff no owner is named or the named owner matches, else TraphException (%d rows)' % len(rows), ok=not bad)
    for r, msg in bad:
        rr.fail(ctx.finding('R-PREFIX-EDIT', u, u.node, 'remove_prefix_from_webentity: ' + msg, detail={'row': r.show()[:300]}, stmt='remove table'))
    mv = P.method('Traph', 'move_prefix_to_webentity')
    rem, addp = P.method('Traph', 'remove_prefix_from_webentity'), P.method('Traph', 'add_prefix_to_webentity')
    calls = {t: c for c in P.own(mv, ast.Call) for t in P.targets(c) if t in (rem, addp)}
    ok = rem in calls and addp in calls
    if ok:
        ps = mv.call_params
        ra = [ast.unparse(a) for a in calls[rem].args] + [ast.unparse(k.value) for k in calls[rem].keywords]
        aa = [ast.unparse(a) for a in calls[addp].args] + [ast.unparse(k.value) for k in calls[addp].keywords]
        ok = ra == [ps[0], ps[2]] and aa == [ps[0], ps[1]] and calls[rem].lineno <= calls[addp].lineno
    rr.ob(ctx.where(mv), 'move = remove(prefix, source) then add(prefix, target)', ok=ok)
    if not ok:
        rr.fail(ctx.finding('R-PREFIX-EDIT', mv, mv.node, 'move_prefix_to_webentity no longer detaches from the named source and then attaches to the target', stmt='move chain'))
    alias = P.method('Traph', 'move_prefix_to_webentity_from_webentity')
    c = [c for c in P.own(alias, ast.Call) if mv in P.targets(c)]
    ok = len(c) == 1 and [ast.unparse(a) for a in c[0].args] == alias.call_params
    rr.ob(ctx.where(alias), 'the explicit alias forwards its arguments in order', ok=ok)
    if not ok:
        rr.fail(ctx.finding('R-PREFIX-EDIT', alias, alias.node, 'move_prefix_to_webentity_from_webentity does not forward (prefix, target, source) unchanged', stmt='move alias'))
    # delete_webentity with the consistency check: every prefix must exist and belong to the webentity
    dl = P.method('Traph', 'delete_webentity')
    gf = guard_facts(ctx, dl)
    raises = [r for r in P.own(dl, ast.Raise)]
    n_ok = 0
    for r in raises:
        facts = gf.facts_at(r.exc) or set()
        if any(f[0] == 'T' and f[1] == 'check_for_corruption' for f in facts):
            n_ok += 1
    # ... whatever else the request says: the consistency block is entered whenever check_for_corruption is set (no extra conjunct)
    for r in raises:
        cur_ = P.parent.get(id(r))
        while cur_ is not None and cur_ is not dl.node:
            if isinstance(cur_, ast.If) and any(isinstance(x, ast.Name) and x.id == 'check_for_corruption' for x in ast.walk(cur_.test)):
                from ..dataflow import test_leaves as _tld
                # an extra conjunct that speaks only about the request's arguments (not about the node that is being checked) gates the whole check
                extra_ = [g_ for g_ in _tld(cur_.test) if not (isinstance(g_, ast.Name) and g_.id == 'check_for_corruption')
                          and {x.id for x in ast.walk(g_) if isinstance(x, ast.Name)} <= set(dl.params)]
                if extra_:
                    n_ok = 0
                    rr.fail(ctx.finding('R-PREFIX-EDIT', dl, cur_, 'delete_webentity runs its consistency check only when `%s` also holds: for the other requests a deletion that names a '
                                        'missing prefix or the prefix of another webentity is carried out instead of refused' % ast.unparse(extra_[0])[:40], stmt='delete check gate'))
                break
            cur_ = P.parent.get(id(cur_))
        if n_ok == 0:
            break
    rr.ob(ctx.where(dl), 'delete_webentity(check_for_corruption=True) refuses missing prefixes and prefixes of another webentity', ok=n_ok >= 2)
    if 0 < n_ok < 2 or (n_ok == 0 and not rr.findings):
        rr.fail(ctx.finding('R-PREFIX-EDIT', dl, dl.node, 'delete_webentity lost one of its consistency refusals', stmt='delete checks'))
    # a deletion detaches: unset_webentity, never set to another id
    un = [c for c in P.own(dl, ast.Call) if isinstance(c.func, ast.Attribute) and c.func.attr in ('unset_webentity', 'set_webentity')]
    ok = bool(un) and all(c.func.attr == 'unset_webentity' for c in un)
    rr.ob(ctx.where(dl), 'deletion detaches every listed prefix', ok=ok)
    if not ok:
        rr.fail(ctx.finding('R-PREFIX-EDIT', dl, dl.node, 'delete_webentity does not simply detach the prefixes', stmt='delete detach'))
    # ... every listed prefix: no round of the detach loop ends without unset_webentity() and write()
    from .generic_rules import round_must_pass, _inside as _ins
    for c in un:
        lp_ = P.parent.get(id(c))
        while lp_ is not None and not isinstance(lp_, (ast.For, ast.While)):
            lp_ = P.parent.get(id(lp_))
        if lp_ is None:
            continue
        recv_ = ast.unparse(c.func.value)
        from .generic_rules import absent_branch as _absent
        exc_ = (lambda lab: _absent(lab, recv_)) if recv_.isidentifier() else None
        b1 = round_must_pass(ctx, dl, lp_, lambda root: any(x is c for x in ast.walk(root)), excuse=exc_)
        b2 = round_must_pass(ctx, dl, lp_, lambda root: any(isinstance(x, ast.Call) and isinstance(x.func, ast.Attribute) and x.func.attr == 'write'
                                                            and ast.unparse(x.func.value) == recv_ for x in ast.walk(root)), excuse=exc_)
        okr = b1 is None and b2 is None
        rr.ob(ctx.where(dl, lp_), 'every round of the detach loop unsets and writes its prefix node', ok=okr)
        if not okr:
            bad_ = b1 or b2
            rr.fail(ctx.finding('R-PREFIX-EDIT', dl, bad_.ast if isinstance(bad_.ast, ast.AST) else lp_, 'delete_webentity can finish a round of its detach loop without %s: the request '
                                'reports success but that prefix stays attached, so pages below it keep resolving to the deleted webentity'
                                % ('unset_webentity()' if b1 is not None else 'writing the node back'), stmt='delete detach round'))

    # __add_prefixes: strict mode (use_best_case=False) refuses as soon as one prefix is taken, before any id is allocated
    ap = P.method('Traph', '__add_prefixes')
    body = ap.node.body
    fl = [k for k, s_ in enumerate(body) if isinstance(s_, ast.For)]
    if not fl:
        raise AnalysisError('R-PREFIX-EDIT: the probing loop of Traph.__add_prefixes is not recognised')
    taken = None
    gfa = guard_facts(ctx, ap)
    for c_ in ast.walk(body[fl[0]]):
        if isinstance(c_, ast.Call) and isinstance(c_.func, ast.Attribute) and c_.func.attr == 'append' and isinstance(c_.func.value, ast.Name):
            facts = gfa.facts_at(c_) or set()
            if any(f[0] == 'T' and f[1].replace(' ', '').endswith('.has_webentity()') for f in facts):
                taken = c_.func.value.id
    if taken is None or len(ap.call_params) < 2:
        raise AnalysisError('R-PREFIX-EDIT: the list of already attached prefixes in Traph.__add_prefixes is not recognised')
    best = ap.call_params[1]
    rows = tables(ctx, ap, stmts=body[fl[0] + 1:], iters=1, keep=lambda n, c: n in ('__generated_web_entity_id', 'set_webentity', 'write'))
    key = {'len(%s)' % taken: 1}
    def inv_of(r):
        v = r.lin_known(key, '>=', 1)
        return r.val.get('truthy:' + taken) if v is None else v
    seen_inv = any(inv_of(r) is not None for r in rows)
    if not seen_inv:
        raise AnalysisError('R-PREFIX-EDIT: Traph.__add_prefixes no longer tests len(%s): decision not recognised' % taken)
    bad = []
    for r in rows:
        inv = inv_of(r)
        b = r.val.get('truthy:' + best)
        alloc = r.calls('__generated_web_entity_id')
        raises = [e for e in r.events if e.kind == 'raise']
        if inv is True and b is False and (alloc or not raises or raises[0].name != 'TraphException'):
            bad.append((r, 'a strict request with an already attached prefix is not refused with TraphException'))
        elif alloc and not (b is True or inv is False):
            bad.append((r, 'an id is allocated and prefixes are attached without establishing that the request is not strict or that no prefix is taken'))
        elif raises and not (inv is True and b is False):
            bad.append((r, 'the request is refused although it is not (strict and partly taken)'))
    rr.ob(ctx.where(ap), '__add_prefixes: strict and some prefix taken -> TraphException before any id is allocated; otherwise never refused (%d rows)' % len(rows), ok=not bad)
    for r, msg in bad:
        rr.fail(ctx.finding('R-PREFIX-EDIT', ap, ap.node, 'Traph.__add_prefixes: ' + msg, detail={'row': r.show()[:300]}, stmt='add_prefixes table'))


# ------------------------------------------------------------------------------------------------ R-PAGINATE
@rule('R-PAGINATE')
def paginate(ctx, rr):
    """pagination bookkeeping: the overflow item is neither returned nor recorded in the token; the resume path applies to the
    first prefix only; prefixes are walked from the token's index"""
    P = ctx.P
    for qual, unit_word in (('Traph.paginate_webentity_pages', 'page'), ('Traph.paginate_webentity_pagelinks', 'source page')):
        u = P.unit(qual)
        outer = [f for f in P.own(u, ast.For) if isinstance(f.iter, ast.Call) and isinstance(f.iter.func, ast.Name) and f.iter.func.id in ('range', 'enumerate')
                 and any(isinstance(c, ast.Call) and any(t.name == 'webentity_inorder_iter' for t in P.targets(c)) for c in ast.walk(f))]
        if len(outer) != 1:
            raise AnalysisError('R-PAGINATE: prefix loop of %s not recognised' % qual)
        of = outer[0]
        # the token's prefix index is a position in the caller's list: the list is walked as given, never re-ordered or de-duplicated
        plist = [p_ for p_ in u.call_params if 'prefix' in p_]
        reorder = [c for c in P.own(u, ast.Call)
                   if ((isinstance(c.func, ast.Name) and c.func.id in ('sorted', 'reversed', 'set', 'frozenset') and any(isinstance(x, ast.Name) and x.id in plist for a_ in c.args for x in ast.walk(a_)))
                       or (isinstance(c.func, ast.Attribute) and c.func.attr in ('sort', 'reverse') and isinstance(c.func.value, ast.Name) and c.func.value.id in plist))]
        rr.ob(ctx.where(u), '%s walks the prefix list in the order (and with the positions) the caller gave' % qual, ok=not reorder)
        for c in reorder[:1]:
            rr.fail(ctx.finding('R-PAGINATE', u, c, '%s re-orders the prefix list (`%s`): the answer is no longer prefix by prefix in the given order, and the prefix index of a token refers to '
                                'another list than the one the caller holds' % (qual, ast.unparse(c)[:50]), stmt='%s prefix order' % qual))
        if of.iter.func.id == 'enumerate':
            # enumerate(prefixes[START:]) numbers the prefixes from 0 again: the index stored in the next token is relative to this call
            a0 = of.iter.args[0] if of.iter.args else None
            st_arg = of.iter.args[1] if len(of.iter.args) > 1 else next((k.value for k in of.iter.keywords if k.arg == 'start'), None)
            sliced = isinstance(a0, ast.Subscript) and isinstance(a0.slice, ast.Slice) and a0.slice.lower is not None
            if sliced:
                okk = st_arg is not None and ast.unparse(st_arg) == ast.unparse(a0.slice.lower)
                rr.ob(ctx.where(u, of), '%s numbers the prefixes it walks by their position in the full prefix list' % qual, ok=okk)
                if not okk:
                    rr.fail(ctx.finding('R-PAGINATE', u, of, '%s enumerates `%s` from %s: after a resume the prefix index written to the next token is relative to the resume point, '
                                        'so the following call restarts from an earlier prefix (pages repeated) ' % (qual, ast.unparse(a0), ast.unparse(st_arg) if st_arg is not None else 0),
                                        stmt='%s prefix loop index' % qual))
                    continue
            else:
                raise AnalysisError('R-PAGINATE: prefix loop of %s not recognised (enumerate form)' % qual)
        # token parse feeds (start index, resume path)
        parse = [a for a in P.own(u, ast.Assign) if isinstance(a.value, ast.Call) and any(t.name == 'parse_pagination_token' for t in P.targets(a.value))]
        ok = len(parse) == 1 and len(names_in_target(parse[0].targets[0])) == 2
        START, PATH = names_in_target(parse[0].targets[0]) if ok else (None, None)
        ra = [ast.unparse(a).replace(' ', '') for a in of.iter.args] + [ast.unparse(k.value).replace(' ', '') for k in of.iter.keywords]
        ok = ok and (ra == [START, 'len(prefixes)'] or (of.iter.func.id == 'enumerate' and ra[:2] == ['prefixes[%s:]' % START, START]))
        rr.ob(ctx.where(u, of), '%s walks prefixes from the index stored in the token to the last one' % qual, ok=ok)
        if not ok:
            rr.fail(ctx.finding('R-PAGINATE', u, of, '%s does not iterate range(<token prefix index>, len(prefixes)): %s' % (qual, ra)))
            continue
        # the resume path is handed to the walk and reset after the first prefix
        walk = [c for c in ast.walk(of) if isinstance(c, ast.Call) and any(t.name == 'webentity_inorder_iter' for t in P.targets(c))]
        okw = len(walk) == 1 and any(k.arg == 'pagination_path' and ast.unparse(k.value) == PATH for k in walk[0].keywords)
        last = of.body[-1]
        okr = isinstance(last, ast.Assign) and names_in_target(last.targets[0]) == [PATH] and isinstance(last.value, ast.Constant) and last.value.value is None
        rr.ob(ctx.where(u, last), 'the resume path goes to the in-order walk of the first prefix and is reset to None for the following prefixes', ok=okw and okr)
        if not (okw and okr):
            rr.fail(ctx.finding('R-PAGINATE', u, last, '%s: the resume path of the token is not handed to the walk or not reset after the first prefix: later prefixes are filtered '
                                'by a path of another tree' % qual))
        # between the token and the walk nobody rewrites the resume path: an empty path ("the prefix node itself is done") is not "no resume point"
        extra = []
        for a in P.own(u, (ast.Assign, ast.AugAssign)):
            tg = a.targets if isinstance(a, ast.Assign) else [a.target]
            if any(PATH in names_in_target(t) for t in tg) and a is not parse[0] and a is not last:
                # the default `path = None` for a request without token is fine: it is not executed after the token was parsed
                if isinstance(a, ast.Assign) and isinstance(a.value, ast.Constant) and a.value.value is None:
                    cfg_ = ctx.cfg(u)
                    src_ = [n_ for n_ in cfg_.nodes if n_.ast is parse[0]]
                    seen_, work_ = set(), list(src_)
                    while work_:
                        x_ = work_.pop()
                        for y_, _l in x_.succ:
                            if y_.id not in seen_:
                                seen_.add(y_.id)
                                work_.append(y_)
                    if not any(n_.ast is a and n_.id in seen_ for n_ in cfg_.nodes):
                        continue
                extra.append(a)
        rr.ob(ctx.where(u, parse[0]), 'the resume path parsed from the token reaches the walk unchanged', ok=not extra)
        for a in extra:
            rr.fail(ctx.finding('R-PAGINATE', u, a, '%s rewrites the resume path of the token (`%s`): an empty path means "the prefix node itself was already returned", turning it into '
                                '"no resume point" serves that page again (with page size 1, forever)' % (qual, ast.unparse(a)[:60])))
        # inner loop table
        inner = [f for f in ast.walk(of) if isinstance(f, ast.For) and f is not of and isinstance(f.iter, ast.Name)]
        if len(inner) != 1:
            raise AnalysisError('R-PAGINATE: item loop of %s not recognised' % qual)
        rows = tables(ctx, u, stmts=inner[0].body, iters=1, keep=lambda n, c: n in ('append', 'build_pagination_token', 'is_page', 'is_crawled', 'has_outlinks'))
        tok = [c for c in P.own(u, ast.Call) if any(t.name == 'build_pagination_token' for t in P.targets(c))]
        A, B = [a.id for a in tok[0].args]
        bad = []
        for r in rows:
            ret = [e for e in r.events if e.kind == 'return']
            isp = atom_val(r, '.is_page()')
            sets = {e.name for e in r.events if e.kind == 'set'}
            if isp is False and (ret or {A, B} & sets or [e for e in r.events if e.kind == 'aug']):
                bad.append((r, 'a non-page node is counted or recorded'))
            if ret:
                augs = [e for e in r.events if e.kind == 'aug']
                if len(augs) > 1:
                    bad.append((r, 'the overflow %s is counted (%s) before the answer is returned: the counts of the answer do not match its contents' % (
                        unit_word, ', '.join(e.name for e in augs[1:]))))
                if {A, B} & sets:
                    bad.append((r, 'the token is advanced to the overflow %s before the answer is returned: that %s is skipped on resume' % (unit_word, unit_word)))
                txt = ret[0].text
                if "'done': False" not in txt or "'token'" not in txt:
                    bad.append((r, 'an early answer is not marked done=False with a token'))
                i_ret = first_idx(r, lambda e: e is ret[0])
                if any(e.kind == 'call' and e.name == 'append' and e.var in ('pages', 'pagelinks') for e in r.events[:i_ret]) or \
                        any(e.kind == 'aug' and 'pagelinks' in (e.name or '') for e in r.events[:i_ret]):
                    bad.append((r, 'the overflow %s is added to the answer' % unit_word))
        rr.ob(ctx.where(u, inner[0]), '%s item loop: non-pages ignored; on overflow the answer is returned before the item is recorded (%d rows)' % (qual, len(rows)), ok=not bad)
        for r, msg in bad:
            rr.fail(ctx.finding('R-PAGINATE', u, inner[0], '%s: %s' % (qual, msg), detail={'row': r.show()[:400]}))
        # final answer says done
        fin = [r for r in P.own(u, ast.Return) if P.parent.get(id(r)) is u.node]
        ok = len(fin) == 1 and isinstance(fin[0].value, ast.Dict) and any(ast.unparse(k) == "'done'" and ast.unparse(v) == 'True' for k, v in zip(fin[0].value.keys, fin[0].value.values))
        rr.ob(ctx.where(u, fin[0] if fin else u.node), 'the answer after the last prefix says done', ok=ok)
        if not ok:
            rr.fail(ctx.finding('R-PAGINATE', u, fin[0] if fin else u.node, '%s: the final answer is not {done: True, ...}' % qual))
    # look-ahead of the page pagination: k = page_count + 1 and the cut happens at n >= k
    u = P.method('Traph', 'paginate_webentity_pages')
    ks = [a for a in P.own(u, ast.Assign) if isinstance(a.value, ast.IfExp) and 'page_count' in ast.unparse(a.value)]
    ok = len(ks) == 1 and (ast.unparse(ks[0].value.body).replace(' ', '') in ('page_count+1', '1+page_count')
                           or ast.unparse(ks[0].value.orelse).replace(' ', '') in ('page_count+1', '1+page_count'))
    if not ks:
        # statement form: if page_count is not None: k = page_count + 1 else: k = None
        ks = [a for a in P.own(u, ast.Assign) if isinstance(a.value, ast.BinOp) and 'page_count' in ast.unparse(a.value)]
        ok = len(ks) == 1 and ast.unparse(ks[0].value).replace(' ', '') in ('page_count+1', '1+page_count')
    rr.ob(ctx.where(u), 'page pagination looks one page ahead (k = page_count + 1)', ok=ok)
    if not ok:
        rr.fail(ctx.finding('R-PAGINATE', u, ks[0] if ks else u.node, 'the look-ahead of paginate_webentity_pages is no longer page_count + 1'))
    u2 = P.method('Traph', 'paginate_webentity_pagelinks')
    gf = guard_facts(ctx, u2)
    rets = [r for r in P.own(u2, ast.Return) if P.parent.get(id(r)) is not u2.node]
    ok = len(rets) == 1 and holds_cmp(gf.facts_at(rets[0].value), 'n', '>', 'source_page_count') if rets else False
    cnt = [a.targets[0].id for a in P.own(u2, ast.Assign) if isinstance(a.value, ast.Constant) and a.value.value == 0 and isinstance(a.targets[0], ast.Name)]
    if rets and not ok:
        facts = gf.facts_at(rets[0].value)
        ok = any(holds_cmp(facts, c, '>', 'source_page_count') for c in cnt)
    rr.ob(ctx.where(u2), 'pagelink pagination cuts when the number of link-bearing source pages exceeds the requested count', ok=ok)
    if not ok:
        rr.fail(ctx.finding('R-PAGINATE', u2, rets[0] if rets else u2.node, 'paginate_webentity_pagelinks no longer cuts at `sources > source_page_count`'))


# ------------------------------------------------------------------------------------------------ R-STORAGE-SEM
@rule('R-STORAGE-SEM')
def storage_sem(ctx, rr):
    """both writable back-ends implement the same block semantics: a block address selects bytes [block, block+size); no address
    means append; the returned address is where the block landed"""
    P = ctx.P
    # the storages work on a file they were given: none of them closes it (Traph.close() does, once, for both stores); the mapped
    # reader in particular shares the Traph's own read/write handle
    from ..effects import STORAGES as _ST
    for cls_ in _ST:
        for name_, u_ in P.require_class(cls_).items():
            for c_ in P.own(u_, ast.Call):
                if isinstance(c_.func, ast.Attribute) and c_.func.attr == 'close' and ast.unparse(c_.func.value) == 'self.file':
                    rr.ob(ctx.where(u_, c_), '%s.%s leaves the shared file handle open' % (cls_, name_), ok=False)
                    rr.fail(ctx.finding('R-STORAGE-SEM', u_, c_, '%s.%s closes the file it was given: that is the Traph\'s own handle, every later request on the on-disk index fails with '
                                        '"seek of closed file" while the in-memory index keeps answering' % (cls_, name_)))
    ms = P.require_class('MemoryStorage')
    r = P.method('MemoryStorage', 'read')
    w = P.method('MemoryStorage', 'write')
    from .storage_iface import position_var as _posvar0
    bp_r = _posvar0(ctx, r)[0]
    from ..dataflow import rtext
    slices = [rtext(P, r, x.slice, keep=(bp_r,)) for x in ast.walk(r.node) if isinstance(x, ast.Subscript) and isinstance(x.slice, ast.Slice) and ast.unparse(x.value) == 'self.array']
    ok = bool(slices) and all(s == '%s:%s+self.block_size' % (bp_r, bp_r) for s in slices)
    rr.ob(ctx.where(r), 'MemoryStorage.read returns bytes [block, block + block_size)', ok=ok)
    if not ok:
        rr.fail(ctx.finding('R-STORAGE-SEM', r, r.node, 'MemoryStorage.read slices %s instead of [block : block + block_size]' % slices, stmt='memory read slice'))
    mm = P.method('MemMapStorage', 'read')
    from .storage_iface import position_var as _posvar
    bp_m = _posvar(ctx, mm)[0]
    slices = [rtext(P, mm, x.slice, keep=(bp_m,)) for x in ast.walk(mm.node) if isinstance(x, ast.Subscript) and isinstance(x.slice, ast.Slice)]
    ok = bool(slices) and all(s == '%s:%s+self.block_size' % (bp_m, bp_m) for s in slices)
    rr.ob(ctx.where(mm), 'MemMapStorage.read returns bytes [block, block + block_size)', ok=ok)
    if not ok:
        rr.fail(ctx.finding('R-STORAGE-SEM', mm, mm.node, 'MemMapStorage.read slices %s instead of [block : block + block_size]' % slices, stmt='mmap read slice'))
    bp = w.call_params[1]
    dp = w.call_params[0]
    rows = tables(ctx, w, iters=1, keep=lambda n, c: n in ('extend',))
    bad = []
    for row in rows:
        isn = row.val.get('isnone:' + bp)
        ext = row.calls('extend')
        stores = [e for e in row.events if e.kind == 'store']
        ret = [e for e in row.events if e.kind == 'return']
        if isn is None:
            bad.append((row, 'the block argument is not tested for None'))
        elif isn:
            if not (ext and ext[0].args == [dp]) or stores:
                bad.append((row, 'an append does not extend the array by the data'))
            if not ret or ret[0].text.replace(' ', '') not in ('(len(self.array)Subself.block_size)', 'len(self.array)-self.block_size'):
                bad.append((row, 'an append does not return the offset of the new block (%s)' % (ret[0].text if ret else None)))
        else:
            okst = [e for e in stores if base(e.name).replace(' ', '') in ('self.array[%s:(%sAddself.block_size)]' % (bp, bp),)]
            if not okst or ext:
                bad.append((row, 'an in-place write does not overwrite bytes [block, block + block_size) (%s)' % [e.name for e in stores]))
            if not ret or ret[0].text != bp:
                bad.append((row, 'an in-place write does not return its block address'))
    rr.ob(ctx.where(w), 'MemoryStorage.write: None -> append and return the new offset; block -> overwrite that block and return it (%d rows)' % len(rows), ok=not bad)
    for row, msg in bad:
        rr.fail(ctx.finding('R-STORAGE-SEM', w, w.node, 'MemoryStorage.write: ' + msg, detail={'row': row.show()[:300]}, stmt='memory write table'))
    fw = P.method('FileStorage', 'write')
    bp = fw.call_params[1]
    rows = tables(ctx, fw, iters=1, keep=lambda n, c: n in ('seek', 'write', 'tell'))
    bad = []
    for row in rows:
        isn = row.val.get('isnone:' + bp)
        seeks = row.calls('seek')
        wr = row.calls('write')
        ret = [e for e in row.events if e.kind == 'return']
        if isn is None or len(seeks) != 1 or len(wr) != 1:
            bad.append((row, 'not exactly one positioning and one write per call, or the block argument is not tested for None'))
            continue
        if isn and seeks[0].args != ['0', 'os.SEEK_END']:
            bad.append((row, 'an append does not position at the end of the file (%s)' % seeks[0].args))
        if isn is False and seeks[0].args != [bp]:
            bad.append((row, 'an in-place write does not position at its block (%s)' % seeks[0].args))
        if first_idx(row, lambda e: e is seeks[0]) > first_idx(row, lambda e: e is wr[0]):
            bad.append((row, 'the data is written before the file is positioned'))
        if not ret or 'tell()' not in ret[0].text or 'block_size' not in ret[0].text:
            bad.append((row, 'the returned address is not `position after the write - block size`'))
    rr.ob(ctx.where(fw), 'FileStorage.write: None -> seek to the end; block -> seek(block); then write; return tell() - block_size (%d rows)' % len(rows), ok=not bad)
    for row, msg in bad:
        rr.fail(ctx.finding('R-STORAGE-SEM', fw, fw.node, 'FileStorage.write: ' + msg, detail={'row': row.show()[:300]}, stmt='file write table'))
    mp = P.classes['FileStorage'].get('map')
    if mp is not None:
        rets = [x.value for x in P.own(mp, ast.Return) if x.value is not None]
        ok = len(rets) == 1 and isinstance(rets[0], ast.Call) and any(t.cls == 'MemMapStorage' for t in P.targets(rets[0]))
        rr.ob(ctx.where(mp), 'FileStorage.map returns a new mapping of the current file on every call', ok=ok)
        if not ok:
            rr.fail(ctx.finding('R-STORAGE-SEM', mp, mp.node, 'FileStorage.map hands out a remembered mapping: a mapping has the length the file had when it was created, so blocks '
                                'appended since read as missing', stmt='map fresh'))
    # node.write hands its own address back to the storage and keeps the returned address
    for cls in ('LRUTrieNode', 'LinkStoreNode'):
        nw = P.method(cls, 'write')
        first = [c for c in P.own(nw, ast.Call) if any(t.cls in STORAGES and t.name == 'write' for t in P.targets(c))]
        first.sort(key=lambda c: c.lineno)
        ok = bool(first) and [ast.unparse(a) for a in first[0].args] == ['self.pack()', 'self.block']
        st = P.stmt_of(first[0]) if first else None
        keeps = isinstance(st, ast.Assign) and any(self_attr(t) == 'block' for t in st.targets) or \
            (isinstance(st, ast.Assign) and isinstance(st.targets[0], ast.Name) and any(isinstance(a, ast.Assign) and self_attr(a.targets[0]) == 'block'
                                                                                         and ast.unparse(a.value) == st.targets[0].id for a in P.own(nw, ast.Assign)))
        rr.ob(ctx.where(nw), '%s.write rewrites its own block (or appends when it has none) and remembers the address' % cls, ok=ok and keeps)
        if not (ok and keeps):
            rr.fail(ctx.finding('R-STORAGE-SEM', nw, nw.node, '%s.write does not write (pack(), self.block) and keep the returned address' % cls, stmt=cls + ' write'))


# ------------------------------------------------------------------------------------------------ R-HIERARCHY
@rule('R-HIERARCHY')
def hierarchy(ctx, rr):
    """parent / child webentity queries collect every *other* webentity met on the walk"""
    P = ctx.P
    for qual, walk in (('Traph.get_webentity_parent_webentities', 'node_parents_iter'), ('Traph.get_webentity_child_webentities_iter', 'dfs_iter')):
        u = P.unit(qual)
        W = u.call_params[0]
        inner = [f for f in ast.walk(u.node) if isinstance(f, ast.For) and isinstance(f.iter, ast.Call) and any(t.name == walk for t in P.targets(f.iter))]
        if len(inner) != 1 and walk == 'node_parents_iter':
            # an in-place climb spelled `X = start.parent_node(); while True: inspect; if not X.has_parent(): break; X.read_parent()`:
            # every move (parent_node / read_parent) is followed by an inspection of the node reached before the next move or the end
            wt = [w for w in ast.walk(u.node) if isinstance(w, ast.While) and isinstance(w.test, ast.Constant) and w.test.value is True
                  and any(isinstance(c, ast.Call) and isinstance(c.func, ast.Attribute) and c.func.attr == 'read_parent' for c in ast.walk(w))]
            outer_ = [f for f in ast.walk(u.node) if isinstance(f, ast.For) and wt and any(x is wt[0] for x in ast.walk(f))]
            if len(wt) == 1 and outer_:
                rows = tables(ctx, u, stmts=outer_[0].body, iters=2, keep=lambda n, c: n in ('read_parent', 'parent_node', 'has_parent', 'webentity', 'add'))
                badc = []
                for r in rows:
                    if r.outcome == 'again':
                        continue
                    toks = ''.join('M' if e.name in ('read_parent', 'parent_node') else 'W' for e in r.events if e.kind == 'call' and e.name in ('read_parent', 'parent_node', 'webentity'))
                    import re as _re2
                    if any(e.kind == 'raise' for e in r.events):
                        continue
                    if not _re2.match(r'^(MW+)*$', toks):
                        badc.append((r, toks))
                rr.ob(ctx.where(u, wt[0]), '%s climbs in place: every ancestor reached is inspected before the walk moves on or ends (%d rows)' % (qual, len(rows)), ok=not badc)
                for r, toks in badc[:1]:
                    rr.fail(ctx.finding('R-HIERARCHY', u, wt[0], '%s climbs in place but does not inspect every ancestor it reaches (trace %s; M=move to parent, W=webentity read): an ancestor '
                                        'webentity (typically the topmost) is missing from the answer, or the starting prefix itself is inspected' % (qual, toks), detail={'row': r.show()[:300]}))
                # what is collected: same table obligations as the iterator form, on the loop body
                inner = [wt[0]]
            wl = [w for w in ast.walk(u.node) if isinstance(w, ast.While) and 'has_parent' in ast.unparse(w.test)] if len(inner) != 1 else []
            if len(wl) == 1:
                rows = tables(ctx, u, stmts=wl[0].body, iters=1, keep=lambda n, c: n in ('read_parent', 'webentity', 'add'))
                badc = []
                for r in rows:
                    i_mv = first_idx(r, lambda e: e.kind == 'call' and e.name == 'read_parent')
                    i_we = first_idx(r, lambda e: e.kind == 'call' and e.name == 'webentity')
                    if i_we is not None and (i_mv is None or i_mv > i_we):
                        badc.append(r)
                rr.ob(ctx.where(u, wl[0]), '%s climbs in place: every step moves to the parent before inspecting it' % qual, ok=not badc)
                for r in badc[:1]:
                    rr.fail(ctx.finding('R-HIERARCHY', u, wl[0], '%s inspects the node before moving to its parent: the starting prefix itself is inspected and the topmost ancestor '
                                        'never is' % qual, detail={'row': r.show()[:300]}))
                continue
        if len(inner) != 1:
            raise AnalysisError('R-HIERARCHY: walk of %s not found' % qual)
        rows = tables(ctx, u, stmts=inner[0].body, iters=1, keep=lambda n, c: n in ('add', 'webentity'))
        bad = []
        for r in rows:
            adds = r.calls('add')
            has = [v for k, v in r.val.items() if k.startswith('truthy:') and k.endswith('.webentity()')]
            same = None
            for k, v in r.by_src(W, kinds=('EQ:', 'ORD:')):
                same = v if k.startswith('EQ:') else v == 'EQ'
            want = bool(has and has[-1]) and same is False
            if bool(adds) != want:
                pos = [v for k, v in r.val.items() if k.startswith('LIN:')]
                if adds and has and has[-1] and same is False:
                    continue
                if not adds and pos and pos[-1] is False:
                    continue      # the redundant `> 0` test
                bad.append((r, 'a webentity is %s (node has one=%s, same as the queried one=%s)' % ('collected' if adds else 'ignored', has[-1] if has else None, same)))
            for a in adds:
                if not base(a.args[0]).endswith('.webentity()'):
                    bad.append((r, 'what is collected (%s) is not the webentity of the visited node' % a.args[0]))
        rr.ob(ctx.where(u, inner[0]), '%s collects the webentity of every visited node that has one other than the queried one (%d rows)' % (qual, len(rows)), ok=not bad)
        for r, msg in bad:
            rr.fail(ctx.finding('R-HIERARCHY', u, inner[0], '%s: %s' % (qual, msg), detail={'row': r.show()[:300]}))
        # the walk starts at the node of each prefix
        c = inner[0].iter if isinstance(inner[0], ast.For) else None
        if c is None:
            pn_ = [x for x in P.own(u, ast.Call) if isinstance(x.func, ast.Attribute) and x.func.attr == 'parent_node' and isinstance(x.func.value, ast.Name)]
            if len(pn_) != 1:
                raise AnalysisError('R-HIERARCHY: start of the in-place climb of %s not recognised' % qual)
            c = ast.Call(func=pn_[0].func, args=[pn_[0].func.value], keywords=[])
            ast.copy_location(c, pn_[0])

        def comes_from_lru_node(name, seen=()):
            if name in seen:
                return False
            defs_ = [a for a in ast.walk(u.node) if isinstance(a, ast.Assign) and name in names_in_target(a.targets[0])]
            if not defs_:
                return False
            for a in defs_:
                v = a.value
                if isinstance(v, ast.Call) and any(t.name == 'lru_node' for t in P.targets(v)):
                    continue
                if isinstance(v, ast.Name) and comes_from_lru_node(v.id, seen + (name,)):
                    continue
                return False
            return True
        ok = c.args and isinstance(c.args[0], ast.Name) and comes_from_lru_node(c.args[0].id)
        rr.ob(ctx.where(u, c), '%s starts its walk at the node of the prefix' % qual, ok=bool(ok))
        if not ok:
            rr.fail(ctx.finding('R-HIERARCHY', u, c, '%s does not start its walk at lru_node(prefix)' % qual))
    ch = P.method('Traph', 'get_webentity_child_webentities_iter')
    c = [c for c in P.own(ch, ast.Call) if any(t.name == 'dfs_iter' for t in P.targets(c))][0]
    ok = len(c.args) >= 2 and isinstance(c.args[1], ast.Name) and any(names_in_target(a.targets[0]) == [c.args[1].id] for a in ast.walk(ch.node) if isinstance(a, ast.Assign))
    rr.ob(ctx.where(ch, c), 'the child walk is given the prefix LRU it starts from', ok=ok)


@rule('R-RULES-TO-APPLY')
def rules_to_apply(ctx, rr):
    """every rule anchor met on the walk is proposed, deepest first, as the stem-prefix of the walked LRU of that length"""
    P = ctx.P
    u = P.method('LRUTrieWalkHistory', 'rules_to_apply')
    loops = [f for f in P.own(u, ast.For)]
    if len(loops) != 1:
        raise AnalysisError('R-RULES-TO-APPLY: rules_to_apply no longer has one loop')
    lp = loops[0]
    ok = isinstance(lp.iter, ast.Call) and isinstance(lp.iter.func, ast.Name) and lp.iter.func.id == 'reversed' and ast.unparse(lp.iter.args[0]) == 'self.webentity_creation_rules'
    rr.ob(ctx.where(u, lp), 'anchors are proposed deepest first (reversed recording order)', ok=ok)
    if not ok:
        rr.fail(ctx.finding('R-RULES-TO-APPLY', u, lp, 'rule anchors are no longer proposed in reversed (deepest first) order'))
    POS = lp.target.id if isinstance(lp.target, ast.Name) else None
    rows = tables(ctx, u, stmts=lp.body, iters=1)
    bad = []
    for r in rows:
        nonneg = r.lin_known({POS: 1}, '>=', 0)
        ys = [e for e in r.events if e.kind == 'yield']
        if nonneg is not False and not ys:
            bad.append((r, 'an anchor at a valid position is not proposed (an extra condition filters it)'))
        for y in ys:
            if base(y.args[0]).replace(' ', '') not in ('self.lru[0:%s]' % POS, 'self.lru[:%s]' % POS):
                bad.append((r, 'the proposed anchor is `%s`, not the stem-prefix self.lru[0:position]' % y.args[0]))
    rr.ob(ctx.where(u, lp), 'every recorded anchor position yields self.lru[0:position] (%d rows)' % len(rows), ok=not bad)
    for r, msg in bad[:2]:
        rr.fail(ctx.finding('R-RULES-TO-APPLY', u, lp, 'rules_to_apply: ' + msg, detail={'row': r.show()[:300]}))
    # the rule functions apply the pattern with search() and return the whole match
    for nm in ('__apply_webentity_creation_rule', '__apply_webentity_default_creation_rule'):
        f = P.method('Traph', nm)
        rws = tables(ctx, f, iters=1, keep=lambda n_, c: n_ in ('search', 'group', 'match', 'fullmatch'))
        ok = bool(rws)
        for r_ in rws:
            ret = [e for e in r_.events if e.kind == 'return']
            srch = r_.calls('search')
            txt = ret[0].text if ret else ''
            ok = ok and bool(srch) and (txt == 'None' or txt.endswith('.group()'))
            # a successful search is always answered with the match text: no further condition may drop the proposal
            hit = [v for k, v in r_.val.items() if k.startswith('truthy:') and '.search(' in k]
            if hit and hit[0] is True and not txt.endswith('.group()'):
                ok = False
            if hit and hit[0] is False and txt != 'None':
                ok = False
        ok = ok and any(([e for e in r_.events if e.kind == 'return'] or [None])[0] is not None and
                        [e for e in r_.events if e.kind == 'return'][0].text.endswith('.group()') for r_ in rws)
        rr.ob(ctx.where(f), '%s returns the text matched by the rule pattern' % nm, ok=ok)
        if not ok:
            rr.fail(ctx.finding('R-RULES-TO-APPLY', f, f.node, '%s no longer returns regexp.search(lru).group() whenever the pattern matches (a matching rule is silently not proposed)' % nm, stmt=nm))
