"""E6 table rules, part 2: R-RELEVANCE, R-ORDER, R-PROPAGATE, R-SKIP-CHILDLESS, R-TOKEN-CODEC, R-FILTER-AGREE, R-LADDER-AGREE,
R-TOPK, R-RULE-INSTALL."""
import ast

from ..core import rule
from ..program import AnalysisError
from ..abpe import split_tuple
from ..consts import const_env, UNKNOWN
from ..effects import TRIE_NODE
from .table_rules import tables, base, first_idx


def pushes(row):
    """stack pushes of a traversal step: [(direction, tuple fields, event)]"""
    out = []
    for e in row.calls('append'):
        if not e.args:
            continue
        f = split_tuple(e.args[0])
        d = None
        for side in ('right', 'left', 'child'):
            if f and base(f[0]).endswith('.%s()' % side):
                d = side
        if d:
            out.append((d, [base(x) for x in f], e))
    return out


def atom_val(row, suffix):
    v = [val for k, val in row.val.items() if base(k).endswith(suffix)]
    return v[-1] if v else None


def start_atom(row):
    """value of the `this is the starting node` atom: the equality atom of a traversal step (block == starting block)"""
    eqs = [(k, v) for k, v in row.val.items() if k.startswith('EQ:')]
    if len(eqs) == 1:
        return eqs[0][1]
    for k, v in eqs:
        if '.block' in k or 'block' in row.src.get(k, ''):
            return v
    return None


def popped_names(P, u, loop):
    """names unpacked from the stack pop at the head of a traversal loop"""
    for s in loop.body:
        if isinstance(s, ast.Assign) and isinstance(s.value, ast.Call) and isinstance(s.value.func, ast.Attribute) and s.value.func.attr == 'pop':
            from ..dataflow import names_in_target
            return names_in_target(s.targets[0])
    raise AnalysisError('traversal loop of %s does not start by popping its stack' % u.qual)


# ------------------------------------------------------------------------------------------------ R-RELEVANCE
@rule('R-RELEVANCE')
def relevance(ctx, rr):
    """the webentity-bounded walks: the start node is always visited and never leaves through its siblings; any other node is
    visited (and descended) iff it carries no webentity; siblings of every non-start node are followed; depth limit prunes
    children only"""
    P = ctx.P
    u = P.method('LRUTrie', 'webentity_dfs_iter')
    loops = [w for w in P.own(u, ast.While)]
    if len(loops) != 1:
        raise AnalysisError('R-RELEVANCE: webentity_dfs_iter no longer has one traversal loop')
    keep = lambda n, c: n in ('append', 'has_webentity', 'has_right', 'has_left', 'has_child', 'read')
    rows = tables(ctx, u, stmts=loops[0].body, iters=1, keep=keep)
    pn = popped_names(P, u, loops[0])
    if len(pn) != 3:
        raise AnalysisError('R-RELEVANCE: webentity_dfs_iter stack entries are not (block, lru, level)')
    LRUV, LVL = pn[1], pn[2]
    bad = []
    tab_dfs = set()
    for r in rows:
        S = start_atom(r)
        W = atom_val(r, '.has_webentity()')
        ys = [e for e in r.events if e.kind == 'yield']
        ps = pushes(r)
        dirs = [d for d, f, e in ps]
        if r.outcome in ('break', 'return'):
            bad.append((r, None, 'a step ends the whole walk (`%s`) while blocks are still waiting on the stack: the pending siblings and their subtrees are never visited' % r.outcome))
            continue
        if S is None:
            bad.append((r, None, 'a step does not test whether it is at the starting node'))
            continue
        relevant = S or (W is False)
        if not S and W is None:
            bad.append((r, None, 'a non-start node is handled without looking at its webentity'))
            continue
        if bool(ys) != bool(relevant):
            bad.append((r, ys[0] if ys else None, 'node is %s although it %s' % ('yielded' if ys else 'skipped',
                                                                            'belongs to another webentity' if not relevant else 'belongs to the walked webentity')))
        for side in ('right', 'left'):
            h = atom_val(r, '.has_%s()' % side)
            want = (not S) and bool(h)
            if (side in dirs) != want:
                bad.append((r, None, '%s sibling is %s (start=%s, has_%s=%s)' % (side, 'followed' if side in dirs else 'not followed', S, side, h)))
            if not S and h is None:
                bad.append((r, None, 'has_%s() is not consulted on a non-start node' % side))
        hc = atom_val(r, '.has_child()')
        md_none = r.val.get('isnone:max_depth')
        deep = None
        for k, v in r.val.items():
            if k.startswith('ORD:') and 'max_depth' in k and LVL in k:
                a, b = k[4:].split(' ? ')
                lv, md = (a, b) if base(a) == LVL else (b, a)
                deep = r.ord(lv, md) in ('EQ', 'GT')
        limited = (md_none is False) and bool(deep)
        want_child = relevant and bool(hc) and not limited
        if ('child' in dirs) != want_child:
            bad.append((r, None, 'child is %s (relevant=%s, has_child=%s, depth-limited=%s)' % ('descended' if 'child' in dirs else 'not descended', relevant, hc, limited)))
        if relevant and hc and md_none is None:
            bad.append((r, None, 'the depth limit is not consulted before descending'))
        ylru = base(ys[0].args[1]) if ys and len(ys[0].args) > 1 else None
        for d, f, e in ps:
            if d == 'child':
                ok = len(f) == 3 and (ylru is None or f[1] == ylru) and f[1].startswith('(%s Add ' % LRUV) and f[1].endswith('.stem())') \
                    and f[2] == '(%s Add 1)' % LVL
            else:
                ok = len(f) == 3 and f[1] == LRUV and f[2] == LVL
            if not ok:
                bad.append((r, e, '%s push carries %s (child: extended LRU and level+1; sibling: same LRU and level)' % (d, f[1:])))
        tab_dfs.add((S, None if S else W, bool(ys), 'right' in dirs or 'left' in dirs or (not S and not (atom_val(r, '.has_right()') or atom_val(r, '.has_left()'))) and not S,
                     ('child' in dirs) if hc and not limited else None))
    rr.ob(ctx.where(u, loops[0]), 'webentity_dfs_iter step table: start -> yield/no siblings/child; other without webentity -> yield/siblings/child; other with '
          'webentity -> skip/siblings/no child; depth limit prunes the child only (%d rows)' % len(rows), ok=not bad, rows=len(rows))
    for r, e, msg in bad:
        rr.fail(ctx.finding('R-RELEVANCE', u, e.node if e is not None else loops[0], 'webentity_dfs_iter: ' + msg, detail={'row': r.show()[:500]}))
    # ---- in-order variant
    io = P.unit('LRUTrie.webentity_inorder_iter.<locals>.inorder_traversal')
    keep = lambda n, c: n in ('has_webentity', 'has_right', 'has_left', 'has_child', 'can_follow_path')
    rows = tables(ctx, io, iters=1, keep=keep)
    bad = []
    for r in rows:
        pruned = r.outcome == 'return' and not [e for e in r.events if e.kind in ('yield', 'delegate')] and atom_val(r, 'can_follow_path(path)') is False
        if pruned:
            continue
        S = start_atom(r)
        W = atom_val(r, '.has_webentity()')
        if S is None:
            bad.append((r, None, 'a step does not test whether it is at the starting node'))
            continue
        relevant = S or (W is False)
        if not S and W is None:
            bad.append((r, None, 'a non-start node is handled without looking at its webentity'))
            continue
        dl = {}
        for e in r.events:
            if e.kind == 'delegate':
                for side in ('left', 'child', 'right'):
                    if e.args and base(e.args[0]).endswith('.%s_node()' % side):
                        dl[side] = e
        ys = [e for e in r.events if e.kind == 'yield']
        resume_skip = False
        if r.val.get('isnone:pagination_path') is False:
            PL = resume_var(P)
            for k, v in r.val.items():
                if k.startswith('ORD:') and PL in k:
                    a, b = k[4:].split(' ? ')
                    cur, pl = (a, b) if base(b) == PL else (b, a)
                    resume_skip = r.ord(cur, pl) != 'GT'
        if bool(ys) != (bool(relevant) and not resume_skip):
            bad.append((r, ys[0] if ys else None, 'node is %s (relevant=%s, resume filter skips=%s)' % ('yielded' if ys else 'skipped', relevant, resume_skip)))
        for side in ('left', 'right'):
            h = atom_val(r, '.has_%s()' % side)
            want = (not S) and bool(h)
            if (side in dl) != want:
                bad.append((r, None, '%s subtree is %s (start=%s, has_%s=%s)' % (side, 'walked' if side in dl else 'not walked', S, side, h)))
        hc = atom_val(r, '.has_child()')
        if ('child' in dl) != (bool(relevant) and bool(hc)):
            bad.append((r, None, 'child subtree is %s (relevant=%s, has_child=%s)' % ('walked' if 'child' in dl else 'not walked', relevant, hc)))
    rr.ob(ctx.where(io), 'in-order variant obeys the same relevance table (%d rows)' % len(rows), ok=not bad, rows=len(rows))
    for r, e, msg in bad:
        rr.fail(ctx.finding('R-RELEVANCE', io, e.node if e is not None else io.node, 'webentity_inorder_iter: ' + msg, detail={'row': r.show()[:500]}))


def resume_var(P):
    """name of the variable of webentity_inorder_iter that holds the LRU of the resume token (assigned from follow_path)"""
    outer = P.method('LRUTrie', 'webentity_inorder_iter')
    for a in P.own(outer, ast.Assign):
        if isinstance(a.targets[0], ast.Name) and any(isinstance(c, ast.Call) and isinstance(c.func, ast.Name) and c.func.id == 'follow_path' for c in ast.walk(a.value)):
            return a.targets[0].id
    raise AnalysisError('webentity_inorder_iter no longer computes the resume LRU with follow_path')


# ------------------------------------------------------------------------------------------------ R-ORDER
@rule('R-ORDER')
def order(ctx, rr):
    """in-order iterator: left subtree, node, child subtree, right subtree; strict resume filter; path pruning first"""
    P = ctx.P
    io = P.unit('LRUTrie.webentity_inorder_iter.<locals>.inorder_traversal')
    rows = tables(ctx, io, iters=1, keep=lambda n, c: n in ('can_follow_path',))
    bad = []
    n_full = 0
    for r in rows:
        pos = {}
        for i, e in enumerate(r.events):
            if e.kind == 'delegate' and e.args:
                for side in ('left', 'child', 'right'):
                    if base(e.args[0]).endswith('.%s_node()' % side):
                        pos[side] = i
                        # the LRU handed down: siblings keep the parent LRU, the child gets the extended one
                        if side == 'child' and 'stem()' not in e.args[1]:
                            bad.append((r, e, 'child subtree is walked with the parent LRU instead of the extended one'))
                        if side != 'child' and ('stem()' in e.args[1]):
                            bad.append((r, e, '%s subtree is walked with the extended LRU instead of the parent one' % side))
            if e.kind == 'yield':
                pos['node'] = i
        seq = [k for k in ('left', 'node', 'child', 'right') if k in pos]
        if [pos[k] for k in seq] != sorted(pos[k] for k in seq):
            bad.append((r, None, 'emission order is %s, not left < node < child < right' % sorted(pos, key=pos.get)))
        if len(seq) == 4:
            n_full += 1
        # strict resume
        if r.val.get('isnone:pagination_path') is False and 'node' in pos:
            okk = False
            PL = resume_var(P)
            ylru = [e for e in r.events if e.kind == 'yield'][0].args[1]
            for k, v in r.val.items():
                if k.startswith('ORD:') and PL in k:
                    a, b = k[4:].split(' ? ')
                    if {base(a), base(b)} == {PL, base(ylru)}:
                        okk = r.ord(ylru, b if base(a) == base(ylru) else a) == 'GT'
            if not okk:
                bad.append((r, None, 'on resume a node is emitted without its full LRU being compared strictly greater (byte order, the order of the sibling trees) '
                            'than the LRU of the token'))
        # pruning is decided before anything is emitted
        cf = first_idx(r, lambda e: e.kind == 'call' and e.name == 'can_follow_path')
        if r.val.get('isnone:pagination_path') is False:
            firstem = first_idx(r, lambda e: e.kind in ('yield', 'delegate'))
            if cf is None or (firstem is not None and cf > firstem):
                bad.append((r, None, 'the resume path is not consulted before the subtree is walked'))
    rr.ob(ctx.where(io), 'in-order emission: left subtree < node < child subtree < right subtree in all %d rows (%d rows with all four); strict `>` resume filter'
          % (len(rows), n_full), ok=not bad, rows=len(rows))
    for r, e, msg in bad:
        rr.fail(ctx.finding('R-ORDER', io, e.node if e is not None else io.node, 'in-order traversal: ' + msg, detail={'row': r.show()[:500]}))
    if n_full < 1:
        raise AnalysisError('R-ORDER: no row of inorder_traversal emits left, node, child and right')
    outer_u = P.method('LRUTrie', 'webentity_inorder_iter')
    raw = [a for a in P.own(outer_u, ast.Assign) if isinstance(a.targets[0], ast.Name) and a.targets[0].id == resume_var(P) and not
           (isinstance(a.value, ast.Constant) and a.value.value is None)]
    ok = len(raw) == 1 and isinstance(raw[0].value, ast.Call) and isinstance(raw[0].value.func, ast.Name) and raw[0].value.func.id == 'follow_path'
    rr.ob(ctx.where(outer_u), 'the resume LRU is the LRU found by following the token path', ok=ok)
    if not ok:
        rr.fail(ctx.finding('R-ORDER', outer_u, raw[0] if raw else outer_u.node, 'the LRU the resume filter compares with is not the plain result of follow_path(token path)'))
    # can_follow_path compares path prefixes with >=
    cfp = P.unit('LRUTrie.webentity_inorder_iter.<locals>.can_follow_path')
    rets = [x.value for x in P.own(cfp, ast.Return) if x.value is not None]
    sliced = {a.targets[0].id for a in P.own(cfp, ast.Assign) if isinstance(a.value, ast.Subscript) and isinstance(a.targets[0], ast.Name)}
    cmp_ok = False
    for v in rets:
        if isinstance(v, ast.Compare) and len(v.ops) == 1:
            l, r_, op = v.left, v.comparators[0], type(v.ops[0])
            if isinstance(r_, ast.Name) and r_.id in sliced and op is ast.GtE:
                cmp_ok = True
            if isinstance(l, ast.Name) and l.id in sliced and op is ast.LtE:
                cmp_ok = True
    rr.ob(ctx.where(cfp), 'path pruning keeps a subtree iff its path is >= the same-length prefix of the resume path', ok=cmp_ok)
    if not cmp_ok:
        rr.fail(ctx.finding('R-ORDER', cfp, cfp.node, 'path pruning no longer keeps subtrees whose path is >= the prefix of the resume path', stmt='can_follow_path'))
    # the outer iterator starts at the starting node with the dirname LRU
    outer = P.method('LRUTrie', 'webentity_inorder_iter')
    rows = tables(ctx, outer, iters=1)
    dels = [e for r in rows for e in r.events if e.kind == 'delegate']
    ok = bool(dels) and all(base(e.args[0]) == 'starting_node' and 'lru_dirname' in e.args[1] for e in dels)
    rr.ob(ctx.where(outer), 'the walk starts at the prefix node with the LRU of its parent (so that yielded LRUs are complete)', ok=ok)
    if not ok:
        rr.fail(ctx.finding('R-ORDER', outer, outer.node, 'the in-order walk does not start at (starting_node, dirname(prefix))', stmt='inorder start'))


# ------------------------------------------------------------------------------------------------ R-PROPAGATE
@rule('R-PROPAGATE')
def propagate(ctx, rr):
    """dfs_with_webentity_iter: a node reports its own webentity if it has one, else the inherited one; the child inherits
    what the node reports, siblings inherit what the node inherited"""
    P = ctx.P
    u = P.method('LRUTrie', 'dfs_with_webentity_iter')
    loops = [w for w in P.own(u, ast.While)]
    if len(loops) != 1:
        raise AnalysisError('R-PROPAGATE: dfs_with_webentity_iter no longer has one traversal loop')
    rows = tables(ctx, u, stmts=loops[0].body, iters=1, keep=lambda n, c: n in ('append', 'has_webentity', 'has_right', 'has_left', 'has_child', 'pop', 'read'))
    pn = popped_names(P, u, loops[0])
    if len(pn) != 2:
        raise AnalysisError('R-PROPAGATE: stack entries of dfs_with_webentity_iter are not (block, webentity)')
    INH = pn[1]
    bad = []
    for r in rows:
        W = atom_val(r, '.has_webentity()')
        ys = [e for e in r.events if e.kind == 'yield']
        pops = [e for e in r.events if e.kind == 'call' and e.name == 'pop']
        if W is None or len(ys) != 1:
            bad.append((r, None, 'a step does not look at the node webentity or does not yield exactly once'))
            continue
        ya = [base(a) for a in ys[0].args]
        own = [a for a in ya if a.endswith('.webentity()')]
        inherited = ya[1] if len(ya) == 2 else None
        if W and not own:
            bad.append((r, ys[0], 'a node that carries a webentity reports %s instead of its own' % ya[1:]))
        if not W and (own or ya[1] != INH):
            bad.append((r, ys[0], 'a node without webentity reports %s instead of the inherited webentity' % ya[1]))
        for d, f, e in pushes(r):
            if len(f) != 2:
                bad.append((r, e, 'unexpected stack entry %s' % f))
                continue
            if d == 'child' and f[1] != ya[1]:
                bad.append((r, e, 'the child inherits %s, not the webentity the node reports (%s)' % (f[1], ya[1])))
            if d != 'child' and f[1] != INH:
                bad.append((r, e, 'the %s sibling inherits %s instead of the webentity inherited by the node' % (d, f[1])))
        dirs = [d for d, f, e in pushes(r)]
        for side in ('right', 'left', 'child'):
            h = atom_val(r, '.has_%s()' % side)
            if h is None or (side in dirs) != bool(h):
                bad.append((r, None, '%s pointer is %s although has_%s=%s' % (side, 'followed' if side in dirs else 'not followed', side, h)))
    rr.ob(ctx.where(u, loops[0]), 'nearest-webentity propagation table (%d rows)' % len(rows), ok=not bad, rows=len(rows))
    for r, e, msg in bad:
        rr.fail(ctx.finding('R-PROPAGATE', u, e.node if e is not None else loops[0], 'dfs_with_webentity_iter: ' + msg, detail={'row': r.show()[:500]}))


# ------------------------------------------------------------------------------------------------ R-SKIP-CHILDLESS
@rule('R-SKIP-CHILDLESS')
def skip_childless(ctx, rr):
    P = ctx.P
    u = P.method('LRUTrie', 'dfs_iter')
    loops = [w for w in P.own(u, ast.While)]
    if len(loops) != 1:
        raise AnalysisError('R-SKIP-CHILDLESS: dfs_iter no longer has one traversal loop')
    rows = tables(ctx, u, stmts=loops[0].body, iters=1, keep=lambda n, c: n in ('append', 'can_have_child_webentities', 'has_right', 'has_left', 'has_child'))
    bad = []
    # the from-the-root flag: a local bound before the loop from the starting-node parameter; it must be true exactly when no
    # starting node was given (3-valued evaluation of its defining expression under "given" / "not given")
    def ev3(e, given, prm):
        if isinstance(e, ast.UnaryOp) and isinstance(e.op, ast.Not):
            v = ev3(e.operand, given, prm)
            return None if v is None else (not v)
        if isinstance(e, ast.Name) and e.id == prm:
            return given
        if isinstance(e, ast.Call) and isinstance(e.func, ast.Name) and e.func.id == 'bool' and len(e.args) == 1:
            return ev3(e.args[0], given, prm)
        if isinstance(e, ast.Compare) and len(e.ops) == 1 and isinstance(e.left, ast.Name) and e.left.id == prm \
                and isinstance(e.comparators[0], ast.Constant) and e.comparators[0].value is None:
            if isinstance(e.ops[0], ast.Is):
                return not given
            if isinstance(e.ops[0], ast.IsNot):
                return given
        if isinstance(e, ast.BoolOp):
            vals = [ev3(v, given, prm) for v in e.values]
            if isinstance(e.op, ast.And):
                return False if any(v is False for v in vals) else (None if any(v is None for v in vals) else True)
            return True if any(v is True for v in vals) else (None if any(v is None for v in vals) else False)
        if isinstance(e, ast.Constant):
            return bool(e.value)
        return None
    roots = []
    for a in P.own(u, ast.Assign):
        if len(a.targets) == 1 and isinstance(a.targets[0], ast.Name) and a.targets[0].id not in u.params:
            prms = [x.id for x in ast.walk(a.value) if isinstance(x, ast.Name) and x.id in u.params]
            inloop = any(a in ast.walk(w) for w in loops)
            if prms and not inloop:
                from ..dataflow import test_leaves
                tested = any(isinstance(x, ast.Name) and x.id == a.targets[0].id for w in loops for i_ in ast.walk(w) if isinstance(i_, ast.If) for x in test_leaves(i_.test))
                if tested:
                    roots.append((a.targets[0].id, a, prms[0]))
    if len(roots) != 1:
        raise AnalysisError('R-SKIP-CHILDLESS: dfs_iter no longer derives a from-the-root flag from its starting node')
    flag_name, flag_def, flag_prm = roots[0]
    v_given, v_absent = ev3(flag_def.value, True, flag_prm), ev3(flag_def.value, False, flag_prm)
    okf = v_given is False and v_absent is True
    rr.ob(ctx.where(u, flag_def), 'dfs_iter follows the siblings of its first node iff no starting node was given (`%s`)' % ast.unparse(flag_def)[:80], ok=okf)
    if not okf:
        rr.fail(ctx.finding('R-SKIP-CHILDLESS', u, flag_def, 'dfs_iter: the from-the-root flag `%s` can be %s when a starting node is given and %s when none is: a walk below an '
                            'explicitly given node then %s' % (ast.unparse(flag_def.value)[:60], 'true' if v_given is not False else 'false', 'true' if v_absent is not False else 'false',
                                                               'also follows the siblings of that node (pages and webentities of other subtrees are reported)' if v_given is not False
                                                               else 'a whole-trie walk misses the siblings of the root'), stmt='dfs_iter from-root flag'))
    roots = [flag_name]
    for r in rows:
        root = r.val.get('truthy:' + roots[0])
        S = start_atom(r)
        sib_ok = bool(root) or (S is False)
        skip = r.val.get('truthy:skip_childless_paths')
        can = atom_val(r, '.can_have_child_webentities()')
        ys = [e for e in r.events if e.kind == 'yield']
        dirs = [d for d, f, e in pushes(r)]
        if len(ys) != 1:
            bad.append((r, None, 'every popped node must be yielded exactly once'))
        for side in ('right', 'left'):
            h = atom_val(r, '.has_%s()' % side)
            if (side in dirs) != (sib_ok and bool(h)):
                bad.append((r, None, '%s sibling is %s (from root=%s, at start=%s, has_%s=%s, skip=%s)' % (side, 'followed' if side in dirs else 'dropped', root, S, side, h, skip)))
        hc = atom_val(r, '.has_child()')
        pruned = bool(skip) and (can is False)
        if skip and can is None:
            bad.append((r, None, 'the shortcut is taken without looking at the child-webentity mark'))
        if hc is None and not pruned:
            bad.append((r, None, 'the walk leaves the node without looking at its child although the shortcut does not apply (shortcut=%s, may have child webentities=%s): '
                           'everything below is cut off' % (skip, can)))
        elif ('child' in dirs) != (bool(hc) and not pruned):
            bad.append((r, None, 'child is %s (has_child=%s, shortcut=%s, may have child webentities=%s)' % ('descended' if 'child' in dirs else 'not descended', hc, skip, can)))
    rr.ob(ctx.where(u, loops[0]), 'dfs_iter: the childless-path shortcut prunes the child only, siblings are always followed (%d rows)' % len(rows), ok=not bad, rows=len(rows))
    for r, e, msg in bad:
        rr.fail(ctx.finding('R-SKIP-CHILDLESS', u, e.node if e is not None else loops[0], 'dfs_iter: ' + msg, detail={'row': r.show()[:500]}))
    # the hierarchy query uses the shortcut; the parent query walks node_parents_iter
    ch = P.method('Traph', 'get_webentity_child_webentities_iter')
    ok = any(P.method('LRUTrie', 'dfs_iter') in P.targets(c) for c in P.own(ch, ast.Call))
    rr.ob(ctx.where(ch), 'child-webentity query walks dfs_iter below each prefix', ok=ok)
    if not ok:
        rr.fail(ctx.finding('R-SKIP-CHILDLESS', ch, ch.node, 'child-webentity query no longer walks the subtree with dfs_iter', stmt='child query'))


# ------------------------------------------------------------------------------------------------ R-TOKEN-CODEC
@rule('R-TOKEN-CODEC')
def token_codec(ctx, rr):
    P = ctx.P
    CE = const_env(ctx)
    io = P.unit('LRUTrie.webentity_inorder_iter.<locals>.inorder_traversal')
    rows = tables(ctx, io, iters=1, keep=lambda n, c: False)
    writer = {}
    for r in rows:
        for e in r.events:
            if e.kind == 'delegate' and len(e.args) >= 3:
                for side in ('left', 'child', 'right'):
                    if base(e.args[0]).endswith('.%s_node()' % side):
                        d = e.args[2]
                        import re
                        m = re.match(r'base4_append\((\w+), (\d+)\)$', base(d))
                        writer.setdefault(side, set()).add(int(m.group(2)) if m else d)
    ok = all(len(v) == 1 and isinstance(list(v)[0], int) for v in writer.values()) and set(writer) == {'left', 'child', 'right'}
    wmap = {k: list(v)[0] for k, v in writer.items()} if ok else {}
    ok = ok and sorted(wmap.values()) == [1, 2, 3]
    rr.ob(ctx.where(io), 'path writer appends one base-4 digit per move: %s (digits 1..3, 0 never used so leading moves are not lost)' % wmap, ok=ok)
    if not ok:
        rr.fail(ctx.finding('R-TOKEN-CODEC', io, io.node, 'the in-order walk does not append distinct digits 1,2,3 for left/child/right: %s' % writer, stmt='path writer'))
        return
    fp = P.unit('LRUTrie.webentity_inorder_iter.<locals>.follow_path')
    loops = [f for f in P.own(fp, ast.For)]
    if len(loops) != 1:
        raise AnalysisError('R-TOKEN-CODEC: follow_path no longer has one loop over the digits')
    rows = tables(ctx, fp, stmts=loops[0].body, iters=1, keep=lambda n, c: n in ('read_left', 'read_child', 'read_right', 'stem'))
    reader = {}
    rest = None
    digits = set()
    for r in rows:
        moves = [e.name[5:] for e in r.calls(('read_left', 'read_child', 'read_right'))]
        eqs = {k: v for k, v in r.val.items() if k.startswith('EQ:')}
        true = [k for k, v in eqs.items() if v]
        if len(moves) != 1:
            reader['?'] = moves
            continue
        if true:
            import re
            m = re.search(r"'(\d)'", true[0]) or re.search(r"str\((\d)\)", true[0])
            reader[int(m.group(1)) if m else true[0]] = moves[0]
        else:
            rest = moves[0]
        if moves[0] == 'child':
            # the child move extends the LRU by the stem of the node it leaves
            i_aug = first_idx(r, lambda e: e.kind == 'aug')
            i_mv = first_idx(r, lambda e: e.kind == 'call' and e.name == 'read_child')
            if i_aug is None or i_aug > i_mv:
                rr.fail(ctx.finding('R-TOKEN-CODEC', fp, loops[0], 'following a child digit does not extend the LRU with the parent stem before moving'))
            else:
                # ... with the stem of the node the walk stands on NOW (read at that moment), not one remembered from an earlier digit: a
                # sibling move in between changes the node
                aug_ = r.events[i_aug]
                txt_ = (aug_.text or '')
                if '.stem()' not in txt_ and not any(e.kind == 'call' and e.name == 'stem' for e in r.events[:i_mv]):
                    rr.ob(ctx.where(fp, loops[0]), 'a child digit extends the resume LRU by the current stem of the walking node', ok=False)
                    rr.fail(ctx.finding('R-TOKEN-CODEC', fp, aug_.node if getattr(aug_, 'node', None) is not None else loops[0], 'following a child digit extends the LRU by a stem remembered '
                                        'from an earlier step (`%s`), not by the stem of the node reached after the sibling moves: the resume LRU of a path that goes sibling, then child '
                                        'is wrong and pages are repeated or skipped on resume' % txt_[:40], stmt='follow_path stale stem'))
        elif any(e.kind == 'aug' for e in r.events):
            rr.fail(ctx.finding('R-TOKEN-CODEC', fp, loops[0], 'following a sibling digit extends the LRU'))
    full = dict(reader)
    missing = [d for d in (1, 2, 3) if d not in full]
    if rest is not None and len(missing) == 1:
        full[missing[0]] = rest
    inv = {v: k for k, v in wmap.items()}
    ok = full == inv
    rr.ob(ctx.where(fp), 'path reader maps digits back to the same moves: %s (writer %s)' % (full, wmap), ok=ok)
    if not ok:
        rr.fail(ctx.finding('R-TOKEN-CODEC', fp, loops[0], 'the resume path is decoded with %s but encoded with %s: a token resumes at another node' % (full, wmap)))
    # radix constants of the helpers
    H = 'traph.helpers'

    def fn(name):
        u = P.funcs.get((H, name))
        if u is None:
            raise AnalysisError('anchor vanished: traph.helpers.%s' % name)
        return u

    def binops(u):
        from ..dataflow import resolve_locals as _rlb
        from ..consts import UNKNOWN as _UNK
        out = []

        def fold(e):
            try:
                v = CE.ev(u.module, _rlb(P, u, e))
            except Exception:
                return None
            return v if isinstance(v, int) and not isinstance(v, bool) and v is not _UNK else None
        for n in ast.walk(u.node):
            if isinstance(n, ast.BinOp):
                lv_, rv_ = fold(n.left), fold(n.right)
                if lv_ is not None and rv_ is not None:
                    continue        # a constant expression (`1 << bits` with bits known), not an operation on the value
                for side, v in ((n.right, rv_), (n.left, lv_)):
                    if v is not None and (side is n.right or isinstance(n.op, (ast.Mult, ast.BitAnd))):
                        opn = type(n.op).__name__
                        if opn == 'BitAnd' and v > 0 and (v + 1) & v == 0:
                            opn, v = 'Mod', v + 1           # x & (2**k - 1) is x % 2**k on the non-negative values encoded here
                        out.append((opn, v))
                        break
            if isinstance(n, ast.AugAssign):
                av_ = fold(n.value)
                if av_ is not None:
                    out.append((type(n.op).__name__, av_))
        return out
    checks = [
        ('base4_append', [('Mult', 4)]),
        ('int_to_base4', [('Mod', 4), ('RShift', 2)]),
        ('int_to_base64', [('Mod', 64), ('RShift', 6)]),
        ('base64_to_int', [('Mult', 64)]),
    ]
    for name, want in checks:
        u = fn(name)
        got = binops(u)
        ok = all(w in got for w in want) and not [g for g in got if g[0] in ('Mod', 'RShift', 'Mult', 'LShift', 'FloorDiv') and g not in want]
        rr.ob(ctx.where(u), '%s uses radix operations %s' % (name, want), ok=ok)
        if not ok:
            rr.fail(ctx.finding('R-TOKEN-CODEC', u, u.node, '%s uses %s where %s is required: encoder and decoder of the pagination token disagree' % (name, got, want), stmt=name + ' radix'))
    b64 = CE.get(H, 'BASE64')
    ok = isinstance(b64, str) and len(b64) == 64 and len(set(b64)) == 64 and '#' not in b64 and b64[:4] == '0123'
    rr.ob(P.paths[H] + ' BASE64', 'BASE64 alphabet folds to 64 distinct characters, none of them the token separator, digits 0-3 first (shared with base 4)', ok=ok)
    if not ok:
        rr.fail(ctx.finding('R-TOKEN-CODEC', fn('int_to_base64'), fn('int_to_base64').node, 'BASE64 alphabet is not 64 distinct characters without `#` starting with 0123', stmt='BASE64'))
    # BASE64_INDEX is built by enumerating BASE64
    tree = P.modules[H]
    idx_ok = any(isinstance(n, ast.For) and isinstance(n.iter, ast.Call) and ast.unparse(n.iter) == 'enumerate(BASE64)' and
                 any(isinstance(s, ast.Assign) and ast.unparse(s.targets[0]).startswith('BASE64_INDEX[') for s in n.body) for n in tree.body)
    rr.ob(P.paths[H] + ' BASE64_INDEX', 'decoder table is the inverse of the encoder alphabet', ok=idx_ok)
    if not idx_ok:
        rr.fail(ctx.finding('R-TOKEN-CODEC', fn('base64_to_int'), fn('base64_to_int').node, 'BASE64_INDEX is no longer built as the inverse of BASE64', stmt='BASE64_INDEX'))
    bt, pt = fn('build_pagination_token'), fn('parse_pagination_token')
    fm = [n.value for n in ast.walk(bt.node) if isinstance(n, ast.Constant) and isinstance(n.value, str) and '%' in n.value]
    sp = [ast.unparse(c.args[0]) for c in P.own(pt, ast.Call) if isinstance(c.func, ast.Attribute) and c.func.attr == 'split' and c.args]
    ok = fm == ['%i#%s'] and sp == ["'#'"] and P.funcs[(H, 'int_to_base64')] in P.calls[bt] and P.funcs[(H, 'base64_to_int')] in P.calls[pt]
    if not ok:
        # other spellings of the same text: a separator constant, str.join of (decimal index, encoded path), format()/f-string
        def fold_sep(e):
            v = CE.ev(H, e)
            return v if isinstance(v, str) else None
        bsep, bint = None, None
        for n_ in ast.walk(bt.node):
            if isinstance(n_, ast.Constant) and isinstance(n_.value, str) and '%' in n_.value:
                m_ = __import__('re').match(r'^%[id](.*)%s$', n_.value)
                if m_:
                    bsep, bint = m_.group(1), True
                elif n_.value in ('%i', '%d'):
                    bint = True
            if isinstance(n_, ast.Call) and isinstance(n_.func, ast.Attribute) and n_.func.attr == 'join' and n_.args and isinstance(n_.args[0], (ast.Tuple, ast.List)) \
                    and len(n_.args[0].elts) == 2:
                bsep = fold_sep(n_.func.value)
            if isinstance(n_, ast.Call) and isinstance(n_.func, ast.Name) and n_.func.id == 'str':
                bint = True
            if isinstance(n_, ast.JoinedStr):
                consts = [v_.value for v_ in n_.values if isinstance(v_, ast.Constant)]
                if len(consts) == 1 and len(n_.values) == 3:
                    bsep, bint = consts[0], True
        psep = None
        for c in P.own(pt, ast.Call):
            if isinstance(c.func, ast.Attribute) and c.func.attr in ('split', 'rsplit', 'partition', 'rpartition', 'index', 'find', 'rfind') and c.args:
                psep = fold_sep(c.args[0])
        if psep is None and pt.call_params:
            # cut at fixed positions: the builder writes the index with %i (any number of digits), so no fixed position is the separator
            tk = pt.call_params[0]
            fixed = [x_ for x_ in ast.walk(pt.node) if isinstance(x_, ast.Subscript) and isinstance(x_.value, ast.Name) and x_.value.id == tk and
                     all(isinstance(y_, ast.Constant) for y_ in ast.walk(x_.slice) if isinstance(y_, (ast.Constant, ast.Name, ast.Call)))]
            if fixed and bsep is not None and bint:
                psep = 'fixed positions'
        has_regex = any(isinstance(n_, ast.Constant) and isinstance(n_.value, str) and ('[' in n_.value or '^' in n_.value)
                        for n_ in list(ast.walk(pt.node)) + [x for st_ in P.modules[H].body if isinstance(st_, ast.Assign) for x in ast.walk(st_)])
        if (bsep is None or psep is None or not bint) and not has_regex:
            raise AnalysisError('R-TOKEN-CODEC: text format of the pagination token not recognised (builder %s, parser %s)' % (fm, sp))
        if psep is None and has_regex:
            psep = bsep          # the parser validates with a regular expression: its character classes are checked below
        ok = bsep == psep and bsep == '#' and P.funcs[(H, 'int_to_base64')] in P.calls[bt] and P.funcs[(H, 'base64_to_int')] in P.calls[pt]
        fm, sp = ['%i' + (bsep or '?') + '%s'], [repr(psep)]
    prt = [x.value for x in P.own(pt, ast.Return) if x.value is not None]
    okp = len(prt) == 1 and isinstance(prt[0], ast.Tuple) and len(prt[0].elts) == 2 and isinstance(prt[0].elts[0], ast.Call) and isinstance(prt[0].elts[0].func, ast.Name) \
        and prt[0].elts[0].func.id == 'int' and len(prt[0].elts[0].args) == 1 and isinstance(prt[0].elts[1], ast.Call) and \
        any(t.name == 'base64_to_int' for t in P.targets(prt[0].elts[1]))
    rr.ob(ctx.where(pt), 'the parser reads the prefix index in decimal (as written by %i) and the path in base 64', ok=okp)
    if not okp:
        rr.fail(ctx.finding('R-TOKEN-CODEC', pt, pt.node, 'parse_pagination_token does not decode (decimal prefix index, base-64 path): indexes above 9 resume in the wrong prefix',
                            stmt='token parse'))
    val = [n_ for n_ in ast.walk(pt.node) if isinstance(n_, ast.Constant) and isinstance(n_.value, str) and ('[' in n_.value or '^' in n_.value)]
    used_names = {x.id for x in ast.walk(pt.node) if isinstance(x, ast.Name)}
    for st_ in P.modules[H].body:
        if isinstance(st_, ast.Assign) and any(isinstance(t_, ast.Name) and t_.id in used_names for t_ in st_.targets):
            val += [n_ for n_ in ast.walk(st_.value) if isinstance(n_, ast.Constant) and isinstance(n_.value, str) and ('[' in n_.value or '^' in n_.value)]
    for v in val:
        import re as _re
        try:
            rx = _re.compile(v.value)
            okv = all(rx.match('12#' + ch) for ch in b64) if isinstance(b64, str) else False
        except Exception:
            okv = False
        rr.ob(ctx.where(pt, v), 'the token validation pattern accepts every digit of the path alphabet', ok=okv)
        if not okv:
            rr.fail(ctx.finding('R-TOKEN-CODEC', pt, v, 'the token validation pattern `%s` rejects tokens the builder can issue (a digit of the base-64 alphabet is missing)' % v.value))
    rr.ob(ctx.where(bt), 'token = "<prefix index>#<base64 path>" on both sides', ok=ok)
    if not ok:
        rr.fail(ctx.finding('R-TOKEN-CODEC', bt, bt.node, 'token text format differs between builder (%s) and parser (split %s)' % (fm, sp), stmt='token format'))


# ------------------------------------------------------------------------------------------------ R-FILTER-AGREE
def _link_loops(P, u):
    """for-loops of u iterating a LinkStore weighted/deduped iterator"""
    out = []
    for f in P.own(u, ast.For):
        if isinstance(f.iter, ast.Call) and any(t.cls == 'LinkStore' for t in P.targets(f.iter)):
            out.append(f)
    return out


def _loop_direction(P, u, loop):
    """'out' / 'in' / None: which link head feeds the link loop"""
    arg = loop.iter.args[0] if loop.iter.args else None

    def of_call(c):
        if isinstance(c, ast.Call) and isinstance(c.func, ast.Attribute):
            if c.func.attr == 'outlinks':
                return 'out'
            if c.func.attr == 'inlinks':
                return 'in'
        return None
    if of_call(arg):
        return of_call(arg)
    if isinstance(arg, ast.Name):
        blk = P.parent.get(id(loop))
        seq = getattr(blk, 'body', [])
        if loop in seq:
            for s in reversed(seq[:seq.index(loop)]):
                if isinstance(s, ast.Assign) and any(isinstance(t, ast.Name) and t.id == arg.id for t in s.targets):
                    return of_call(s.value)
    return None


def _eq(row, a_sub, b_sub):
    """value of the equality/ordering atom whose key or source text mentions both substrings -> True (equal) / False / None"""
    for k, v in row.by_src(a_sub, b_sub, kinds=('EQ:', 'ORD:')):
        if k.startswith('EQ:'):
            return v
        return v == 'EQ'
    return None


def _assigned_from(P, scope_node, callee_names, owner_unit):
    """names assigned (inside scope_node) from a call resolved to one of callee_names (or a dict .get)"""
    out = []
    for a in ast.walk(scope_node):
        if isinstance(a, ast.Assign) and isinstance(a.targets[0], ast.Name) and isinstance(a.value, ast.Call):
            tg = {t.name for t in P.targets(a.value)}
            f = a.value.func
            if tg & set(callee_names) or ('.get' in callee_names and isinstance(f, ast.Attribute) and f.attr == 'get' and not tg):
                out.append(a.targets[0].id)
    return out


def _enclosing_for(P, u, node):
    cur = P.parent.get(id(node))
    while cur is not None and cur is not u.node:
        if isinstance(cur, ast.For):
            return cur
        cur = P.parent.get(id(cur))
    return None


def _triple_appends(row):
    return [e for e in row.calls('append') if e.args and len(split_tuple(e.args[0])) == 3]


@rule('R-FILTER-AGREE')
def filter_agree(ctx, rr):
    P = ctx.P
    from ..dataflow import names_in_target
    keep = lambda n, c: n in ('append', 'windup_lru', 'windup_lru_for_webentity', 'read', 'get')

    # ---- per-webentity outbound/internal filter (two copies) and inbound filter
    for qual in ('Traph.get_webentity_pagelinks_iter', 'Traph.paginate_webentity_pagelinks'):
        u = P.unit(qual)
        WEID = u.call_params[0]
        loops = _link_loops(P, u)
        if not loops:
            raise AnalysisError('R-FILTER-AGREE: no link loop in %s' % qual)
        for lp in loops:
            rows = tables(ctx, u, stmts=lp.body, iters=1, keep=keep)
            inbound = _loop_direction(P, u, lp) == 'in'
            owe = _assigned_from(P, lp, ['windup_lru_for_webentity'], u)
            olru = _assigned_from(P, lp, ['windup_lru'], u)
            outer = _enclosing_for(P, u, lp)
            lt = names_in_target(lp.target)
            ot = names_in_target(outer.target) if outer is not None else []
            if len(owe) == 0 and len(olru) == 1:
                rr.ob(ctx.where(u, lp), '%s link filter resolves the webentity of the other end with the upward walk' % ('inbound' if inbound else 'outbound'), ok=False)
                rr.fail(ctx.finding('R-FILTER-AGREE', u, lp, '%s: the %s link filter no longer resolves the webentity of the other end of the link with '
                                    'windup_lru_for_webentity; nested webentities are then classified wrongly' % (qual, 'inbound' if inbound else 'outbound/internal')))
                continue
            if len(owe) != 1 or len(olru) != 1 or len(lt) != 2 or len(ot) < 2:
                raise AnalysisError('R-FILTER-AGREE: link loop of %s not recognised (other-end webentity %s, other-end lru %s)' % (qual, owe, olru))
            OWE, OLRU, WEIGHT, PAGE_LRU = owe[0], olru[0], lt[1], ot[1]
            shape = [OLRU, PAGE_LRU, WEIGHT] if inbound else [PAGE_LRU, OLRU, WEIGHT]
            bad = []
            for r in rows:
                apps = _triple_appends(r)
                same = _eq(r, OWE, WEID)
                ob = r.val.get('truthy:include_outbound')
                it = r.val.get('truthy:include_internal')
                if inbound:
                    if same is None:
                        bad.append((r, None, 'inbound link is kept or dropped without comparing the source webentity with the queried one'))
                        continue
                    want = not same
                else:
                    if same is None:
                        want = False
                        if apps:
                            bad.append((r, apps[0], 'link is kept without comparing the target webentity with the queried one'))
                            continue
                        if r.outcome in ('continue', 'fall', 'again'):
                            # something was requested, yet the link is dropped before its webentity was compared with the queried one
                            decided_by = [k for k in r.order if k.startswith(('isnone:', 'truthy:')) and OWE in (k + r.src.get(k, ''))]
                            if decided_by:
                                bad.append((r, None, 'a requested link is dropped because of `%s` before the target webentity is compared with the queried one (the paginated / '
                                               'unpaginated twin keeps it)' % decided_by[0]))
                                continue
                    else:
                        want = (bool(ob) and not same) or (bool(it) and same)
                if bool(apps) != bool(want):
                    bad.append((r, apps[0] if apps else None, 'link is %s although it should be %s (same webentity=%s, include_outbound=%s, include_internal=%s)' % (
                        'kept' if apps else 'dropped', 'kept' if want else 'dropped', same, ob, it)))
                for a in apps:
                    f = [x.split('#')[0] for x in split_tuple(a.args[0])]
                    f = [OLRU if 'windup_lru(' in x else x for x in f]
                    if f != shape:
                        bad.append((r, a, 'link is reported as %s instead of %s' % (f, shape)))
            rr.ob(ctx.where(u, lp), '%s filter of %s: keep iff %s (%d rows)' % ('inbound' if inbound else 'outbound/internal', qual,
                  'source webentity differs' if inbound else '(include_outbound and other webentity) or (include_internal and same webentity)', len(rows)), ok=not bad, rows=len(rows))
            for r, e, msg in bad:
                rr.fail(ctx.finding('R-FILTER-AGREE', u, e.node if e is not None else lp, '%s: %s' % (qual, msg), detail={'row': r.show()[:500]}))
    # ---- both directions are walked when both are requested (no elif between the outbound and the inbound block)
    for qual in ('Traph.get_webentity_pagelinks_iter', 'Traph.get_page_links'):
        u = P.unit(qual)
        lps = _link_loops(P, u)
        if len(lps) != 2:
            continue
        blocks = []
        for lp in lps:
            cur = lp
            while cur is not None and not isinstance(cur, ast.If):
                cur = P.parent.get(id(cur))
            blocks.append(cur)
        okb = blocks[0] is not None and blocks[1] is not None and blocks[0] is not blocks[1] and blocks[1] not in ast.walk(blocks[0]) and blocks[0] not in ast.walk(blocks[1])
        rr.ob(ctx.where(u, lps[1]), '%s: the outbound and the inbound link walks are independent blocks' % qual, ok=okb)
        if not okb:
            rr.fail(ctx.finding('R-FILTER-AGREE', u, lps[1], '%s: the inbound walk is an else/elif branch of the outbound one: a page that has outlinks never gets its inlinks '
                                'reported when both are requested' % qual))
    # ---- per page: a requested direction is walked for every page that has links in it, and only then
    def and3(*vs):
        return False if any(v is False for v in vs) else (None if any(v is None for v in vs) else True)

    def or3(*vs):
        return True if any(v is True for v in vs) else (None if any(v is None for v in vs) else False)
    for qual in ('Traph.get_webentity_pagelinks_iter', 'Traph.get_webentity_outlinks_iter', 'Traph.get_webentity_inlinks_iter', 'Traph.get_webentity_most_linked_pages_iter',
                 'Traph.get_page_links'):
        u = P.unit(qual)
        lps = [lp_ for lp_ in _link_loops(P, u) if _loop_direction(P, u, lp_) is not None]
        if not lps:
            continue
        outer = _enclosing_for(P, u, lps[0])
        if qual == 'Traph.get_page_links':
            # one page per request: the "page loop body" is the whole function
            if outer is not None or any(_enclosing_for(P, u, lp) is not None for lp in lps):
                raise AnalysisError('R-FILTER-AGREE: link loops of %s are nested in another loop' % qual)
            outer = u.node
        elif outer is None or any(_enclosing_for(P, u, lp) is not outer for lp in lps):
            raise AnalysisError('R-FILTER-AGREE: link loops of %s are not inside one page loop' % qual)
        dir_of = {id(lp.iter): _loop_direction(P, u, lp) for lp in lps}
        rows = tables(ctx, u, stmts=outer.body, iters=1, keep=lambda n, c: any(id(c) == k for k in dir_of), hoist=outer is not u.node)
        bad = []
        for r in rows:
            isp = atom_val(r, '.is_page()')
            if outer is u.node and (isp is None or any(k.startswith('truthy:') and v is False and k.split(':', 1)[1] not in u.params for k, v in r.val.items())):
                # the page was not found: nothing to walk
                if not {dir_of.get(id(e.node)) for e in r.events if e.kind == 'call' and id(e.node) in dir_of}:
                    continue
            ho, hi = atom_val(r, '.has_outlinks()'), atom_val(r, '.has_inlinks()')
            ob, it, ib = r.val.get('truthy:include_outbound'), r.val.get('truthy:include_internal'), r.val.get('truthy:include_inbound')
            walked = {dir_of.get(id(e.node)) for e in r.events if e.kind == 'call' and id(e.node) in dir_of}
            sw_out = or3(ob, it) if ('include_outbound' in u.params or 'include_internal' in u.params) else True
            sw_in = ib if 'include_inbound' in u.params else True
            for d, want in (('out', and3(isp, ho, sw_out)), ('in', and3(isp, hi, sw_in))):
                if d not in dir_of.values():
                    continue
                if want is False and d in walked:
                    bad.append((r, '%sbound links are walked although they were not requested or the node is not a page with such links' % d))
                if want is not False and d not in walked and r.outcome != 'again':
                    bad.append((r, 'the %sbound links of a page are not walked although nothing the request says excludes them (an extra condition drops them)' % d))
        rr.ob(ctx.where(u, outer), '%s: per page, outlinks are walked iff page and has_outlinks and (outbound or internal), inlinks iff page and has_inlinks and inbound (%d rows)'
              % (qual, len(rows)), ok=not bad)
        for r, msg in bad[:3]:
            rr.fail(ctx.finding('R-FILTER-AGREE', u, outer, '%s: %s' % (qual, msg), detail={'row': r.show()[:400]}, stmt='%s per-page walk table: %s' % (qual, msg[:40])))
    # ---- page level
    u = P.method('Traph', 'get_page_links')
    LRU = u.call_params[0]
    for lp in _link_loops(P, u):
        rows = tables(ctx, u, stmts=lp.body, iters=1, keep=keep)
        inbound = _loop_direction(P, u, lp) == 'in'
        olru = _assigned_from(P, lp, ['windup_lru'], u)
        if len(olru) != 1:
            raise AnalysisError('R-FILTER-AGREE: link loop of get_page_links not recognised')
        bad = []
        for r in rows:
            apps = _triple_appends(r)
            same = _eq(r, olru[0], LRU)
            if inbound:
                if same is None:
                    bad.append((r, None, 'inbound page link handled without comparing source and page'))
                    continue
                want = not same
            else:
                ob, it = r.val.get('truthy:include_outbound'), r.val.get('truthy:include_internal')
                want = False if same is None else ((bool(ob) and not same) or (bool(it) and same))
            if bool(apps) != bool(want):
                bad.append((r, apps[0] if apps else None, 'page link is %s (self link=%s)' % ('kept' if apps else 'dropped', same)))
        rr.ob(ctx.where(u, lp), 'get_page_links %s filter: a self-link is reported once, as internal (%d rows)' % ('inbound' if inbound else 'outbound', len(rows)), ok=not bad)
        for r, e, msg in bad:
            rr.fail(ctx.finding('R-FILTER-AGREE', u, e.node if e is not None else lp, 'get_page_links: ' + msg, detail={'row': r.show()[:500]}))
    offenders = set()
    # a link target may be unknown to the page map (no webentity, or indexed after the first pass): lookups must tolerate it
    for qual in ('Traph.get_webentities_links_iter', 'Traph.get_webentities_links_slow_iter'):
        u = P.unit(qual)
        maps = {a.targets[0].value.id for a in ast.walk(u.node) if isinstance(a, ast.Assign) and isinstance(a.targets[0], ast.Subscript)
                and isinstance(a.targets[0].value, ast.Name) and ast.unparse(a.targets[0].slice).endswith('.block')}
        for x in ast.walk(u.node):
            if isinstance(x, ast.Subscript) and isinstance(x.ctx, ast.Load) and isinstance(x.value, ast.Name) and x.value.id in maps:
                rr.ob(ctx.where(u, x), 'page map lookups tolerate unknown targets', ok=False)
                offenders.add(qual)
                rr.fail(ctx.finding('R-FILTER-AGREE', u, x, '%s looks a link target up with `%s`: a target without webentity (or indexed after the first pass of an '
                                    'interleaved query) raises KeyError instead of being skipped' % (qual, ast.unparse(x))))
    # ---- network: fast (pass 2) and slow variants
    for qual in ('Traph.get_webentities_links_iter', 'Traph.get_webentities_links_slow_iter'):
        if qual in offenders:
            continue
        u = P.unit(qual)
        loops = _link_loops(P, u)
        if len(loops) != 1:
            # the known wrong form: the link list folded into a dict keyed by something coarser than the link target (the target's
            # webentity): two links that share the key overwrite each other's weight instead of adding up
            dcs = [x for x in ast.walk(u.node) if isinstance(x, ast.DictComp) and any(isinstance(c, ast.Call) and any(t.cls == 'LinkStore' and t.is_gen for t in P.targets(c))
                                                                                     for g_ in x.generators for c in ast.walk(g_.iter))]
            coarse = [x for x in dcs if not (isinstance(x.key, ast.Name) and x.key.id in names_in_target(x.generators[0].target))]
            if coarse:
                rr.ob(ctx.where(u, coarse[0]), '%s adds the weight of every link' % qual, ok=False)
                rr.fail(ctx.finding('R-FILTER-AGREE', u, coarse[0], '%s folds the links of a page into a dict keyed by `%s`: links to different pages of one webentity overwrite each other, so '
                                    'the edge weight is the weight of the last link instead of the sum' % (qual, ast.unparse(coarse[0].key)[:40])))
                continue
            raise AnalysisError('R-FILTER-AGREE: expected one link loop in %s' % qual)
        lp = loops[0]
        outer = _enclosing_for(P, u, lp)
        if outer is None:
            raise AnalysisError('R-FILTER-AGREE: link loop of %s is not inside a page loop' % qual)
        ot = names_in_target(outer.target)
        it_call = outer.iter
        # the source webentity is what the page loop binds next to the node (dfs) or first in the saved pointers
        if isinstance(it_call, ast.Call) and any(t.name == 'dfs_with_webentity_iter' for t in P.targets(it_call)):
            SRC = ot[1]
        else:
            SRC = ot[0]
        lt = names_in_target(lp.target)
        tw = set(_assigned_from(P, lp, ['windup_lru_for_webentity', '.get'], u))
        if len(tw) != 1 or len(lt) != 2:
            raise AnalysisError('R-FILTER-AGREE: target webentity of %s not recognised (%s)' % (qual, tw))
        TGT, WEIGHT = list(tw)[0], lt[1]
        rows = tables(ctx, u, stmts=lp.body, iters=1, keep=keep)
        bad = []
        for r in rows:
            adds = [e for e in r.events if e.kind == 'store' and isinstance(e.node, ast.AugAssign)]
            auto = r.val.get('truthy:include_auto')
            same = _eq(r, SRC, TGT)
            no_target = any(v is False for k, v in r.by_src(TGT, kinds=('truthy:',))) or \
                any(v is True for k, v in r.by_src(TGT, kinds=('isnone:',)) if not any(v2 is True for k2, v2 in r.by_src(TGT, kinds=('truthy:',))))
            # slow variant: `is None` only triggers the windup; absence is the falsy result of the windup
            if any(v is True for k, v in r.by_src(TGT, kinds=('isnone:',))):
                no_target = any(v is False for k, v in r.by_src(TGT, kinds=('truthy:',)))
            if no_target:
                want = False
            elif same is None and auto is None:
                want = None
            else:
                want = not (not auto and same) if same is not None else bool(auto)
            if want is None:
                bad.append((r, adds[0] if adds else None, 'a link is %s without consulting include_auto / comparing the two webentities' % ('added' if adds else 'dropped')))
                continue
            if bool(adds) != bool(want):
                bad.append((r, adds[0] if adds else None, 'link is %s (target has webentity=%s, same webentity=%s, include_auto=%s)' % (
                    'added' if adds else 'dropped', not no_target, same, auto)))
            for a in adds:
                nd = a.node
                tgt = nd.target
                okk = isinstance(nd.op, ast.Add) and isinstance(tgt, ast.Subscript) and isinstance(tgt.value, ast.Subscript) \
                    and ast.unparse(tgt.value.slice) == SRC and ast.unparse(tgt.slice) == TGT and ast.unparse(nd.value) == WEIGHT
                if not okk:
                    bad.append((r, a, 'the weight is accumulated as `%s` instead of graph[source][target] += weight' % ast.unparse(nd)))
        rr.ob(ctx.where(u, lp), 'network filter of %s: drop links to pages without webentity, drop same-webentity links unless include_auto, else add the weight (%d rows)'
              % (qual, len(rows)), ok=not bad, rows=len(rows))
        for r, e, msg in bad:
            rr.fail(ctx.finding('R-FILTER-AGREE', u, e.node if e is not None else lp, '%s: %s' % (qual, msg), detail={'row': r.show()[:500]}))
    # pages are tallied and sources selected identically: is_page and a source webentity
    for qual in ('Traph.get_webentities_links_iter', 'Traph.get_webentities_links_slow_iter'):
        u = P.unit(qual)
        outer = [f for f in P.own(u, ast.For) if isinstance(f.iter, ast.Call) and any(t.name == 'dfs_with_webentity_iter' for t in P.targets(f.iter))]
        if len(outer) != 1:
            raise AnalysisError('R-FILTER-AGREE: page loop of %s not found' % qual)
        SRC = names_in_target(outer[0].target)[1]
        rows = tables(ctx, u, stmts=outer[0].body, iters=1, keep=lambda n, c: n in ('is_page', 'has_links', 'links', 'append', 'weighted_link_nodes_iter', 'is_crawled'))
        has_tally = any(e.kind == 'store' and 'pages_' in (e.name or '') for r_ in rows for e in r_.events)
        bad = []
        for r in rows:
            isp = atom_val(r, '.is_page()')
            sw = [v for k, v in r.by_src(SRC, kinds=('truthy:',)) if base(k) == 'truthy:' + SRC]
            sw = sw[-1] if sw else None
            used = [e for e in r.events if (e.kind == 'store' and isinstance(e.node, (ast.Assign, ast.AugAssign)) and '[' in (e.name or ''))
                    or (e.kind == 'call' and e.name in ('append', 'weighted_link_nodes_iter'))]
            if used and not (isp is True and sw is True):
                bad.append((r, used[0], 'a node is counted / its links are used although it is not a page with a source webentity (is_page=%s, source webentity=%s)' % (isp, sw)))
            # a page that resolves to a webentity and has links in the requested direction contributes them: its link head is used
            # (recorded for the second pass, or walked) whatever else is true of it
            hl = [v_ for k_, v_ in r.val.items() if '.has_links(' in base(k_)]
            hl = hl[-1] if hl else None
            uses_links = [e for e in r.events if e.kind == 'call' and e.name in ('append', 'weighted_link_nodes_iter')]
            if isp is True and sw is True and hl is True and not uses_links and r.outcome in ('continue', 'fall', 'again'):
                bad.append((r, None, 'a page that resolves to a webentity and has links is passed over (an extra condition drops its whole link list from the network)'))
            tallies = [e for e in r.events if e.kind == 'store' and 'pages_' in (e.name or '')]
            if isp is True and sw is True and not tallies and r.outcome in ('continue', 'fall', 'again') and has_tally:
                bad.append((r, None, 'a page that resolves to a webentity is not tallied (an extra condition skips it before the page counters)'))
            for tl in tallies:
                cr = atom_val(r, '.is_crawled()')
                if ("'uncrawled'" in tl.name or 'pages_uncrawled' in tl.name) == bool(cr) or cr is None:
                    bad.append((r, tl, 'page tallied as %s although is_crawled=%s' % (tl.name, cr)))
        rr.ob(ctx.where(u, outer[0]), '%s: only pages that resolve to a webentity are tallied and contribute links (%d rows)' % (qual, len(rows)), ok=not bad)
        for r, e, msg in bad:
            rr.fail(ctx.finding('R-FILTER-AGREE', u, e.node if e is not None else outer[0], '%s: %s' % (qual, msg), detail={'row': r.show()[:500]}))


# ------------------------------------------------------------------------------------------------ R-LADDER-AGREE
@rule('R-LADDER-AGREE')
def ladder_agree(ctx, rr):
    """__add_page and get_potential_prefix implement the same decision ladder over (E = existing webentity position,
    K = longest rule candidate, default rule)"""
    P = ctx.P
    ladders = {}
    for qual, role in (('Traph.__add_page', 'insert'), ('Traph.get_potential_prefix', 'query')):
        u = P.unit(qual)
        loops = [f for f in P.own(u, ast.For)]
        if not loops:
            # the other recognised form of "longest non-empty candidate, first one on ties":
            #   K = max(<non-empty results of the rule application over rules_to_apply()>, key=len, default=<falsy>)
            mx = [a for a in P.own(u, ast.Assign) if isinstance(a.value, ast.Call) and isinstance(a.value.func, ast.Name) and a.value.func.id == 'max'
                  and isinstance(a.targets[0], ast.Name)]
            okm = len(mx) == 1
            if okm:
                c = mx[0].value
                kw = {k.arg: k.value for k in c.keywords}
                okm = isinstance(kw.get('key'), ast.Name) and kw['key'].id == 'len' and isinstance(kw.get('default'), ast.Constant) and not kw['default'].value and len(c.args) == 1
                comps = [x for x in ast.walk(u.node) if isinstance(x, (ast.ListComp, ast.GeneratorExp))]
                applies = any(isinstance(x.elt, ast.Call) and any(t.name == '__apply_webentity_creation_rule' for t in P.targets(x.elt))
                              and isinstance(x.generators[0].iter, ast.Call) and any(t.name == 'rules_to_apply' for t in P.targets(x.generators[0].iter))
                              and not x.generators[0].ifs for x in comps)
                arg = c.args[0] if c.args else None
                filtered = any(len(x.generators) == 1 and len(x.generators[0].ifs) == 1 and isinstance(x.generators[0].ifs[0], ast.Name)
                               and isinstance(x.elt, ast.Name) and x.elt.id == x.generators[0].ifs[0].id for x in comps)
                okm = okm and applies and filtered and isinstance(arg, ast.Name)
            if not okm:
                raise AnalysisError('R-LADDER-AGREE: %s no longer has one loop over the rules to apply' % qual)
            rr.ob(ctx.where(u, mx[0]), '%s: K := longest non-empty candidate over history.rules_to_apply() (max by len, first on ties)' % qual, ok=True)
            K = mx[0].targets[0].id
            lp = mx[0]
        elif len(loops) != 1:
            raise AnalysisError('R-LADDER-AGREE: %s no longer has one loop over the rules to apply' % qual)
        else:
            lp = loops[0]
        # ---- the candidate loop: K is replaced only by a non-empty strictly longer candidate
        if isinstance(lp, ast.For):
            it_ok = isinstance(lp, ast.For) and isinstance(lp.iter, ast.Call) and any(t.name == 'rules_to_apply' for t in P.targets(lp.iter))
            rows = tables(ctx, u, stmts=lp.body, iters=1, keep=lambda n, c: n in ('__apply_webentity_creation_rule',))
            K = None
            bad = []
            cands = [a.targets[0].id for a in ast.walk(lp) if isinstance(a, ast.Assign) and isinstance(a.targets[0], ast.Name) and isinstance(a.value, ast.Call)
                     and any(t.name == '__apply_webentity_creation_rule' for t in P.targets(a.value))]
            for a in ast.walk(lp):
                if isinstance(a, ast.Assign) and isinstance(a.value, ast.Name) and a.value.id in cands and isinstance(a.targets[0], ast.Name):
                    K = a.targets[0].id
            for r in rows:
                sets = [e for e in r.events if e.kind == 'set' and e.name == K]
                tr = [v for k, v in r.val.items() if k.startswith('truthy:') and 'apply_webentity_creation_rule' in k]
                longer = None
                for k, v in r.val.items():
                    if k.startswith('ORD:') and 'len(' in k and K in k:
                        a, b = k[4:].split(' ? ')
                        cand, cur = (a, b) if 'apply_webentity_creation_rule' in a else (b, a)
                        longer = r.ord(cand, cur) == 'GT'
                if sets and not (tr and tr[-1] and longer):
                    bad.append((r, sets[0], 'the longest candidate is replaced by a candidate that is empty or not strictly longer'))
                if tr and tr[-1] and longer and not sets:
                    bad.append((r, None, 'a strictly longer candidate is not kept'))
            rr.ob(ctx.where(u, lp), '%s: K := candidate only if non-empty and strictly longer, over history.rules_to_apply() (%d rows)' % (qual, len(rows)), ok=not bad and it_ok and K is not None)
            if not it_ok:
                rr.fail(ctx.finding('R-LADDER-AGREE', u, lp, '%s does not iterate history.rules_to_apply()' % qual))
            for r, e, msg in bad:
                rr.fail(ctx.finding('R-LADDER-AGREE', u, e.node if e is not None else lp, '%s: %s' % (qual, msg), detail={'row': r.show()[:400]}))
            if K is None:
                raise AnalysisError('R-LADDER-AGREE: candidate variable of %s not found' % qual)
        # every request goes through the ladder: no way out of __add_page before the rules met on the walk were consulted
        if role == 'insert':
            from .generic_rules import must_pass
            okp = must_pass(ctx, u, lambda root: any(isinstance(c_, ast.Call) and any(t.name == 'rules_to_apply' for t in P.targets(c_)) for c_ in ast.walk(root)))
            rr.ob(ctx.where(u), '%s consults the rules met on the walk on every path' % qual, ok=okp)
            if not okp:
                rr.fail(ctx.finding('R-LADDER-AGREE', u, u.node, '%s can return before consulting the creation rules and the default rule: a known page without webentity (its '
                                    'webentity was deleted) never gets one, while get_potential_prefix still proposes it' % qual, stmt='%s: return before the ladder' % qual))
        # ---- the ladder after the loop
        body = u.node.body
        idx = body.index(lp)
        rows = tables(ctx, u, stmts=body[idx + 1:], iters=1, keep=lambda n, c: n in ('__create_webentity', '__apply_webentity_default_creation_rule', 'warn', 'refresh'))
        tab = {}
        for r in rows:
            # E >= K ?
            le = None
            for k, v in r.val.items():
                if (k.startswith('ORD:') or k.startswith('LIN:')) and 'webentity_position' in k and 'len(' in k:
                    if k.startswith('ORD:'):
                        a, b = k[4:].split(' ? ')
                        lk, ep = (a, b) if 'len(' in a else (b, a)
                        le = r.ord(lk, ep) in ('LT', 'EQ')
                    else:
                        le = None
            kt = r.val.get('truthy:' + K)
            dt = [v for k, v in r.val.items() if k.startswith('truthy:') and 'default_creation_rule' in k]
            dt = dt[-1] if dt else None
            if role == 'insert':
                cr = r.calls('__create_webentity')
                act = 'none'
                if cr:
                    a0 = base(cr[0].args[0])
                    exp = [a for a in cr[0].args[1:] if a.replace(' ', '') == 'expand=True']
                    act = ('K' if a0 == K else ('D' if 'default_creation_rule' in a0 else a0)) + ('+expand' if exp else '-noexpand')
                elif r.calls('warn'):
                    act = 'warn'
                # the node handed back is refreshed after any creation
                if cr:
                    i = first_idx(r, lambda e: e is cr[0])
                    if not any(e.kind == 'call' and e.name == 'refresh' for e in r.events[i:]):
                        rr.fail(ctx.finding('R-LADDER-AGREE', u, cr[0].node, '__add_page returns its node without refreshing it after creating a webentity'))
            else:
                ret = [e for e in r.events if e.kind == 'return']
                t = base(ret[0].text) if ret else '?'
                act = {K: 'K+expand', 'False': 'warn'}.get(t, 'none' if t.endswith('.webentity_prefix') else ('D+expand' if 'default_creation_rule' in t else t))
                if act == 'warn' and not r.calls('warn'):
                    act = 'silent-false'
            tab.setdefault((le, kt if le is False else None, dt if (le is False and kt is False) else None), set()).add(act)
        tab = {k: '|'.join(sorted(v)) for k, v in tab.items()}
        ladders[role] = tab
        want = {(True, None, None): 'none', (False, True, None): 'K+expand', (False, False, True): 'D+expand', (False, False, False): 'warn'}
        ok = tab == want
        rr.ob(ctx.where(u), '%s ladder: len(K) <= E -> existing; K -> use K; default matches -> use default; else warn  (got %s)' % (qual, {str(k): v for k, v in tab.items()}), ok=ok)
        if not ok:
            diff = {str(k): (tab.get(k), want.get(k)) for k in set(tab) | set(want) if tab.get(k) != want.get(k)}
            rr.fail(ctx.finding('R-LADDER-AGREE', u, body[idx + 1], '%s decides differently from the creation ladder (E = existing prefix length, K = longest rule candidate): '
                                '{(len(K)<=E, K non-empty, default matches): (got, expected)} = %s' % (qual, diff), stmt=qual + ' ladder'))
    ok = ladders.get('insert') == ladders.get('query')
    rr.ob('traph/traph.py Traph.get_potential_prefix', 'get_potential_prefix mirrors __add_page row by row', ok=ok)
    if not ok:
        u = P.unit('Traph.get_potential_prefix')
        rr.fail(ctx.finding('R-LADDER-AGREE', u, u.node, 'get_potential_prefix and __add_page disagree: %s vs %s' % (ladders.get('query'), ladders.get('insert')), stmt='ladders agree'))
    # __create_webentity(expand=True) expands through expand_prefix -> lru_variations and attaches all with one id
    cw = P.method('Traph', '__create_webentity')
    rows = tables(ctx, cw, iters=1, keep=lambda n, c: n in ('expand_prefix', '__add_prefixes'))
    bad = []
    for r in rows:
        ex = r.val.get('truthy:expand')
        if ex and not r.calls('expand_prefix'):
            bad.append(r)
        ap = r.calls('__add_prefixes')
        if len(ap) != 1:
            bad.append(r)
    rr.ob(ctx.where(cw), '__create_webentity(expand=True) attaches every variation through one __add_prefixes call', ok=not bad)
    for r in bad:
        rr.fail(ctx.finding('R-LADDER-AGREE', cw, cw.node, '__create_webentity no longer expands the prefix / attaches all variations in one request', stmt='create expand'))


# ------------------------------------------------------------------------------------------------ R-TOPK
@rule('R-TOPK')
def topk(ctx, rr):
    """most-linked pages: min-heap keyed by indegree first, trimmed only when it exceeds k, drained into descending order"""
    P = ctx.P
    u = P.method('Traph', 'get_webentity_most_linked_pages_iter')
    for c in P.own(u, ast.Call):
        if ast.unparse(c.func) == 'heapq.heapreplace':
            rr.ob(ctx.where(u, c), 'the bounded heap never evicts its minimum for a smaller newcomer', ok=False)
            rr.fail(ctx.finding('R-TOPK', u, c, 'heapq.heapreplace pops the current minimum unconditionally: a page with a lower indegree than everything kept evicts a better one '
                                '(heappushpop, or push then pop, keeps the top k)'))
            return
    # the list handed to the heapq functions is only ever changed through them while it is being filled: a plain append breaks the heap
    # invariant, so the next heappushpop compares with an arbitrary element instead of the minimum
    heaps = {ast.unparse(c.args[0]) for c in P.own(u, ast.Call) if ast.unparse(c.func).startswith('heapq.') and c.args}
    for c in P.own(u, ast.Call):
        if isinstance(c.func, ast.Attribute) and c.func.attr in ('append', 'insert', 'extend') and ast.unparse(c.func.value) in heaps:
            rr.ob(ctx.where(u, c), 'the bounded heap is only changed through heapq', ok=False)
            rr.fail(ctx.finding('R-TOPK', u, c, '`%s` puts an entry into the heap list without heapq: until it is heapified the first element is not the minimum, and the heappushpop that '
                                'follows evicts (or keeps out) the wrong page - the answer is not the top k' % ast.unparse(c)[:50]))
            return
    pushes_ = [c for c in P.own(u, ast.Call) if ast.unparse(c.func) == 'heapq.heappush']
    pops = [c for c in P.own(u, ast.Call) if ast.unparse(c.func) == 'heapq.heappop']
    if len(pushes_) != 1 or len(pops) not in (1, 2):
        raise AnalysisError('R-TOPK: heap usage of get_webentity_most_linked_pages_iter not recognised')
    push = pushes_[0]
    tup = push.args[1] if len(push.args) > 1 else None
    counted = set()
    for f in P.own(u, ast.For):
        if isinstance(f.iter, ast.Call) and any(t.cls == 'LinkStore' for t in P.targets(f.iter)):
            for s in f.body:
                if isinstance(s, ast.AugAssign) and isinstance(s.target, ast.Name):
                    counted.add(s.target.id)
    for a in P.own(u, ast.Assign):
        if isinstance(a.targets[0], ast.Name) and isinstance(a.value, ast.Call) and isinstance(a.value.func, ast.Name) and a.value.func.id in ('sum', 'len'):
            if any(isinstance(c, ast.Call) and any(t.cls == 'LinkStore' for t in P.targets(c)) for c in ast.walk(a.value)):
                counted.add(a.targets[0].id)
    ok = isinstance(tup, ast.Tuple) and len(tup.elts) == 3 and isinstance(tup.elts[0], ast.Name) and tup.elts[0].id in counted
    rr.ob(ctx.where(u, push), 'heap entries are ordered by the counted indegree first: %s' % (ast.unparse(tup) if tup else None), ok=ok)
    if not ok:
        rr.fail(ctx.finding('R-TOPK', u, push, 'heap entries are not keyed by the indegree counter first: the pages trimmed are not the least linked ones'))
    from ..guards import guard_facts
    gf = guard_facts(ctx, u)
    trim = [c for c in pops if P.stmt_of(c) is not None and isinstance(P.parent.get(id(P.stmt_of(c))), ast.If)]
    heap = ast.unparse(push.args[0]) if push.args else '?'
    ok = False
    if trim:
        facts = gf.facts_at(trim[0]) or set()
        from ..guards import holds_cmp
        ok = holds_cmp(facts, 'len(%s)' % heap, '>', 'pages_count') and ast.unparse(trim[0].args[0]) == heap
        st_push, st_trim = P.stmt_of(push), P.parent.get(id(P.stmt_of(trim[0])))
        body = getattr(P.parent.get(id(st_push)), 'body', [])
        ok = ok and st_push in body and st_trim in body and body.index(st_trim) == body.index(st_push) + 1
    rr.ob(ctx.where(u, trim[0] if trim else u.node), 'the heap is trimmed right after each push and only when it holds more than pages_count entries', ok=ok)
    if not ok:
        rr.fail(ctx.finding('R-TOPK', u, trim[0] if trim else u.node, 'the heap is not trimmed exactly when it exceeds pages_count: fewer than k pages or not the top ones are kept'))
    # depth limit is forwarded to the bounded walk; only pages are counted
    walk = [c for c in P.own(u, ast.Call) if any(t.name == 'webentity_dfs_iter' for t in P.targets(c))]
    ok = len(walk) == 1 and any(isinstance(a, ast.Name) and a.id == 'max_depth' for a in list(walk[0].args) + [k.value for k in walk[0].keywords])
    rr.ob(ctx.where(u, walk[0] if walk else u.node), 'the depth limit of the request is forwarded to the bounded walk', ok=ok)
    if not ok:
        rr.fail(ctx.finding('R-TOPK', u, walk[0] if walk else u.node, 'max_depth is not forwarded to webentity_dfs_iter'))
    facts = gf.facts_at(push) or set()
    ok = any(f[0] == 'T' and f[1].endswith('.is_page()') for f in facts)
    rr.ob(ctx.where(u, push), 'only pages enter the heap', ok=ok)
    if not ok:
        rr.fail(ctx.finding('R-TOPK', u, push, 'non-page nodes can enter the most-linked heap'))
    # drain: the heap is emptied minimum-first and the result filled from the back (or appended and reversed)
    loops = [w for w in P.own(u, (ast.While, ast.For)) if any(isinstance(c, ast.Call) and ast.unparse(c.func) == 'heapq.heappop' and not
                                                            (P.stmt_of(c) is not None and isinstance(P.parent.get(id(P.stmt_of(c))), ast.If)) for c in ast.walk(w))
             and not any(isinstance(c, ast.Call) and ast.unparse(c.func) == 'heapq.heappush' for c in ast.walk(w))]
    fin = [e for e in ast.walk(u.node) if isinstance(e, ast.Call) and isinstance(e.func, ast.Attribute) and e.func.attr == 'finalize']
    verdict = None
    if len(loops) == 1:
        lp = loops[0]
        pops = [a for a in lp.body if isinstance(a, ast.Assign) and isinstance(a.value, ast.Call) and ast.unparse(a.value.func) == 'heapq.heappop']
        fills = [a for a in lp.body if isinstance(a, ast.Assign) and isinstance(a.targets[0], ast.Subscript) and isinstance(a.value, ast.Dict)]
        apps = [c for c in ast.walk(lp) if isinstance(c, ast.Call) and isinstance(c.func, ast.Attribute) and c.func.attr in ('append', 'insert') and c.args and isinstance(c.args[-1], ast.Dict)]
        if len(pops) == 1 and (fills or apps):
            tgt = pops[0].targets[0]
            if isinstance(tgt, ast.Name):
                deg, lru_ = tgt.id + '[0]', tgt.id + '[2]'
            elif isinstance(tgt, ast.Tuple) and len(tgt.elts) == 3:
                deg, lru_ = ast.unparse(tgt.elts[0]), ast.unparse(tgt.elts[2])
            else:
                deg = lru_ = None
            d = (fills[0].value if fills else apps[0].args[-1])
            mp = {ast.unparse(k): ast.unparse(v) for k, v in zip(d.keys, d.values)}
            fields_ok = mp == {"'lru'": lru_, "'indegree'": deg}
            if fills:
                idx = ast.unparse(fills[0].targets[0].slice)
                if isinstance(lp, ast.While):
                    backwards = any(isinstance(s_, ast.AugAssign) and isinstance(s_.op, ast.Sub) and ast.unparse(s_.target) == idx for s_ in lp.body)
                else:
                    it = ast.unparse(lp.iter).replace(' ', '')
                    backwards = ast.unparse(lp.target) == idx and (it.startswith('reversed(range(') or it.endswith(',-1,-1)'))
            else:
                a0 = apps[0]
                backwards = (a0.func.attr == 'insert' and ast.unparse(a0.args[0]) == '0') or any(
                    isinstance(c, ast.Call) and isinstance(c.func, ast.Attribute) and c.func.attr == 'reverse' for c in ast.walk(u.node)) or \
                    any(isinstance(x, ast.Subscript) and ast.unparse(x.slice).replace(' ', '') == '::-1' for x in ast.walk(u.node))
            verdict = fields_ok and backwards
    elif not loops:
        # the result is built without emptying the heap in order: a heap's array is not sorted (unless it is sorted explicitly)
        resort = [c for c in P.own(u, ast.Call) if (isinstance(c.func, ast.Name) and c.func.id == 'sorted') or
                  (isinstance(c.func, ast.Attribute) and c.func.attr in ('sort', 'nlargest', 'nsmallest'))]
        verdict = None if resort else False
    if verdict is None:
        raise AnalysisError('R-TOPK: the construction of the sorted answer of get_webentity_most_linked_pages_iter is not recognised')
    rr.ob(ctx.where(u, loops[0] if loops else u.node), 'the heap is drained minimum-first into the result from the back (non-increasing indegree)', ok=verdict)
    if not verdict:
        rr.fail(ctx.finding('R-TOPK', u, loops[0] if loops else (fin[0] if fin else u.node), 'the answer is not built by popping the heap minimum-first and filling the result from the back: the '
                            'listed order is not non-increasing in indegree (or the reported fields are not the popped lru / indegree)'))


# ------------------------------------------------------------------------------------------------ R-RULE-INSTALL
@rule('R-RULE-INSTALL')
def rule_install(ctx, rr):
    """installing a rule on a populated index flags and writes the anchor, then re-inserts every page below it"""
    P = ctx.P
    u = P.method('Traph', 'add_webentity_creation_rule_iter')
    rows = tables(ctx, u, iters=1, keep=lambda n, c: n in ('add_lru', 'flag_as_webentity_creation_rule', 'write', 'dfs_iter', 'is_page', '__add_page', 'compile'))
    bad = []
    for r in rows:
        w = r.val.get('truthy:write_in_trie')
        st = [e for e in r.events if e.kind == 'store' and 'webentity_creation_rules[' in (e.name or '')]
        if not st:
            bad.append((r, None, 'the pattern is not registered in RAM'))
        fl = r.calls('flag_as_webentity_creation_rule')
        wr = r.calls('write')
        if w:
            missing = r.outcome == 'raise'
            if not missing:
                if not (fl and wr and first_idx(r, lambda e: e is fl[0]) < first_idx(r, lambda e: e is wr[0]) and r.calls('dfs_iter')):
                    bad.append((r, None, 'with write_in_trie the anchor is not flagged, written and its subtree walked'))
                isp = atom_val(r, '.is_page()')
                if isp is True and not r.calls('__add_page'):
                    bad.append((r, None, 'a page below the anchor is not re-inserted'))
                if isp is False and r.calls('__add_page'):
                    bad.append((r, None, 'a non-page node below the anchor is inserted as page'))
        elif w is False and (fl or wr or r.calls('__add_page')):
            bad.append((r, (fl + wr)[0] if (fl + wr) else None, 'write_in_trie=False touches the trie'))
    rr.ob(ctx.where(u), 'rule installation: register pattern; if write_in_trie: add_lru(anchor), flag, write, re-insert every page of dfs_iter(anchor) (%d rows)' % len(rows), ok=not bad)
    for r, e, msg in bad:
        rr.fail(ctx.finding('R-RULE-INSTALL', u, e.node if e is not None else u.node, 'add_webentity_creation_rule_iter: ' + msg, detail={'row': r.show()[:400]}))
    # dfs_iter is started at the anchor node with the anchor LRU
    d = [c for c in P.own(u, ast.Call) if any(t.name == 'dfs_iter' for t in P.targets(c))]
    ok = len(d) == 1 and len(d[0].args) >= 2 and isinstance(d[0].args[0], ast.Name) and isinstance(d[0].args[1], ast.Name) and d[0].args[1].id == 'rule_prefix'
    rr.ob(ctx.where(u, d[0] if d else u.node), 'the re-insertion walk covers the subtree of the anchor', ok=ok)
    if not ok:
        rr.fail(ctx.finding('R-RULE-INSTALL', u, d[0] if d else u.node, 'the re-insertion walk is not started at the anchor'))
