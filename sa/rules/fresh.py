"""R-FRESH: no write-back of a possibly stale cached trie node (typestate FRESH/STALE, may-analysis).

Sync events (variable becomes FRESH): assignment from a call that returns a fresh node, x.refresh(), x.read*(),
x.write().  Invalidation events (all node variables and node containers become STALE): a call of a function that
may write trie node blocks other than a node handed to it (`foreign`), and any `yield` (another cooperative request
may run there).  Containers take the join of what is stored in them; values read out inherit the container state.
"""
import ast

from ..core import rule
from ..effects import TRIE_NODE, RELOADS, recv_name
from ..dataflow import solve_and_report, node_root, calls_in_order, has_yield, names_in_target, bound_args

F, S = 'F', 'S'


class Fresh:
    def __init__(self, ctx):
        self.ctx = ctx
        self.P, self.E = ctx.P, ctx.E
        self.returns_fresh = {u: True for u in self.P.units}
        self.sites = []       # (unit, call, kind, ok)

    def is_node_var(self, u, name):
        return TRIE_NODE in self.P.var_classes(u, name)

    def is_node_container(self, u, name):
        t = self.P.lookup(u, name)
        return (not self.is_node_var(u, name)) and TRIE_NODE in self.P.inst_classes(t)

    def value_state(self, u, st, e):
        P = self.P
        if isinstance(e, ast.Name):
            return st.get(e.id, F)
        if isinstance(e, ast.Call):
            tg = P.targets(e)
            if tg:
                return F if all(self.returns_fresh[t] for t in tg) else S
            f = e.func
            if isinstance(f, ast.Attribute):
                return self.value_state(u, st, f.value)
            if e.args:   # list(x), reversed(x), ...
                return S if any(self.value_state(u, st, a) == S for a in e.args) else F
            return F
        if isinstance(e, ast.Subscript):
            return self.value_state(u, st, e.value)
        if isinstance(e, (ast.Tuple, ast.List, ast.Set)):
            return S if any(self.value_state(u, st, x) == S for x in e.elts) else F
        if isinstance(e, ast.Dict):
            return S if any(self.value_state(u, st, x) == S for x in e.values) else F
        if isinstance(e, ast.Attribute):
            return self.value_state(u, st, e.value)
        if isinstance(e, ast.IfExp):
            return S if S in (self.value_state(u, st, e.body), self.value_state(u, st, e.orelse)) else F
        if isinstance(e, ast.Starred):
            return self.value_state(u, st, e.value)
        return F

    def analyse(self, u, on_site=None):
        """returns True iff every node value returned / yielded by u is FRESH"""
        P, E = self.P, self.E
        g = self.ctx.cfg(u)
        ret_stale = []

        def join(a, b):
            out = dict(a)
            for k, v in b.items():
                out[k] = S if (out.get(k, F) == S or v == S) else F
            return out

        def transfer(n, st, report):
            st = dict(st)
            a = n.ast
            if n.kind == 'for_next':
                src = self.value_state(u, st, a.iter)
                for nm in names_in_target(a.target):
                    if self.is_node_var(u, nm) or self.is_node_container(u, nm):
                        st[nm] = src
                return st
            root = node_root(n)
            if root is None:
                return st
            for c in calls_in_order(P, u, root):
                f = c.func
                r = recv_name(c)
                tg = P.targets(c)
                if r is not None and self.is_node_var(u, r) and isinstance(f, ast.Attribute):
                    if f.attr in RELOADS and any(t.cls == TRIE_NODE for t in tg):
                        st[r] = F
                        continue
                    if f.attr == 'write' and any(t.cls == TRIE_NODE for t in tg):
                        if not (u.cls == TRIE_NODE and r == 'self'):
                            if report and on_site:
                                on_site(u, c, 'write-back', r, st.get(r, F) == F)
                        st[r] = F
                        continue
                for t in tg:
                    wp = E.writes_param.get(t)
                    if wp:
                        for pname, arg in bound_args(t, c):
                            if pname in wp:
                                vs = self.value_state(u, st, arg)
                                if report and on_site:
                                    on_site(u, c, 'hand-off to %s' % t.qual, ast.unparse(arg), vs == F)
                                if isinstance(arg, ast.Name):
                                    st[arg.id] = F
                if any(t in E.foreign for t in tg):
                    # a node handed to the foreign writer as its written parameter stays in sync
                    keep = set()
                    for t in tg:
                        for pname, arg in bound_args(t, c):
                            if pname in E.writes_param.get(t, ()) and isinstance(arg, ast.Name):
                                keep.add(arg.id)
                    st = {k: (v if k in keep else S) for k, v in st.items()}
                    for k in list(self._node_names(u)):
                        if k not in keep:
                            st[k] = S
            if has_yield(P, u, root):
                # value yielded is evaluated before control leaves
                for y in ast.walk(root):
                    if isinstance(y, ast.Yield) and y.value is not None and P.owner_of(u.node, y) is u.node:
                        if self.value_state(u, st, y.value) == S and TRIE_NODE in P.inst_classes(P.ev(u, y.value)):
                            ret_stale.append(y)
                for k in list(self._node_names(u)):
                    st[k] = S
            if isinstance(a, ast.Assign):
                vs = self.value_state(u, st, a.value)
                for tgt in a.targets:
                    if isinstance(tgt, ast.Subscript) and isinstance(tgt.value, ast.Name) \
                            and self.is_node_container(u, tgt.value.id):
                        nm = tgt.value.id
                        st[nm] = S if (st.get(nm, F) == S or vs == S) else F
                    for nm in names_in_target(tgt):
                        if self.is_node_var(u, nm) or self.is_node_container(u, nm):
                            st[nm] = vs
            elif isinstance(a, ast.Expr) and isinstance(a.value, ast.Call):
                c = a.value
                f = c.func
                if isinstance(f, ast.Attribute) and f.attr in ('update', 'append', 'add', 'extend', 'insert', 'setdefault') \
                        and isinstance(f.value, ast.Name) and self.is_node_container(u, f.value.id):
                    vs = S if any(self.value_state(u, st, x) == S for x in c.args) else F
                    nm = f.value.id
                    st[nm] = S if (st.get(nm, F) == S or vs == S) else F
            elif isinstance(a, ast.Return) and a.value is not None:
                if self.value_state(u, st, a.value) == S and TRIE_NODE in P.inst_classes(P.ev(u, a.value)):
                    ret_stale.append(a)
            return st

        solve_and_report(g, {}, transfer, lambda lab, st: st, join)
        return not ret_stale, ret_stale

    def _node_names(self, u):
        key = ('nn', u)
        c = self.ctx._cache
        if key not in c:
            names = set()
            for n in ast.walk(u.node):
                if isinstance(n, ast.Name) and self.P.owner_of(u.node, n) is u.node:
                    if self.is_node_var(u, n.id) or self.is_node_container(u, n.id):
                        names.add(n.id)
            for p in u.params:
                if self.is_node_var(u, p) or self.is_node_container(u, p):
                    names.add(p)
            c[key] = names
        return c[key]

    def run(self):
        P = self.P
        units = [u for u in P.units if u.cls != TRIE_NODE]
        rounds = 0
        while True:
            rounds += 1
            ch = False
            for u in units:
                ok, _ = self.analyse(u)
                if self.returns_fresh[u] and not ok:
                    self.returns_fresh[u] = False
                    ch = True
            if not ch or rounds > 20:
                break
        sites = {}

        def on_site(u, c, kind, what, ok):
            k = (u.qual, id(c), kind, what)
            sites[k] = (u, c, kind, what, ok and sites.get(k, (0, 0, 0, 0, True))[4])
        for u in units:
            self.analyse(u, on_site)
        return list(sites.values())


@rule('R-FRESH')
def r_fresh(ctx, rr):
    P = ctx.P
    fr = Fresh(ctx)
    sites = fr.run()
    nwb = sum(1 for s in sites if s[2] == 'write-back')
    nho = len(sites) - nwb
    rr.require(len(sites), 15, 'trie-node write-back / hand-off sites')
    for u, c, kind, what, ok in sorted(sites, key=lambda s: (P.path_of(s[0]), s[1].lineno)):
        rr.ob(ctx.where(u, c), '%s of node `%s` happens on a FRESH copy on every path' % (kind, what), ok=ok)
        if not ok:
            rr.fail(ctx.finding('R-FRESH', u, c, '%s of possibly stale node `%s`: a call that may rewrite trie blocks or a '
                                'yield lies between the last read/refresh of this copy and this write; the stale copy '
                                'would reset pointers written meanwhile' % (kind, what)))
    refresh_calls = 0
    for u in P.units:
        for c in P.own(u, ast.Call):
            if isinstance(c.func, ast.Attribute) and c.func.attr == 'refresh' and any(t.cls == TRIE_NODE for t in P.targets(c)):
                refresh_calls += 1
    rr.info.update({'write_backs': nwb, 'hand_offs': nho, 'refresh_calls': refresh_calls,
                    'foreign_writers': sorted(x.qual for x in ctx.E.foreign),
                    'param_writers': {x.qual: sorted(v) for x, v in ctx.E.writes_param.items() if v},
                    'returns_stale': sorted(x.qual for x, v in fr.returns_fresh.items() if not v)})
