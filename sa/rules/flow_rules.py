"""CFG dataflow rules: R-DIRTY-WRITTEN, R-NULL-HEAD, R-CRAWLED, R-NONE-CHECK, R-TOKEN-PAIR, R-CHUNK-LAST."""
import ast

from ..core import rule
from ..program import AnalysisError
from ..effects import STORAGES, NODEC, HDRC, TRIE_NODE, RELOADS, recv_name
from ..dataflow import (solve_and_report, node_root, calls_in_order, names_in_target, bound_args, kwarg)
from ..guards import guard_facts, head_fact


# ---------------------------------------------------------------------------------------------- R-DIRTY-WRITTEN
@rule('R-DIRTY-WRITTEN')
def dirty_written(ctx, rr):
    """a node/header on which a mutator was called (or constructed with stem=) reaches write() before the variable
    is rebound, re-read, or the function returns normally"""
    P, E = ctx.P, ctx.E
    stats = {'mutations': 0, 'pairs': 0}
    mut_sites = set()
    pair_sites = set()

    def typed(u, name, classes):
        return bool(P.var_classes(u, name) & set(classes))

    for u in P.units:
        if u.cls in NODEC + HDRC + STORAGES:
            continue
        if not any(isinstance(x, ast.Call) for x in ast.walk(u.node)):
            continue
        g = ctx.cfg(u)

        def transfer(n, st, report, u=u):
            st = dict(st)
            a = n.ast
            if n.kind == 'exit':
                if report:
                    for v, (c, what) in st.items():
                        rr.fail(ctx.finding('R-DIRTY-WRITTEN', u, c, 'node `%s` changed by %s is not written back before the '
                                            'function returns on some path: the update is lost' % (v, what)))
                return st
            if n.kind == 'for_next':
                for x in names_in_target(a.target):
                    if x in st:
                        if report:
                            rr.fail(ctx.finding('R-DIRTY-WRITTEN', u, st[x][0], 'node `%s` changed by %s is rebound by the '
                                                'loop target before being written' % (x, st[x][1])))
                        st.pop(x)
                return st
            root = node_root(n)
            if root is None:
                return st
            for c in calls_in_order(P, u, root):
                r = recv_name(c)
                tg = P.targets(c)
                if r and typed(u, r, NODEC + HDRC) and isinstance(c.func, ast.Attribute):
                    m = c.func.attr
                    if any((t.cls, t.name) in E.mutators for t in tg):
                        mut_sites.add(id(c))
                        st.setdefault(r, (c, '%s()' % m))
                    elif m == 'write' and any(t.cls in NODEC + HDRC for t in tg):
                        if r in st:
                            pair_sites.add((id(st[r][0]), id(c)))
                        st.pop(r, None)
                    elif m in RELOADS and any(t.cls in NODEC for t in tg):
                        if r in st:
                            if report:
                                rr.fail(ctx.finding('R-DIRTY-WRITTEN', u, st[r][0], 'node `%s` changed by %s is reloaded '
                                                    '(line %d) before being written: the update is lost' % (r, st[r][1], c.lineno)))
                            st.pop(r)
                # passing a dirty node to a callee that writes that parameter cleans it
                for t in tg:
                    wp = E.writes_param.get(t)
                    if wp:
                        for pname, arg in bound_args(t, c):
                            if pname in wp and isinstance(arg, ast.Name) and arg.id in st:
                                if E.must_write_param(ctx, t, pname):
                                    pair_sites.add((id(st[arg.id][0]), id(c)))
                                    st.pop(arg.id)
                                else:
                                    # the callee writes that node only on some paths: the change may never reach the store
                                    if report:
                                        rr.fail(ctx.finding('R-DIRTY-WRITTEN', u, st[arg.id][0], 'node `%s` changed by %s is handed to %s, which writes it back only on '
                                                            'some paths (line %d): the update can be lost' % (arg.id, st[arg.id][1], t.qual, c.lineno)))
                                    st.pop(arg.id)
            if isinstance(a, ast.Assign):
                for t in a.targets:
                    for x in names_in_target(t):
                        if x in st:
                            if report:
                                rr.fail(ctx.finding('R-DIRTY-WRITTEN', u, st[x][0], 'node `%s` changed by %s is rebound (line %d) '
                                                    'before being written: the update is lost' % (x, st[x][1], a.lineno)))
                            st.pop(x)
                v = a.value
                if isinstance(v, ast.Call) and any(k.arg == 'stem' for k in v.keywords) and len(a.targets) == 1 \
                        and isinstance(a.targets[0], ast.Name):
                    if P.expr_classes(u, v) & set(NODEC):
                        mut_sites.add(id(v))
                        st[a.targets[0].id] = (v, 'construction with stem=')
            return st

        def join(a, b):
            out = dict(a)
            for k, v in b.items():
                out.setdefault(k, v)
            return out
        solve_and_report(g, {}, transfer, lambda lab, st: st, join)
    rr.require(len(pair_sites), 15, 'mutate->write pairs')
    rr.ob('package', '%d mutation events on node/header objects outside their classes, %d mutate->write pairs; every '
          'mutation reaches write() before rebind/reload/normal exit' % (len(mut_sites), len(pair_sites)), ok=not rr.findings)
    rr.info.update({'mutators': sorted('%s.%s' % k for k in E.mutators), 'mutation_events': len(mut_sites),
                    'pairs': len(pair_sites)})


# ---------------------------------------------------------------------------------------------- R-NULL-HEAD
ACCESSORS = ('outlinks', 'inlinks', 'links')


def _head_consumer(P, u, expr):
    """is `expr` (a Name load or an accessor call) used as a list head: argument of a LinkStore call / node(block=...) /
    stored into a container or tuple?"""
    par = P.parent.get(id(expr))
    if isinstance(par, ast.Call) and (expr in par.args or any(k.value is expr for k in par.keywords)):
        if any(t.cls in ('LinkStore', 'LinkStoreNode') for t in P.targets(par)) or not P.targets(par):
            return True
        return True
    if isinstance(par, (ast.Tuple, ast.List, ast.Set, ast.Dict, ast.keyword, ast.Starred)):
        return True
    if isinstance(par, ast.Return) or isinstance(par, ast.Yield):
        return True
    return False


@rule('R-NULL-HEAD')
def null_head(ctx, rr):
    """a link-list head read off a trie node is *used* (walked, stored) only where it is known to be non-NULL: under the matching
    has-links fact at the read, or under a truthiness test of the local that holds it (0 is NULL and block 0 of the link store is
    its header, which parses as a stub)"""
    P = ctx.P
    n_sites = 0
    for u in P.units:
        if u.name == '__repr__':
            continue
        cands = [c for c in P.own(u, ast.Call) if isinstance(c.func, ast.Attribute) and c.func.attr in ACCESSORS]
        if not cands:
            continue
        gf = None
        for c in cands:
            tg = P.targets(c)
            if not any(t.cls == TRIE_NODE for t in tg):
                if not tg and not P.kinds(c):
                    raise AnalysisError('R-NULL-HEAD: cannot classify receiver of %s at %s' % (ast.unparse(c), ctx.where(u, c)))
                continue
            if u.cls == TRIE_NODE:
                continue
            if not isinstance(c.func.value, ast.Name):
                raise AnalysisError('R-NULL-HEAD: link-head accessor on a non-variable receiver at %s' % ctx.where(u, c))
            gf = gf or guard_facts(ctx, u)
            if gf.is_test_leaf(c):
                continue       # truthiness test of the head itself
            facts = gf.facts_at(c)
            if facts is None:
                continue       # unreachable code
            hf = head_fact(c)
            guarded_read = ('H',) + hf in facts
            par = P.parent.get(id(c))
            uses = []
            if isinstance(par, ast.Assign) and len(par.targets) == 1 and isinstance(par.targets[0], ast.Name) and par.value is c:
                var = par.targets[0].id
                reach = _reaching_uses(ctx, u, var, par)
                for x in P.own(u, ast.Name):
                    if x.id == var and isinstance(x.ctx, ast.Load) and id(x) in reach and _head_consumer(P, u, x):
                        uses.append((x, var))
                if not uses:
                    continue   # only tested / never used as a head
            else:
                uses.append((c, None))
            for x, var in uses:
                n_sites += 1
                ok = guarded_read
                if not ok and var is not None:
                    f2 = gf.facts_at(x) or set()
                    ok = ('NN', var) in f2 or any(f[0] == 'T' and f[1] == var for f in f2)
                rr.ob(ctx.where(u, x), 'link head `%s` is used only where it is known non-NULL' % ast.unparse(c), ok=ok)
                if not ok:
                    rr.fail(ctx.finding('R-NULL-HEAD', u, c, 'link head `%s` is read without a dominating has-links guard (%s): for a '
                                        'page without links the value is 0 and dereferencing block 0 parses the link-store header '
                                        'as a stub' % (ast.unparse(c), hf[1]),
                                        stmt='unguarded %s() link head used in %s' % (c.func.attr, u.qual)))
    rr.require(n_sites, 12, 'link-head uses')
    rr.info['head_reads'] = n_sites


# ---------------------------------------------------------------------------------------------- R-CRAWLED
# functions that may mark a page crawled without a `crawled` parameter of their own
CRAWLED_BY_DEFINITION = {
    'Traph.index_batch_crawl_iter': 'sources of a crawl batch are crawled by definition',
}


def _batch_key_names(P, u):
    """names bound to the *keys* of `<param>.items()` loops (and their re-encodings x = f(x))"""
    keys = set()
    for f in P.own(u, ast.For):
        it = f.iter
        if isinstance(it, ast.Call) and isinstance(it.func, ast.Attribute) and it.func.attr == 'items' \
                and isinstance(it.func.value, ast.Name) and it.func.value.id in u.params \
                and isinstance(f.target, ast.Tuple) and f.target.elts and isinstance(f.target.elts[0], ast.Name):
            keys.add(f.target.elts[0].id)
    return keys


@rule('R-CRAWLED')
def crawled(ctx, rr):
    P = ctx.P
    n = 0
    for u in P.units:
        if u.cls == TRIE_NODE:
            continue
        calls = [c for c in P.own(u, ast.Call)]
        flags = [c for c in calls if isinstance(c.func, ast.Attribute) and c.func.attr == 'flag_as_crawled']
        passes = []
        for c in calls:
            for t in P.targets(c):
                if 'crawled' in t.call_params and t.cls != TRIE_NODE:
                    passes.append((c, t))
        if not flags and not passes:
            continue
        gf = guard_facts(ctx, u)
        has_param = 'crawled' in u.params
        for c in flags:
            tg = P.targets(c)
            if not any(t.cls == TRIE_NODE for t in tg):
                raise AnalysisError('R-CRAWLED: cannot classify receiver of flag_as_crawled at %s' % ctx.where(u, c))
            n += 1
            facts = gf.facts_at(c)
            if facts is None:
                continue
            if has_param:
                ok = any(f[0] == 'T' and f[1] == 'crawled' for f in facts)
                rr.ob(ctx.where(u, c), '`%s` happens only where the request said crawled' % ast.unparse(c), ok=ok)
                if not ok:
                    rr.fail(ctx.finding('R-CRAWLED', u, c, 'page is marked crawled on a path where the `crawled` argument of the '
                                        'request is not known to be true'))
            elif u.qual in CRAWLED_BY_DEFINITION:
                # receiver must be the variable that also receives the crawled=True insertion of a batch *source*
                src_vars = set()
                for c2, t in passes:
                    v = kwarg(c2, 'crawled')
                    if isinstance(v, ast.Constant) and v.value is True:
                        st = P.stmt_of(c2)
                        if isinstance(st, ast.Assign):
                            for tgt in st.targets:
                                nm = names_in_target(tgt)
                                src_vars |= set(nm[:1])
                r = recv_name(c)
                ok = r in src_vars
                rr.ob(ctx.where(u, c), '`%s` (%s) targets the batch-source node variable %s' % (
                    ast.unparse(c), CRAWLED_BY_DEFINITION[u.qual], sorted(src_vars)), ok=ok)
                if not ok:
                    rr.fail(ctx.finding('R-CRAWLED', u, c, 'page marked crawled is not the crawl-batch source node'))
            else:
                rr.ob(ctx.where(u, c), 'flag_as_crawled in a function without `crawled` parameter', ok=False)
                rr.fail(ctx.finding('R-CRAWLED', u, c, 'page is marked crawled in a function that has no `crawled` request '
                                    'argument and is not a crawl-batch source'))
        for c, t in passes:
            n += 1
            val = dict(bound_args(t, c)).get('crawled')
            if has_param:
                ok = val is not None and isinstance(val, ast.Name) and val.id == 'crawled'
                rr.ob(ctx.where(u, c), 'call of %s forwards crawled=crawled' % t.qual, ok=ok)
                if not ok:
                    rr.fail(ctx.finding('R-CRAWLED', u, c, 'the `crawled` argument of the request is not forwarded unchanged to %s'
                                        % t.qual))
            else:
                if val is None or (isinstance(val, ast.Constant) and val.value is False):
                    rr.ob(ctx.where(u, c), 'call of %s leaves crawled at its default False' % t.qual, ok=True)
                    continue
                keys = _batch_key_names(P, u)
                first = c.args[0] if c.args else None
                ok = (u.qual in CRAWLED_BY_DEFINITION and isinstance(val, ast.Constant) and val.value is True
                      and isinstance(first, ast.Name) and first.id in keys)
                rr.ob(ctx.where(u, c), 'crawled=True insertion concerns a key (source) of the batch multimap', ok=ok)
                if not ok:
                    rr.fail(ctx.finding('R-CRAWLED', u, c, 'page inserted as crawled although the request did not say so (only the '
                                        'source keys of a crawl batch are crawled by definition)'))
    rr.require(n, 6, 'crawled-flag sites')
    rr.info['sites'] = n


# ---------------------------------------------------------------------------------------------- R-NONE-CHECK
@rule('R-NONE-CHECK')
def none_check(ctx, rr):
    """a block read from storage may be absent (end of store, torn write): the result is tested before it is
    unpacked, or the caller ensured the block first"""
    P = ctx.P
    n = 0
    for u in P.units:
        if u.cls in STORAGES:
            continue
        reads = [c for c in P.own(u, ast.Call) if any(t.cls in STORAGES and t.name == 'read' for t in P.targets(c))]
        # coverage closure: every syntactic `.read(` on a `storage` attribute is one of them
        for c in P.own(u, ast.Call):
            if isinstance(c.func, ast.Attribute) and c.func.attr == 'read' and 'storage' in ast.unparse(c.func.value) \
                    and c not in reads:
                raise AnalysisError('R-NONE-CHECK: storage.read call not resolved at %s' % ctx.where(u, c))
        if not reads:
            continue
        gf = guard_facts(ctx, u)
        for c in reads:
            n += 1
            par = P.parent.get(id(c))
            if isinstance(par, ast.Assign) and len(par.targets) == 1 and isinstance(par.targets[0], ast.Name):
                var = par.targets[0].id
                uses = []
                reach = _reaching_uses(ctx, u, var, par)
                for x in P.own(u, ast.Name):
                    if x.id == var and isinstance(x.ctx, ast.Load) and id(x) in reach:
                        p2 = P.parent.get(id(x))
                        # a use as argument of a call / subscript / attribute = consumption
                        if isinstance(p2, (ast.Call, ast.Subscript, ast.Attribute, ast.Starred)):
                            uses.append(x)
                bad = []
                for x in uses:
                    facts = gf.facts_at(x)
                    if facts is None:
                        continue
                    # the use must be reached from this read (same variable may be assigned elsewhere): accept NN fact
                    if ('NN', var) not in facts:
                        bad.append(x)
                if bad and u.cls in HDRC and u.name == 'read':
                    # the header block is read after the caller ensured it (checked, not assumed), as for the direct form
                    callers = [v for v in P.units if u in P.calls[v]]
                    if callers and all(_ensure_dominates(ctx, v, u) for v in callers):
                        bad = []
                ok = not bad
                rr.ob(ctx.where(u, c), 'result `%s` of storage.read is tested for None before each of its %d consuming uses'
                      % (var, len(uses)), ok=ok)
                for x in bad:
                    rr.fail(ctx.finding('R-NONE-CHECK', u, x, 'block read from storage into `%s` may be None (end of store / torn '
                                        'write) and is consumed unchecked' % var))
            elif isinstance(par, ast.Return) or (isinstance(par, ast.BoolOp) and isinstance(P.parent.get(id(par)), ast.Return)):
                rr.ob(ctx.where(u, c), 'storage.read result is returned to the caller unchanged', ok=True)
            elif _only_tested(P, c):
                rr.ob(ctx.where(u, c), 'storage.read result is only tested (block present or not), never unpacked', ok=True)
            else:
                # consumed directly: accepted only for header.read() when every caller ensured the header block first
                ok = False
                if u.cls in HDRC and u.name == 'read':
                    callers = [v for v in P.units if u in P.calls[v]]
                    ok = bool(callers)
                    for v in callers:
                        ok = ok and _ensure_dominates(ctx, v, u)
                rr.ob(ctx.where(u, c), 'storage.read result consumed directly; every caller runs the ensure-header step before',
                      ok=ok)
                if not ok:
                    rr.fail(ctx.finding('R-NONE-CHECK', u, c, 'block read from storage may be None (end of store / torn write) and is '
                                        'consumed unchecked: `%s`' % ast.unparse(par)[:80]))
    rr.require(n, 5, 'storage.read sites')
    rr.info['read_sites'] = n


def _only_tested(P, c):
    """the call's value is used as (part of) the test of an if / while / conditional expression / assert, through not / and / or /
    `is None` only: nothing is read out of the block"""
    cur, par = c, P.parent.get(id(c))
    while par is not None:
        if isinstance(par, (ast.If, ast.While, ast.IfExp, ast.Assert)):
            return par.test is cur
        if isinstance(par, ast.UnaryOp) and isinstance(par.op, ast.Not):
            cur, par = par, P.parent.get(id(par))
            continue
        if isinstance(par, ast.BoolOp):
            cur, par = par, P.parent.get(id(par))
            continue
        if isinstance(par, ast.Compare) and len(par.ops) == 1 and isinstance(par.ops[0], (ast.Is, ast.IsNot)) and isinstance(par.comparators[0], ast.Constant) \
                and par.comparators[0].value is None and par.left is cur:
            cur, par = par, P.parent.get(id(par))
            continue
        return False
    return False


def _reaching_uses(ctx, u, var, def_stmt):
    """ids of Name(var) loads that the definition `def_stmt` may reach (reaching definitions on the CFG)"""
    from ..cfg import solve_forward
    from ..dataflow import names_assigned
    P = ctx.P
    g = ctx.cfg(u)

    def transfer(n, st):
        if var in names_assigned(n):
            return frozenset([id(n.ast)]) if n.kind == 'stmt' else frozenset(['other'])
        return st
    IN = solve_forward(g, frozenset(), transfer, lambda lab, st: st, lambda a, b: a | b)
    out = set()
    for n in g.nodes:
        root = node_root(n)
        if root is None or n.id not in IN:
            continue
        if id(def_stmt) in IN[n.id]:
            for x in ast.walk(root):
                if isinstance(x, ast.Name) and x.id == var and isinstance(x.ctx, ast.Load):
                    out.add(id(x))
    return out


def _ensure_dominates(ctx, caller, read_unit):
    """in `caller`, every call of read_unit is dominated by a call of the class's __ensure, and __ensure writes the
    block when it is missing"""
    P = ctx.P
    cls = read_unit.cls
    ens = P.classes[cls].get('__ensure')
    if ens is None or caller.cls != cls:
        return False
    # __ensure: a storage write guarded by `not data` where data is the storage.read result
    writes = [c for c in P.own(ens, ast.Call) if any(t.cls in STORAGES and t.name == 'write' for t in P.targets(c))]
    if not writes:
        return False
    g = ctx.cfg(caller)
    from ..cfg import solve_forward

    def transfer(n, st):
        root = node_root(n)
        if root is None:
            return st
        for c in calls_in_order(P, caller, root):
            if ens in P.targets(c):
                st = True
        return st
    IN = solve_forward(g, False, transfer, lambda lab, st: st, lambda a, b: a and b)
    for n in g.nodes:
        root = node_root(n)
        if root is None or n.id not in IN:
            continue
        st = IN[n.id]
        for c in calls_in_order(P, caller, root):
            if ens in P.targets(c):
                st = True
            if read_unit in P.targets(c) and not st:
                return False
    return True


# ---------------------------------------------------------------------------------------------- R-TOKEN-PAIR
@rule('R-TOKEN-PAIR')
def token_pair(ctx, rr):
    """the two halves of a pagination token (prefix index, path) are always advanced together"""
    P = ctx.P
    builders = 0
    assigns = 0
    for u in P.units:
        for c in P.own(u, ast.Call):
            if not any(t.name == 'build_pagination_token' for t in P.targets(c)):
                continue
            if len(c.args) != 2 or not all(isinstance(a, ast.Name) for a in c.args):
                raise AnalysisError('R-TOKEN-PAIR: token built from non-variable arguments at %s' % ctx.where(u, c))
            A, B = c.args[0].id, c.args[1].id
            builders += 1

            def blocks(stmts, depth):
                yield stmts, depth
                for s in stmts:
                    for fld in ('body', 'orelse', 'finalbody'):
                        sub = getattr(s, fld, None)
                        if isinstance(sub, list) and sub and isinstance(sub[0], ast.stmt) and not isinstance(s, ast.FunctionDef):
                            yield from blocks(sub, depth + (1 if isinstance(s, (ast.For, ast.While)) else 0))
                    for h in getattr(s, 'handlers', []):
                        yield from blocks(h.body, depth)
            for stmts, depth in blocks(u.node.body, 0):
                if depth == 0:
                    continue

                def assigned(name):
                    return [s for s in stmts if isinstance(s, (ast.Assign, ast.AugAssign))
                            for t in (s.targets if isinstance(s, ast.Assign) else [s.target])
                            if name in names_in_target(t)]
                for a_name, b_name in ((A, B), (B, A)):
                    sb = assigned(b_name)
                    if sb:
                        assigns += 1
                        ok = bool(assigned(a_name))
                        rr.ob(ctx.where(u, sb[0]), 'token half `%s` is advanced together with `%s` in the same block' % (b_name, a_name), ok=ok)
                        if not ok:
                            rr.fail(ctx.finding('R-TOKEN-PAIR', u, sb[0], 'pagination token half `%s` is advanced without `%s`: the token '
                                                'built from them can describe a node of another prefix tree and cannot be resumed'
                                                % (b_name, a_name)))
    rr.require(builders, 2, 'pagination token builders')
    rr.require(assigns, 4, 'token-half assignments')
    rr.info.update({'builders': builders, 'assignments': assigns})


# ---------------------------------------------------------------------------------------------- R-CHUNK-LAST
@rule('R-CHUNK-LAST')
def chunk_last(ctx, rr):
    """after a chunk generator has yielded its terminal chunk (is_last=True constant) no further yield is reachable"""
    P = ctx.P
    n_term = 0
    for u in P.units:
        if not u.is_gen:
            continue
        g = ctx.cfg(u)
        for n in g.nodes:
            a = n.ast
            if n.kind == 'stmt' and isinstance(a, ast.Expr) and isinstance(a.value, ast.Yield) \
                    and isinstance(a.value.value, ast.Tuple) and a.value.value.elts:
                first = a.value.value.elts[0]
                if isinstance(first, ast.Constant) and first.value is True:
                    n_term += 1
                    seen = set()
                    work = [m for m, _ in n.succ]
                    bad = None
                    while work:
                        m = work.pop()
                        if m.id in seen:
                            continue
                        seen.add(m.id)
                        root = node_root(m)
                        if root is not None and any(isinstance(x, (ast.Yield, ast.YieldFrom)) for x in ast.walk(root)):
                            bad = m
                            break
                        work += [x for x, _ in m.succ]
                    rr.ob(ctx.where(u, a), 'no yield reachable after the terminal chunk `%s`' % ast.unparse(a), ok=bad is None)
                    if bad is not None:
                        rr.fail(ctx.finding('R-CHUNK-LAST', u, a, 'a further yield (line %d) is reachable after the terminal chunk was '
                                            'yielded: the last chunk is emitted twice and a surplus block is written' % bad.lineno))
    # the is-last flag of the generic loop: `index == count - 1` over range(count), or an end-of-string test that holds exactly
    # when the chunk reaches the end (start + size >= len)
    node_write_ = P.method(TRIE_NODE, 'write')
    chunk_gens = {t for c in P.own(node_write_, ast.Call) for t in P.targets(c) if t.is_gen}
    for u in P.units:
        if u not in chunk_gens:
            continue
        for f in P.own(u, ast.For):
            for y in ast.walk(f):
                if isinstance(y, ast.Yield) and isinstance(y.value, ast.Tuple) and len(y.value.elts) == 2 and not isinstance(y.value.elts[0], ast.Constant):
                    flag = y.value.elts[0]
                    ok = None
                    if isinstance(f.iter, ast.Call) and isinstance(f.iter.func, ast.Name) and f.iter.func.id == 'range' and len(f.iter.args) == 1 \
                            and isinstance(f.target, ast.Name):
                        I, Ncount = f.target.id, ast.unparse(f.iter.args[0])
                        from ..dataflow import rtext as _rtext
                        txt = _rtext(P, u, flag)
                        Ncount = _rtext(P, u, f.iter.args[0])
                        txt = txt.replace('(%s)' % Ncount, Ncount) if not Ncount.isidentifier() else txt
                        if txt in ('%s==%s-1' % (I, Ncount), '%s-1==%s' % (Ncount, I), '%s+1==%s' % (I, Ncount), '%s>=%s-1' % (I, Ncount)):
                            ok = True
                        elif isinstance(flag, ast.Compare):
                            ok = False
                    if ok is None and isinstance(f.iter, ast.Call) and isinstance(f.iter.func, ast.Name) and f.iter.func.id == 'enumerate' \
                            and isinstance(f.target, ast.Tuple) and f.target.elts and isinstance(f.target.elts[0], ast.Name) and isinstance(flag, ast.Compare):
                        # 0-based position from enumerate: last iff position == count - 1, where count is the chunk-count local
                        I = f.target.elts[0].id
                        from ..dataflow import rtext as _rtext3
                        txt = _rtext3(P, u, flag, keep=tuple(n_ for n_ in [x.id for x in ast.walk(flag) if isinstance(x, ast.Name)]))
                        others = [x.id for x in ast.walk(flag) if isinstance(x, ast.Name) and x.id != I]
                        if len(others) == 1:
                            N_ = others[0]
                            ok = txt in ('%s==%s-1' % (I, N_), '%s-1==%s' % (N_, I), '%s+1==%s' % (I, N_), '%s>=%s-1' % (I, N_))
                    if ok is None and isinstance(f.iter, ast.Call) and isinstance(f.iter.func, ast.Name) and f.iter.func.id == 'range' and 1 <= len(f.iter.args) <= 3 \
                            and isinstance(f.target, ast.Name) and isinstance(flag, ast.Compare) and len(flag.ops) == 1:
                        # general form, decided on polynomials over the loop variable and the opaque terms of the bounds:
                        # `for I in range(A, B, S)` (A, S default 0, 1): the round is the last one iff I + S >= B; an equality test
                        # `I + S == B` says the same only when B - A is a multiple of S by construction
                        from ..dataflow import resolve_locals as _rl
                        I = f.target.id

                        def poly(e):
                            if isinstance(e, ast.Constant) and isinstance(e.value, int) and not isinstance(e.value, bool):
                                return {(): e.value} if e.value else {}
                            if isinstance(e, ast.UnaryOp) and isinstance(e.op, ast.USub):
                                a_ = poly(e.operand)
                                return None if a_ is None else {k_: -v_ for k_, v_ in a_.items()}
                            if isinstance(e, ast.BinOp) and isinstance(e.op, (ast.Add, ast.Sub)):
                                a_, b_ = poly(e.left), poly(e.right)
                                if a_ is None or b_ is None:
                                    return None
                                sg = 1 if isinstance(e.op, ast.Add) else -1
                                o_ = dict(a_)
                                for k_, v_ in b_.items():
                                    o_[k_] = o_.get(k_, 0) + sg * v_
                                return {k_: v_ for k_, v_ in o_.items() if v_}
                            if isinstance(e, ast.BinOp) and isinstance(e.op, ast.Mult):
                                a_, b_ = poly(e.left), poly(e.right)
                                if a_ is None or b_ is None:
                                    return None
                                o_ = {}
                                for k1, v1 in a_.items():
                                    for k2, v2 in b_.items():
                                        k_ = tuple(sorted(k1 + k2))
                                        o_[k_] = o_.get(k_, 0) + v1 * v2
                                return {k_: v_ for k_, v_ in o_.items() if v_}
                            if isinstance(e, (ast.Name, ast.Call, ast.Attribute)):
                                return {(ast.unparse(e).replace(' ', ''),): 1}
                            return None

                        def psub(x_, y_, c_=0):
                            o_ = dict(x_)
                            for k_, v_ in y_.items():
                                o_[k_] = o_.get(k_, 0) - v_
                            o_[()] = o_.get((), 0) + c_
                            return {k_: v_ for k_, v_ in o_.items() if v_}
                        ra = [_rl(P, u, x, keep=(I,)) for x in f.iter.args]
                        pA = {} if len(ra) < 2 else poly(ra[0])
                        pB = poly(ra[0] if len(ra) == 1 else ra[1])
                        pS = {(): 1} if len(ra) < 3 else poly(ra[2])
                        fl = _rl(P, u, flag, keep=(I,))
                        L_, R_ = poly(fl.left), poly(fl.comparators[0])
                        if None not in (pA, pB, pS, L_, R_):
                            want = psub(psub({(I,): 1}, {k_: -v_ for k_, v_ in pS.items()}), pB)       # I + S - B  (>= 0 on the last round)
                            op = fl.ops[0]
                            D = None
                            if isinstance(op, ast.GtE):
                                D = psub(L_, R_)
                            elif isinstance(op, ast.Gt):
                                D = psub(L_, R_, -1)
                            elif isinstance(op, ast.LtE):
                                D = psub(R_, L_)
                            elif isinstance(op, ast.Lt):
                                D = psub(R_, L_, -1)
                            if D is not None and any(I in k_ for k_ in D):
                                ok = D == want
                            elif isinstance(op, ast.Eq):
                                E_ = psub(L_, R_)
                                neg = {k_: -v_ for k_, v_ in E_.items()}
                                if any(I in k_ for k_ in E_):
                                    # exact only when the range ends on a multiple of the step: B - A = (something) * S syntactically
                                    span = psub(pB, pA)
                                    if pS == {(): 1}:
                                        multiple = True
                                    elif len(pS) == 1 and list(pS.values()) == [1]:
                                        sm = list(pS)[0]
                                        multiple = bool(span) and all(all(k_.count(a_) >= sm.count(a_) for a_ in sm) for k_ in span)
                                    else:
                                        multiple = False
                                    ok = (E_ == want or neg == want) and multiple
                    if ok is None:
                        raise AnalysisError('R-CHUNK-LAST: is-last expression `%s` of %s not recognised' % (ast.unparse(flag), u.qual))
                    rr.ob(ctx.where(u, y), 'the is-last flag `%s` is true exactly on the last iteration of the chunk loop' % ast.unparse(flag), ok=ok)
                    if not ok:
                        rr.fail(ctx.finding('R-CHUNK-LAST', u, y, 'the is-last flag `%s` is not `index == count - 1`: for some lengths (exact multiples of the chunk size) the '
                                            'last chunk is not marked last, so the last tail block keeps HAS_TAIL and reads run into the next node' % ast.unparse(flag)))
    # the number of chunks is ceil(len / size): never a chunk beyond the end of the string
    for u in chunk_gens:
        for a in P.own(u, ast.Assign):
            if isinstance(a.targets[0], ast.Name) and (any(isinstance(f, ast.For) and isinstance(f.iter, ast.Call) and isinstance(f.iter.func, ast.Name) and f.iter.func.id == 'range'
                                                           and f.iter.args and ast.unparse(f.iter.args[0]) == a.targets[0].id for f in P.own(u, ast.For))
                                                       or any(isinstance(f_, ast.For) and isinstance(f_.iter, ast.Call) and isinstance(f_.iter.func, ast.Name) and f_.iter.func.id == 'enumerate'
                                                              for f_ in P.own(u, ast.For)) and
                                                       any(isinstance(y_, ast.Yield) and isinstance(y_.value, ast.Tuple) and y_.value.elts and isinstance(y_.value.elts[0], ast.Compare)
                                                              and any(isinstance(x_, ast.Name) and x_.id == a.targets[0].id for x_ in ast.walk(y_.value.elts[0])) for y_ in P.own(u, ast.Yield))):
                from ..dataflow import rtext as _rtext2
                txt = _rtext2(P, u, a.value)
                ps = u.params
                good = False
                if len(ps) >= 2:
                    size, st_ = ps[0], ps[1]
                    forms = ['int(math.ceil(len(%s)/float(%s)))' % (st_, size), 'math.ceil(len(%s)/%s)' % (st_, size), 'int(math.ceil(len(%s)/%s))' % (st_, size),
                             '(len(%s)+%s-1)//%s' % (st_, size, size), '-(-len(%s)//%s)' % (st_, size)]
                    wrong = ['len(%s)//%s+1' % (st_, size), 'len(%s)//%s' % (st_, size), '1+len(%s)//%s' % (st_, size), 'int(len(%s)/%s)+1' % (st_, size)]
                    if txt in forms:
                        good = True
                    elif txt in wrong:
                        good = False
                    else:
                        raise AnalysisError('R-CHUNK-LAST: chunk count expression `%s` of %s not recognised' % (ast.unparse(a.value), u.qual))
                rr.ob(ctx.where(u, a), 'chunk count `%s` is ceil(len/size)' % ast.unparse(a.value), ok=good)
                if not good:
                    rr.fail(ctx.finding('R-CHUNK-LAST', u, a, 'chunk count `%s` is not ceil(len/size): for a length that is an exact multiple of the chunk size a surplus '
                                        '(empty) chunk is produced and one block too many is written' % ast.unparse(a.value)))
    # the tail writer must consume such a generator
    node_write = P.method(TRIE_NODE, 'write')
    gens = [t for c in P.own(node_write, ast.Call) for t in P.targets(c) if t.is_gen]
    if not gens:
        raise AnalysisError('R-CHUNK-LAST: LRUTrieNode.write no longer iterates a chunk generator')
    rr.info['terminal_yields'] = n_term
    rr.info['chunk_generators'] = sorted(t.qual for t in gens)
