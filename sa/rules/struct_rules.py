"""Structural rules on the typed program: R-DIRECTION, R-DISTINCT-DEGREE, R-LINK-PAIR, R-HEAD-REPOINT, R-POINTEE-FIRST,
R-STACK-BLOCKS, R-WE-ATTACH, R-OWN-ERROR, R-ID."""
import ast

from ..core import rule
from ..program import AnalysisError
from ..cfg import solve_forward
from ..effects import STORAGES, NODEC, HDRC, TRIE_NODE, LINK_NODE, TRIE_HEADER, RELOADS, recv_name, self_attr
from ..dataflow import node_root, calls_in_order, names_in_target, bound_args, kwarg, solve_and_report
from ..guards import guard_facts


def in_loop(P, u, node):
    cur = P.parent.get(id(node))
    while cur is not None and cur is not u.node:
        if isinstance(cur, (ast.For, ast.While)):
            return cur
        cur = P.parent.get(id(cur))
    return None


# ------------------------------------------------------------------------------------------------ R-DIRECTION
@rule('R-DIRECTION')
def direction(ctx, rr):
    """the inbound/outbound switch is forwarded unchanged; directional wrappers pass the constant their name says"""
    P = ctx.P
    n_fwd = n_wrap = 0
    for u in P.units:
        has_out = 'out' in u.params
        nm = u.name
        wrapper = None
        if not has_out:
            if 'inlinks' in nm and 'outlinks' not in nm:
                wrapper = False
            elif 'outlinks' in nm and 'inlinks' not in nm:
                wrapper = True
        if not has_out and wrapper is None:
            continue
        for c in P.own(u, ast.Call):
            tg = [t for t in P.targets(c) if 'out' in t.call_params]
            if not tg:
                continue
            for t in tg:
                val = dict(bound_args(t, c)).get('out')
                if has_out:
                    n_fwd += 1
                    ok = isinstance(val, ast.Name) and val.id == 'out'
                    rr.ob(ctx.where(u, c), 'call `%s` forwards the direction switch out=out to %s' % (ast.unparse(c)[:60], t.qual), ok=ok)
                    if not ok:
                        rr.fail(ctx.finding('R-DIRECTION', u, c, 'direction switch `out` is not forwarded unchanged to %s (got %s): the inbound '
                                            'request would read or write the other direction' % (t.qual, ast.unparse(val) if val is not None else 'the default')))
                else:
                    n_wrap += 1
                    if val is None:
                        d = t.defaults().get('out')
                        v = d.value if isinstance(d, ast.Constant) else None
                    else:
                        v = val.value if isinstance(val, ast.Constant) else None
                    ok = v is wrapper
                    rr.ob(ctx.where(u, c), 'directional wrapper %s passes out=%s to %s' % (u.qual, wrapper, t.qual), ok=ok)
                    if not ok:
                        rr.fail(ctx.finding('R-DIRECTION', u, c, 'wrapper %s must pass out=%s to %s but passes %s' % (
                            u.qual, wrapper, t.qual, ast.unparse(val) if val is not None else 'the default')))
    rr.require(n_fwd, 6, 'forwarding sites of the direction switch')
    rr.require(n_wrap, 4, 'directional wrapper calls')
    rr.info.update({'forward_sites': n_fwd, 'wrapper_sites': n_wrap})


# ------------------------------------------------------------------------------------------------ R-DISTINCT-DEGREE
@rule('R-DISTINCT-DEGREE')
def distinct_degree(ctx, rr):
    """degrees count distinct pages: a counting construct iterates a de-duplicating link iterator, never the raw stub list"""
    P = ctx.P
    ls = P.require_class('LinkStore')
    dedup = {}
    for name, u in ls.items():
        if u.is_gen and name != 'nodes_iter':
            uses = any(isinstance(c.func, ast.Name) and c.func.id in ('set', 'Counter', 'dict', 'defaultdict') for c in P.own(u, ast.Call)) or \
                any(isinstance(x, (ast.Set, ast.SetComp, ast.Dict, ast.DictComp)) for x in ast.walk(u.node))
            dedup[name] = uses
    if not any(dedup.values()) or all(dedup.values()):
        raise AnalysisError('R-DISTINCT-DEGREE: cannot tell raw from de-duplicating link iterators any more: %s' % dedup)
    sites = []
    for u in P.units:
        if u.cls == 'LinkStore':
            continue
        for f in P.own(u, ast.For):
            if isinstance(f.iter, ast.Call) and [t for t in P.targets(f.iter) if t.cls == 'LinkStore' and t.name in dedup]:
                counting = all(isinstance(s_, ast.AugAssign) and isinstance(s_.op, ast.Add) and isinstance(s_.value, ast.Constant)
                               and s_.value.value == 1 for s_ in f.body)
                if counting:
                    sites.append((u, f, f.iter))
        # sum(1 for _ in it), len(list(it)), len(set(it))
        for c in P.own(u, ast.Call):
            if isinstance(c.func, ast.Name) and c.func.id == 'sum' and c.args and isinstance(c.args[0], ast.GeneratorExp) \
                    and isinstance(c.args[0].elt, ast.Constant) and c.args[0].elt.value == 1:
                it = c.args[0].generators[0].iter
                if isinstance(it, ast.Call) and [t for t in P.targets(it) if t.cls == 'LinkStore' and t.name in dedup]:
                    sites.append((u, c, it))
            if isinstance(c.func, ast.Name) and c.func.id == 'len' and c.args and isinstance(c.args[0], ast.Call) \
                    and isinstance(c.args[0].func, ast.Name) and c.args[0].func.id in ('list', 'tuple') and c.args[0].args:
                it = c.args[0].args[0]
                if isinstance(it, ast.Call) and [t for t in P.targets(it) if t.cls == 'LinkStore' and t.name in dedup]:
                    sites.append((u, c, it))
    for u, node, it in sites:
        tg = [t for t in P.targets(it) if t.cls == 'LinkStore' and t.name in dedup]
        ok = all(dedup[t.name] for t in tg)
        rr.ob(ctx.where(u, node), 'degree counter iterates the de-duplicating iterator %s' % sorted(t.qual for t in tg), ok=ok)
        if not ok:
            rr.fail(ctx.finding('R-DISTINCT-DEGREE', u, node, 'degree is counted over the raw link stubs (%s): repeated links are counted several times instead of once per distinct page'
                                % sorted(t.qual for t in tg)))
    rr.require(len(sites), 3, 'degree counting constructs')
    rr.info['iterators'] = dedup


# ------------------------------------------------------------------------------------------------ R-LINK-PAIR
def _collection_of(P, u, e):
    """name of the collection that feeds expression e (2nd argument of add_outlinks/add_inlinks)"""
    if isinstance(e, ast.Name):
        # a list appended to, or a generator expression / loop value from <coll>.items()
        for a in P.own(u, ast.Assign):
            if any(isinstance(t, ast.Name) and t.id == e.id for t in a.targets) and isinstance(a.value, (ast.GeneratorExp, ast.ListComp)):
                it = a.value.generators[0].iter
                if isinstance(it, ast.Name):
                    return _collection_of(P, u, it)
        for f in P.own(u, ast.For):
            it = f.iter
            if isinstance(it, ast.Call) and isinstance(it.func, ast.Attribute) and it.func.attr == 'items' \
                    and isinstance(it.func.value, ast.Name) and e.id in names_in_target(f.target)[1:]:
                return it.func.value.id
        return e.id
    if isinstance(e, (ast.GeneratorExp, ast.ListComp)):
        it = e.generators[0].iter
        return _collection_of(P, u, it)
    return None


def _appends_to(stmt, coll):
    """Call nodes inside stmt (not descending into nested statements' bodies) appending to collection coll"""
    out = []
    for c in ast.walk(stmt):
        if isinstance(c, ast.Call) and isinstance(c.func, ast.Attribute) and c.func.attr == 'append':
            v = c.func.value
            if isinstance(v, ast.Subscript):
                v = v.value
            if isinstance(v, ast.Name) and v.id == coll:
                out.append(c)
    return out


def _path_counts(stmts, colls):
    """set of (count per collection..., outcome) over all syntactic paths through stmts; counts capped at 2"""
    states = {tuple(0 for _ in colls)}
    done = set()
    for s in stmts:
        new = set()
        for st in states:
            if isinstance(s, ast.If):
                for br in (s.body, s.orelse):
                    for cnt, out in _path_counts(br, colls):
                        tot = tuple(min(a + b, 2) for a, b in zip(st, cnt))
                        if out == 'fall':
                            new.add(tot)
                        else:
                            done.add((tot, out))
            elif isinstance(s, (ast.Continue, ast.Break, ast.Return, ast.Raise)):
                done.add((st, type(s).__name__.lower()))
            elif isinstance(s, (ast.For, ast.While)):
                add = tuple(2 if _appends_to(s, c) else 0 for c in colls)   # appends inside an inner loop: unknown multiplicity
                new.add(tuple(min(a + b, 2) for a, b in zip(st, add)))
            else:
                add = tuple(len(_appends_to(s, c)) for c in colls)
                new.add(tuple(min(a + b, 2) for a, b in zip(st, add)))
        states = new
        if not states:
            break
    return {(st, 'fall') for st in states} | done


@rule('R-LINK-PAIR')
def link_pair(ctx, rr):
    """each submitted link is recorded exactly once outbound and once inbound on every path of the writers"""
    P = ctx.P
    n = 0
    for u in P.units:
        outs = [c for c in P.own(u, ast.Call) if any(t.cls == 'LinkStore' and t.name == 'add_outlinks' for t in P.targets(c))]
        ins = [c for c in P.own(u, ast.Call) if any(t.cls == 'LinkStore' and t.name == 'add_inlinks' for t in P.targets(c))]
        if u.cls == 'LinkStore' or not (outs or ins):
            continue
        ok = bool(outs) and bool(ins)
        rr.ob(ctx.where(u), '%s records both directions of its link batch (add_outlinks and add_inlinks)' % u.qual, ok=ok)
        if not ok:
            rr.fail(ctx.finding('R-LINK-PAIR', u, (outs or ins)[0], 'link batch is recorded in one direction only (%s without its counterpart): '
                                'inbound/outbound symmetry is lost' % ('add_outlinks' if outs else 'add_inlinks')))
            continue
        oc = {_collection_of(P, u, c.args[1]) for c in outs if len(c.args) > 1}
        ic = {_collection_of(P, u, c.args[1]) for c in ins if len(c.args) > 1}
        if len(oc) != 1 or len(ic) != 1 or None in oc or None in ic or oc == ic:
            raise AnalysisError('R-LINK-PAIR: cannot identify the out/in collections of %s (%s / %s)' % (u.qual, oc, ic))
        oc, ic = list(oc)[0], list(ic)[0]
        # the innermost loops containing appends to the out collection
        loops = []
        for f in P.own(u, (ast.For, ast.While)):
            direct = [c for c in _appends_to(f, oc) if in_loop(P, u, c) is f]
            if direct:
                loops.append(f)
        if not loops:
            # the known wrong form: the per-source list is stored under its key by plain assignment, so a second batch row with the same
            # (encoded) key replaces the first one instead of extending it - while the inbound side keeps both
            plain = [a for a in P.own(u, ast.Assign) if any(isinstance(t, ast.Subscript) and isinstance(t.value, ast.Name) and t.value.id == oc for t in a.targets)
                     and in_loop(P, u, a) is not None]
            if plain:
                rr.ob(ctx.where(u, plain[0]), '%s: rows of the same source extend its outbound list' % u.qual, ok=False)
                rr.fail(ctx.finding('R-LINK-PAIR', u, plain[0], '%s stores the outbound list of a source with `%s`: a later row of the batch with the same key (the same LRU given as text and '
                                    'as bytes, or repeated) replaces the earlier one, whose links are recorded inbound only' % (u.qual, ast.unparse(plain[0])[:50])))
                continue
            raise AnalysisError('R-LINK-PAIR: no loop fills the outbound collection `%s` in %s' % (oc, u.qual))
        for f in loops:
            n += 1
            res = _path_counts(f.body, (oc, ic))
            bad = sorted((cnt, out) for cnt, out in res if out in ('fall', 'continue') and cnt != (1, 1))
            rr.ob(ctx.where(u, f), 'every path through one iteration records the link once in `%s` and once in `%s` (%d path classes)'
                  % (oc, ic, len(res)), ok=not bad, paths=len(res))
            if bad:
                rr.fail(ctx.finding('R-LINK-PAIR', u, f, 'some path through the loop body records the link %s time(s) outbound and %s time(s) '
                                    'inbound (2 = more than once): the two directions no longer describe the same multigraph'
                                    % (bad[0][0][0], bad[0][0][1])))
            # stray appends to the in-collection outside this loop
        stray = [c for c in P.own(u, ast.Call) if c in _appends_to(c, ic) and in_loop(P, u, c) not in loops]
        if stray:
            rr.fail(ctx.finding('R-LINK-PAIR', u, stray[0], 'inbound collection `%s` is also filled outside the loop that fills `%s`' % (ic, oc)))
        # key/value swap when both are multimaps keyed by page
        for f in loops:
            oa = [c for c in _appends_to(f, oc) if isinstance(c.func.value, ast.Subscript)]
            ia = [c for c in _appends_to(f, ic) if isinstance(c.func.value, ast.Subscript)]
            for a in oa:
                for b in ia:
                    k1, v1 = ast.unparse(a.func.value.slice), ast.unparse(a.args[0])
                    k2, v2 = ast.unparse(b.func.value.slice), ast.unparse(b.args[0])
                    ok = k1 == v2 and v1 == k2
                    rr.ob(ctx.where(u, a), 'outbound multimap %s[%s]<-%s mirrors inbound %s[%s]<-%s' % (oc, k1, v1, ic, k2, v2), ok=ok)
                    if not ok:
                        rr.fail(ctx.finding('R-LINK-PAIR', u, b, 'inbound record %s[%s].append(%s) is not the mirror of outbound %s[%s].append(%s)'
                                            % (ic, k2, v2, oc, k1, v1)))
    rr.require(n, 2, 'link-recording loops')


# ------------------------------------------------------------------------------------------------ R-HEAD-REPOINT
@rule('R-HEAD-REPOINT')
def head_repoint(ctx, rr):
    """LinkStore.add_links prepends: every new stub points to the previous head, the page is repointed to the last stub
    after at least one stub was written, nothing happens for an empty batch"""
    P = ctx.P
    u = P.method('LinkStore', 'add_links')
    gf = guard_facts(ctx, u)
    calls = list(P.own(u, ast.Call))

    def by_attr(a):
        return [c for c in calls if isinstance(c.func, ast.Attribute) and c.func.attr == a]
    # the existing list is always looked at: whether the page already has links in this direction decides, alone, whether the new
    # stubs are chained to an old head (a caller's belief that the page is new is stale after a yield)
    from .table_rules import tables as _tables
    body_ = u.node.body
    fl_ = [k_ for k_, s_ in enumerate(body_) if isinstance(s_, ast.For)]
    if fl_:
        rows_ = _tables(ctx, u, stmts=body_[:fl_[0]], iters=1, keep=lambda n_, c_: n_ in ('has_links', 'links', 'node', 'has_outlinks', 'has_inlinks', 'outlinks', 'inlinks'))
        badh = []
        for r_ in rows_:
            hl = [v for k, v in r_.val.items() if '.has_links(' in k or '.has_outlinks(' in k or '.has_inlinks(' in k]
            loaded = [e for e in r_.calls('node') if any(a.replace(' ', '').startswith('block=') for a in e.args)]
            if not hl:
                badh.append((r_, 'the batch is recorded without looking whether the page already has links in this direction'))
            elif hl[-1] and not loaded:
                badh.append((r_, 'the page has links in this direction but the old head is not loaded: the new stubs start a fresh list and the old one is orphaned'))
            elif not hl[-1] and loaded:
                badh.append((r_, 'an old head is loaded although the page has no links in this direction (block 0 is the header)'))
        rr.ob(ctx.where(u), 'add_links chains to the old head iff the page has links in this direction (%d rows)' % len(rows_), ok=not badh)
        for r_, msg in badh[:2]:
            rr.fail(ctx.finding('R-HEAD-REPOINT', u, u.node, 'LinkStore.add_links: ' + msg, detail={'row': r_.show()[:300]}, stmt='add_links old head'))
    loops = list(P.own(u, ast.For))
    if len(loops) != 1 or u.call_params[:2] != ['source_node', 'target_blocks'] and len(u.call_params) < 2:
        raise AnalysisError('R-HEAD-REPOINT: LinkStore.add_links no longer has one loop over the batch')
    loop = loops[0]
    page = u.call_params[0]

    def fail(node, msg):
        rr.fail(ctx.finding('R-HEAD-REPOINT', u, node, msg))
    # 1. prior head loaded iff the page has links in this direction
    st = by_attr('set_target')
    sp = by_attr('set_previous')
    sl = [c for c in by_attr('set_links') if recv_name(c) == page]
    ok = len(st) == 1 and len(sp) == 1 and len(sl) == 1
    rr.ob(ctx.where(u), 'one set_target, one set_previous and one set_links site', ok=ok)
    if not ok:
        fail(u.node, 'add_links lost one of its pointer updates (set_target=%d set_previous=%d set_links=%d)' % (len(st), len(sp), len(sl)))
        return
    st, sp, sl = st[0], sp[0], sl[0]
    stub = recv_name(st)
    # stub is a fresh node per element, target is the loop element
    elem = names_in_target(loop.target)
    ok = in_loop(P, u, st) is loop and ast.unparse(st.args[0]) in elem and recv_name(sp) == stub
    rr.ob(ctx.where(u, st), 'each element of the batch becomes the target of one new stub', ok=ok)
    if not ok:
        fail(st, 'the stub target is not the current element of the batch')
    # set_previous(prior.block) under prior is not None, prior = previous stub or the old head
    from ..dataflow import resolve_locals as _rlh
    sp_arg = _rlh(P, u, sp.args[0]) if sp.args else None          # `b = prior.block; stub.set_previous(b)` is the same pointer
    prior = sp_arg.value.id if isinstance(sp_arg, ast.Attribute) and isinstance(sp_arg.value, ast.Name) and sp_arg.attr == 'block' else None
    facts = gf.facts_at(sp) or set()
    ok = prior is not None and (('T', '%s is not None' % prior) in {(f[0], f[1]) for f in facts})
    # the prior variable is set to the stub at the end of each iteration and initialised from the page's head under has_links
    chain = [a for a in P.own(u, ast.Assign) if any(isinstance(t, ast.Name) and t.id == prior for t in a.targets)]
    kinds = set()
    for a in chain:
        if isinstance(a.value, ast.Constant) and a.value.value is None:
            kinds.add('none')
        elif isinstance(a.value, ast.Name) and a.value.id == stub and in_loop(P, u, a) is loop:
            kinds.add('stub')
        elif isinstance(a.value, ast.Call) and kwarg(a.value, 'block') is not None:
            b = kwarg(a.value, 'block')
            f2 = gf.facts_at(a.value) or set()
            from ..guards import head_fact
            hf = head_fact(b)
            if hf and ('H',) + hf in f2 and hf[0] == page and hf[1] == 'dir:out':
                kinds.add('head')
            else:
                kinds.add('bad-head')
        else:
            kinds.add('other')
    ok = ok and kinds == {'none', 'stub', 'head'}
    rr.ob(ctx.where(u, sp), 'a new stub points to the previous one (old head first, loaded under has_links(out=out)) whenever one exists', ok=ok)
    if not ok:
        fail(sp, 'the chain of stubs no longer links each new stub to the previous head (%s): the older part of the list is lost' % sorted(kinds))
    # stub written in the loop after its pointers
    w = [c for c in by_attr('write') if recv_name(c) == stub and in_loop(P, u, c) is loop]
    ok = len(w) == 1 and w[0].lineno > max(st.lineno, sp.lineno)
    rr.ob(ctx.where(u, st), 'the stub is written once per element, after target and previous are set', ok=ok)
    if not ok:
        fail(st, 'the stub is not written exactly once per element after its pointers were set')
    # page repointed to the last stub only when the batch was not empty, in the same direction, then written
    facts = gf.facts_at(sl) or set()
    dirv = dict(bound_args(P.method(TRIE_NODE, 'set_links'), sl)).get('out')
    nonempty = [f for f in facts if f[0] == 'F' and f[2] and not in_loop(P, u, sl)]
    flagvars = set()
    for a in ast.walk(loop):
        if isinstance(a, ast.Assign) and isinstance(a.value, ast.Constant) and a.value.value is False:
            flagvars |= set(names_in_target(a.targets[0]))
    # ... or the truthiness / length of the batch itself, once it was materialised into a list (a generator is always truthy)
    itn = loop.iter.id if isinstance(loop.iter, ast.Name) else None
    solid = itn is not None and any(isinstance(a, ast.Assign) and any(isinstance(t, ast.Name) and t.id == itn for t in a.targets) and isinstance(a.value, ast.Call)
                                    and isinstance(a.value.func, ast.Name) and a.value.func.id in ('list', 'tuple') and a.lineno < loop.lineno for a in P.own(u, ast.Assign))
    by_batch = solid and any(f[0] == 'T' and f[1].replace(' ', '') in (itn, 'len(%s)' % itn, 'len(%s)>0' % itn) for f in facts)
    sl_arg = _rlh(P, u, sl.args[0]) if sl.args else None
    ok = (isinstance(sl_arg, ast.Attribute) and ast.unparse(sl_arg) == '%s.block' % prior and not in_loop(P, u, sl)
          and isinstance(dirv, ast.Name) and dirv.id == 'out'
          and (any(f[0] == 'F' and f[1] in flagvars for f in facts) or by_batch))
    rr.ob(ctx.where(u, sl), 'the page head is moved to the last stub written, same direction, only for a non-empty batch', ok=ok)
    if not ok:
        fail(sl, 'the page is not repointed to the last stub of a non-empty batch in the requested direction')
    pw = [c for c in by_attr('write') if recv_name(c) == page]
    ok = len(pw) == 1 and pw[0].lineno > sl.lineno and not in_loop(P, u, pw[0])
    rr.ob(ctx.where(u, sl), 'the page block is written after its head was moved', ok=ok)
    if not ok:
        fail(sl, 'the page block is not written after its head pointer was moved')


# ------------------------------------------------------------------------------------------------ R-POINTEE-FIRST
POINTER_SETTERS = {'set_left', 'set_right', 'set_child', 'set_parent', 'set_links', 'set_outlinks', 'set_inlinks', 'set_previous'}


@rule('R-POINTEE-FIRST')
def pointee_first(ctx, rr):
    """a pointer is stored only to a block that is already on disk (crash between the two writes leaves no dangling pointer)"""
    P = ctx.P
    n = [0]
    for u in P.units:
        if u.cls in NODEC + HDRC + STORAGES:
            continue
        sites = [c for c in P.own(u, ast.Call) if isinstance(c.func, ast.Attribute) and c.func.attr in POINTER_SETTERS
                 and any(t.cls in NODEC for t in P.targets(c))]
        if not sites:
            continue
        g = ctx.cfg(u)
        NEW, DISK = 'new', 'disk'

        def transfer(nd, st, report, u=u):
            st = dict(st)
            a = nd.ast
            if nd.kind == 'for_next':
                for x in names_in_target(a.target):
                    st[x] = DISK
                return st
            root = node_root(nd)
            if root is None:
                return st
            for c in calls_in_order(P, u, root):
                r = recv_name(c)
                if isinstance(c.func, ast.Attribute) and r is not None:
                    if c.func.attr in POINTER_SETTERS and any(t.cls in NODEC for t in P.targets(c)) and c.args:
                        arg = c.args[0]
                        if isinstance(arg, ast.Attribute) and arg.attr == 'block' and isinstance(arg.value, ast.Name) \
                                and P.var_classes(u, arg.value.id) & set(NODEC):
                            if report:
                                n[0] += 1
                                ok = st.get(arg.value.id, DISK) == DISK
                                rr.ob(ctx.where(u, c), 'pointer `%s` is stored after the pointee `%s` was written' % (ast.unparse(c)[:50], arg.value.id), ok=ok)
                                if not ok:
                                    rr.fail(ctx.finding('R-POINTEE-FIRST', u, c, 'pointer to `%s` is stored before that block has been written: a crash '
                                                        'between the two writes leaves a pointer to a block that is not in the file' % arg.value.id))
                        else:
                            # a pointer whose value is predicted from the size of the store instead of being read off a written node
                            from ..dataflow import rtext as _rt4
                            txt_ = _rt4(P, u, arg)
                            if report and ('len(self.storage' in txt_ or 'count_blocks' in txt_ or '__len__' in txt_ or 'block_size*' in txt_ or '*self.storage.block_size' in txt_):
                                n[0] += 1
                                rr.ob(ctx.where(u, c), 'pointer `%s` is taken from a written node' % ast.unparse(c)[:50], ok=False)
                                rr.fail(ctx.finding('R-POINTEE-FIRST', u, c, 'pointer `%s` is predicted from the size of the store (`%s`) and stored before the pointee exists: a crash '
                                                    'between the two writes leaves a pointer to a block that is not in the file (or into the middle of a multi-block stem)'
                                                    % (ast.unparse(c)[:50], txt_[:50])))
                    if c.func.attr == 'write' and any(t.cls in NODEC for t in P.targets(c)):
                        st[r] = DISK
                    elif c.func.attr in RELOADS and any(t.cls in NODEC for t in P.targets(c)):
                        st[r] = DISK
            if isinstance(a, ast.Assign):
                v = a.value
                state = None
                if isinstance(v, ast.Call) and P.expr_classes(u, v) & set(NODEC):
                    ctor_like = any(t.name in ('__init__', 'node') for t in P.targets(v))
                    if ctor_like and kwarg(v, 'block') is None and not (v.args[1:] and any(t.name == '__init__' for t in P.targets(v))):
                        state = NEW
                    else:
                        state = DISK
                elif isinstance(v, ast.Name) and v.id in st:
                    state = st[v.id]
                for t in a.targets:
                    for x in names_in_target(t):
                        if state is not None:
                            st[x] = state
                        else:
                            st.pop(x, None)
            return st

        def join(a, b):
            out = dict(a)
            for k, v in b.items():
                out[k] = NEW if (v == NEW or out.get(k, v) == NEW) else DISK
            return out
        solve_and_report(g, {}, transfer, lambda lab, st: st, join)
    rr.require(n[0], 5, 'pointer stores')
    rr.info['pointer_stores'] = n[0]


# ------------------------------------------------------------------------------------------------ R-STACK-BLOCKS
@rule('R-STACK-BLOCKS')
def stack_blocks(ctx, rr):
    """traversal generators keep block numbers (not node copies) on their stacks, re-read a block when it is popped, and never write"""
    P, E = ctx.P, ctx.E
    trie = P.require_class('LRUTrie')
    gens = [u for u in P.units if u.cls == 'LRUTrie' and u.is_gen]
    rr.require(len(gens), 8, 'LRUTrie generator functions')
    nst = 0
    for u in gens:
        w = E.writes[u]
        rr.ob(ctx.where(u), 'generator %s never writes to a store' % u.qual, ok=not w)
        if w:
            p = E.explain(u)
            rr.fail(ctx.finding('R-STACK-BLOCKS', u, p[0][1] if p else u.node, 'traversal generator %s can write to the store (%s) while other '
                                'requests are suspended in it' % (u.qual, sorted(w)), stmt='%s writes' % u.qual))
        pops = [a for a in P.own(u, ast.Assign) if isinstance(a.value, ast.Call) and isinstance(a.value.func, ast.Attribute)
                and a.value.func.attr == 'pop' and isinstance(a.value.func.value, ast.Name)]
        for a in pops:
            stack = a.value.func.value.id
            nst += 1
            # element types pushed
            pushed = []
            for c in P.own(u, ast.Call):
                if isinstance(c.func, ast.Attribute) and c.func.attr in ('append', 'extend', 'insert') and isinstance(c.func.value, ast.Name) \
                        and c.func.value.id == stack:
                    pushed += c.args
            for ini in P.own(u, ast.Assign):
                if any(isinstance(t, ast.Name) and t.id == stack for t in ini.targets) and isinstance(ini.value, (ast.List, ast.Tuple)):
                    pushed += ini.value.elts
            bad = [e for e in pushed if P.inst_classes(P.ev(u, e)) & set(NODEC)]
            rr.ob(ctx.where(u, a), 'stack `%s` holds block numbers and scalars only (%d push sites)' % (stack, len(pushed)), ok=not bad)
            for e in bad:
                rr.fail(ctx.finding('R-STACK-BLOCKS', u, e, 'a node object is pushed on traversal stack `%s`: the copy goes stale when another request '
                                    'writes between two steps' % stack))
            # the popped block is re-read before anything else
            body = P.parent.get(id(a))
            seq = getattr(body, 'body', [])
            names = names_in_target(a.targets[0])
            idx = seq.index(a) if a in seq else -1
            nxt = seq[idx + 1] if 0 <= idx < len(seq) - 1 else None
            ok = (isinstance(nxt, ast.Expr) and isinstance(nxt.value, ast.Call) and isinstance(nxt.value.func, ast.Attribute)
                  and nxt.value.func.attr == 'read' and len(nxt.value.args) == 1 and isinstance(nxt.value.args[0], ast.Name)
                  and nxt.value.args[0].id == (names[0] if names else None)
                  and any(t.cls in NODEC for t in P.targets(nxt.value)))
            rr.ob(ctx.where(u, a), 'the popped block `%s` is re-read from storage before use' % (names[0] if names else '?'), ok=ok)
            if not ok:
                rr.fail(ctx.finding('R-STACK-BLOCKS', u, a, 'the block popped from `%s` is not re-read from storage right away: the traversal would '
                                    'work on data cached before the yield' % stack))
    # the node object a traversal reads blocks into belongs to that traversal alone
    for u in gens:
        recvs = set()
        for c in P.own(u, ast.Call):
            if isinstance(c.func, ast.Attribute) and c.func.attr in RELOADS and any(t.cls in NODEC for t in P.targets(c)):
                if isinstance(c.func.value, ast.Name):
                    recvs.add(c.func.value.id)
                else:
                    rr.fail(ctx.finding('R-STACK-BLOCKS', u, c, 'a traversal reads blocks into `%s`, an object shared beyond this traversal: two traversals advanced in turns '
                                        'overwrite each other\'s current node' % ast.unparse(c.func.value)))
        for r in sorted(recvs):
            defs = [a for a in P.own(u, ast.Assign) if r in names_in_target(a.targets[0])]
            fresh = True
            for a in defs:
                v = a.value
                okv = isinstance(v, ast.Call) and any((t.cls == TRIE_NODE and t.name == '__init__') or (t.cls == 'LRUTrie' and t.name in ('node', 'root'))
                                                      or (t.cls == TRIE_NODE and t.name.endswith('_node')) for t in P.targets(v))
                fresh = fresh and okv
            if r in u.params:
                fresh = False
            rr.ob(ctx.where(u), 'traversal node `%s` of %s is created by the traversal itself' % (r, u.qual), ok=fresh or not defs and r not in u.params)
            if defs and not fresh:
                bad = [a for a in defs if not (isinstance(a.value, ast.Call))] or defs
                rr.fail(ctx.finding('R-STACK-BLOCKS', u, bad[0], 'the node `%s` that %s reads blocks into is not created by the traversal itself (%s): traversals advanced in '
                                    'turns share it and follow each other\'s pointers' % (r, u.qual, ast.unparse(bad[0].value)[:40])))
    # a trie node object is obtained by reading its block: a copy made from another node's packed block has neither the tail of a
    # multi-block stem nor the exists mark
    for u in P.units:
        for c in P.own(u, ast.Call):
            if any(t.cls == 'LRUTrie' and t.name == 'node' for t in P.targets(c)) or any(t.cls == TRIE_NODE and t.name == '__init__' for t in P.targets(c)):
                for k in c.keywords:
                    if k.arg == 'data' and any(isinstance(x, ast.Call) and isinstance(x.func, ast.Attribute) and x.func.attr == 'pack' for x in ast.walk(k.value)):
                        rr.ob(ctx.where(u, c), 'trie nodes are read from their block, not cloned from packed data', ok=False)
                        rr.fail(ctx.finding('R-STACK-BLOCKS', u, c, '%s clones a trie node from `%s`: the packed block carries neither the tail blocks of a stem longer than one block nor '
                                            'the block number, so the clone reports a truncated stem' % (u.qual, ast.unparse(k.value)[:40])))
    rr.require(nst, 3, 'explicit traversal stacks')


# ------------------------------------------------------------------------------------------------ R-WE-ATTACH
@rule('R-WE-ATTACH')
def we_attach(ctx, rr):
    """a webentity id is attached only to a node obtained through add_lru(flag_can_have_child_webentities=True) and only where
    the node is known not to carry one"""
    P = ctx.P
    add_lru = P.method('LRUTrie', 'add_lru')
    n = 0

    def origin_ok(u, var, seen=()):
        """every definition of node variable `var` in u is an add_lru(..., flag=True) result (directly or through a container
        filled only with such nodes under the not-has_webentity fact)"""
        defs = []
        for a in P.own(u, ast.Assign):
            for t in a.targets:
                if var in names_in_target(t):
                    defs.append(('assign', a))
        for f in P.own(u, ast.For):
            if var in names_in_target(f.target):
                defs.append(('for', f))
        if not defs:
            return False, 'no definition of `%s`' % var
        gf = guard_facts(ctx, u)
        how = 'direct'
        for kind, d in defs:
            if kind == 'assign':
                v = d.value
                if not (isinstance(v, ast.Call) and add_lru in P.targets(v)):
                    return False, '`%s` is not obtained from add_lru' % var
                k = kwarg(v, 'flag_can_have_child_webentities')
                if k is None and len(v.args) > 1:
                    k = v.args[1]
                if not (isinstance(k, ast.Constant) and k.value is True):
                    return False, 'add_lru is not asked to clear the no-child-webentities mark on the ancestors'
            else:
                it = d.iter
                cont = None
                if isinstance(it, ast.Call) and isinstance(it.func, ast.Attribute) and isinstance(it.func.value, ast.Name):
                    cont = it.func.value.id
                elif isinstance(it, ast.Name):
                    cont = it.id
                if cont is not None and cont in seen:
                    continue      # the container being traced is filled from this very variable: no new origin
                if cont is None:
                    return False, 'cannot trace container of `%s`' % var
                fills = []
                for c in P.own(u, ast.Call):
                    if isinstance(c.func, ast.Attribute) and isinstance(c.func.value, ast.Name) and c.func.value.id == cont \
                            and c.func.attr in ('update', 'append', 'add', 'setdefault'):
                        fills.append(c)
                for a in P.own(u, ast.Assign):
                    for t in a.targets:
                        if isinstance(t, ast.Subscript) and isinstance(t.value, ast.Name) and t.value.id == cont:
                            fills.append(a)
                if not fills:
                    return False, 'container `%s` is never filled' % cont
                for fl in fills:
                    nodes_in = [x.id for x in ast.walk(fl) if isinstance(x, ast.Name) and x.id != cont and TRIE_NODE in P.var_classes(u, x.id)]
                    if not nodes_in:
                        return False, 'container `%s` filled with untraceable values' % cont
                    for nv in nodes_in:
                        ok, why = origin_ok(u, nv, seen + (cont,))
                        if not ok:
                            return False, why
                        facts = gf.facts_at(fl if isinstance(fl, ast.Call) else fl.value) or set()
                        if not any(f[0] == 'F' and f[1] == '%s.has_webentity()' % nv for f in facts):
                            return False, 'container `%s` is filled with `%s` without the not-has_webentity guard' % (cont, nv)
                how = 'container'
        return True, how

    for u in P.units:
        if u.cls == TRIE_NODE:
            continue
        for c in P.own(u, ast.Call):
            if not (isinstance(c.func, ast.Attribute) and c.func.attr == 'set_webentity' and any(t.cls == TRIE_NODE for t in P.targets(c))):
                continue
            n += 1
            r = recv_name(c)
            if r is None:
                raise AnalysisError('R-WE-ATTACH: set_webentity on a non-variable receiver at %s' % ctx.where(u, c))
            ok, why = origin_ok(u, r)
            rr.ob(ctx.where(u, c), 'node `%s` receiving a webentity comes from add_lru(flag_can_have_child_webentities=True)' % r, ok=ok, how=why)
            if not ok:
                rr.fail(ctx.finding('R-WE-ATTACH', u, c, 'webentity attached to a node whose ancestors were not unmarked for child webentities '
                                    '(%s): the child-webentity shortcut can hide this webentity' % why))
            if ok and why == 'direct':
                facts = guard_facts(ctx, u).facts_at(c) or set()
                ok2 = any(f[0] == 'F' and f[1] == '%s.has_webentity()' % r for f in facts)
                rr.ob(ctx.where(u, c), 'attach happens only where `%s.has_webentity()` is known false' % r, ok=ok2)
                if not ok2:
                    rr.fail(ctx.finding('R-WE-ATTACH', u, c, 'webentity attached to a prefix without checking that it carries none: attaching an '
                                        'attached prefix must be refused'))
    rr.require(n, 2, 'webentity attach sites')


# ------------------------------------------------------------------------------------------------ R-OWN-ERROR
@rule('R-OWN-ERROR')
def own_error(ctx, rr):
    """the facade fails with the library's own error; resolution fails iff the walk saw no webentity"""
    P = ctx.P
    traph = P.require_class('Traph')
    n = 0
    for name, u in traph.items():
        for r in P.own(u, ast.Raise):
            n += 1
            if r.exc is None:
                h = P.parent.get(id(r))
                while h is not None and not isinstance(h, (ast.ExceptHandler, ast.FunctionDef)):
                    h = P.parent.get(id(h))
                ok = isinstance(h, ast.ExceptHandler)
                what = 'bare re-raise inside an except handler'
            else:
                e = r.exc.func if isinstance(r.exc, ast.Call) else r.exc
                ok = isinstance(e, ast.Name) and e.id == 'TraphException'
                what = 'raises %s' % ast.unparse(e)
            rr.ob(ctx.where(u, r), '%s: %s' % (u.qual, what), ok=ok)
            if not ok:
                rr.fail(ctx.finding('R-OWN-ERROR', u, r, 'the facade raises something other than TraphException (%s)' % what))
    rr.require(n, 20, 'raise statements in Traph')
    for name, attr in (('retrieve_webentity', 'webentity'), ('retrieve_prefix', 'webentity_prefix')):
        u = P.method('Traph', name)
        gf = guard_facts(ctx, u)
        raises = list(P.own(u, ast.Raise))
        rets = [r for r in P.own(u, ast.Return) if r.value is not None]
        ok = len(raises) == 1 and len(rets) == 1
        hv = None
        if ok:
            rv = rets[0].value
            src_expr = rv
            if isinstance(rv, ast.Name):
                from ..dataflow import single_defs
                src_expr = single_defs(P, u).get(rv.id, rv)
            ok = isinstance(src_expr, ast.Attribute) and isinstance(src_expr.value, ast.Name) and src_expr.attr == attr
            if ok:
                hv = ast.unparse(rv)
                fr = gf.facts_at(raises[0].exc) or set()
                ft = gf.facts_at(rv) or set()
                ok = any(f[0] == 'F' and f[1] == hv for f in fr) and any(f[0] == 'T' and f[1] == hv for f in ft)
                # the history comes from follow_lru on the request's LRU
                h = src_expr.value.id
                src = [a for a in P.own(u, ast.Assign) if h in names_in_target(a.targets[0])]
                ok = ok and len(src) == 1 and isinstance(src[0].value, ast.Call) and P.method('LRUTrie', 'follow_lru') in P.targets(src[0].value)
        rr.ob(ctx.where(u), '%s raises TraphException iff the walk history carries no webentity (%s) and otherwise returns it' % (name, hv), ok=ok)
        if not ok:
            rr.fail(ctx.finding('R-OWN-ERROR', u, u.node, '%s no longer fails exactly when the lookup walk saw no webentity' % name, stmt=name + ' table'))
    u = P.method('Traph', 'get_webentity_by_prefix')
    gf = guard_facts(ctx, u)
    rets = [r for r in P.own(u, ast.Return) if r.value is not None]
    ok = len(rets) == 1 and isinstance(rets[0].value, ast.Call) and isinstance(rets[0].value.func, ast.Attribute) \
        and isinstance(rets[0].value.func.value, ast.Name)
    if ok:
        X = rets[0].value.func.value.id
        facts = gf.facts_at(rets[0].value) or set()
        tf = {(f[0], f[1]) for f in facts}
        ok = ('T', '%s.has_webentity()' % X) in tf and ('T', X) in tf
    rr.ob(ctx.where(u), 'get_webentity_by_prefix returns only for an existing node that carries a webentity', ok=ok)
    if not ok:
        rr.fail(ctx.finding('R-OWN-ERROR', u, u.node, 'get_webentity_by_prefix can return for a missing node or a node without webentity', stmt='by_prefix table'))


# ------------------------------------------------------------------------------------------------ R-ID
@rule('R-ID')
def webentity_id(ctx, rr):
    P, E = ctx.P, ctx.E
    hdr = P.require_class(TRIE_HEADER)
    CE_idx = 'LRU_TRIE_HEADER_LAST_WEBENTITY_ID'
    # counter mutators = header methods that store into data[LAST_WEBENTITY_ID]
    muts = {}
    for name, u in hdr.items():
        for n in P.own(u, (ast.Assign, ast.AugAssign)):
            tg = n.targets if isinstance(n, ast.Assign) else [n.target]
            for t in tg:
                if isinstance(t, ast.Subscript) and ast.unparse(t.value) == 'self.data' and ast.unparse(t.slice) == CE_idx:
                    muts[name] = n
    rr.require(len(muts), 1, 'counter mutators in LRUTrieHeader')
    gen = P.method('Traph', '__generated_web_entity_id')
    # (1) single writer of the counter, monotone increment.  Header methods that reach a mutator through another header method
    # (increment -> increment_by -> set) are mutators too; calls inside the header class are delegation, not clients.
    deleg = {}
    changed = True
    while changed:
        changed = False
        for name, hu in hdr.items():
            if name in muts or name in deleg:
                continue
            for c in P.own(hu, ast.Call):
                if isinstance(c.func, ast.Attribute) and isinstance(c.func.value, ast.Name) and c.func.value.id == 'self' and (c.func.attr in muts or c.func.attr in deleg):
                    deleg[name] = c
                    changed = True
    allm = set(muts) | set(deleg)
    callers = []
    for u in P.units:
        if u.cls == TRIE_HEADER:
            continue
        for c in P.own(u, ast.Call):
            for t in P.targets(c):
                if t.cls == TRIE_HEADER and t.name in allm:
                    callers.append((u, c, t))
    ok = bool(callers) and all(u is gen for u, c, t in callers)
    rr.ob(ctx.where(gen), '(1) the webentity-id counter is changed only by %s (%d call sites of %s)' % (gen.qual, len(callers), sorted(allm)), ok=ok)
    for u, c, t in callers:
        if u is not gen:
            rr.fail(ctx.finding('R-ID', u, c, 'the webentity-id counter is changed outside the id allocator (%s)' % t.qual))

    def positive(e):
        return isinstance(e, ast.Constant) and isinstance(e.value, int) and not isinstance(e.value, bool) and e.value > 0

    def is_last(e):
        t_ = ast.unparse(e).replace(' ', '')
        return t_ in ('self.last_webentity_id()', 'self.data[%s]' % CE_idx)

    def subst(e, env):
        class S(ast.NodeTransformer):
            def visit_Name(self, node):
                return copy_.deepcopy(env[node.id]) if node.id in env else node
        import copy as copy_
        return S().visit(copy_.deepcopy(e))

    def strict(name, args, depth=0):
        """does calling header method `name` with argument expressions `args` (already in terms of constants / last id) strictly increase the counter?"""
        if depth > 4:
            return False
        hu = hdr[name]
        env = dict(zip(hu.call_params, args))
        if name in muts:
            n_ = muts[name]
            if isinstance(n_, ast.AugAssign):
                return isinstance(n_.op, ast.Add) and positive(subst(n_.value, env))
            v = subst(n_.value, env)
            return isinstance(v, ast.BinOp) and isinstance(v.op, ast.Add) and ((is_last(v.left) and positive(v.right)) or (is_last(v.right) and positive(v.left)))
        c_ = deleg[name]
        return strict(c_.func.attr, [subst(a_, env) for a_ in c_.args], depth + 1)
    for u, c, t in callers:
        mono = strict(t.name, list(c.args))
        rr.ob(ctx.where(t), '(1) %s strictly increases the counter' % t.qual, ok=mono)
        if not mono:
            rr.fail(ctx.finding('R-ID', u, c, 'the allocator changes the counter through %s, which is not a strict increment: ids may repeat' % t.qual))
    # (2) increment -> header.write() -> id read, on every path of the allocator
    g = ctx.cfg(gen)
    events = []

    def ev_of(c):
        for t in P.targets(c):
            if t.cls == TRIE_HEADER and t.name in allm:
                return 'inc'
            if t.cls == TRIE_HEADER and t.name == 'write':
                return 'write'
            if t.cls == TRIE_HEADER and t.name == 'last_webentity_id':
                return 'get'
        return None

    def transfer(nd, st):
        root = node_root(nd)
        if root is None:
            return st
        for c in calls_in_order(P, gen, root):
            e = ev_of(c)
            if e == 'inc':
                st = 'inc'
            elif e == 'write':
                st = 'written' if st == 'inc' else st
            elif e == 'get':
                events.append((c, st))
        return st
    IN = solve_forward(g, 'start', transfer, lambda lab, st: st, lambda a, b: a if a == b else 'mixed')
    events.clear()
    for nd in g.nodes:
        if nd.id in IN:
            transfer(nd, IN[nd.id])
    rets = [r for r in P.own(gen, ast.Return)]
    ok = bool(events) and all(st == 'written' for c, st in events) and all(
        r.value is not None and any(c is x for c, st in events for x in ast.walk(r.value)) for r in rets) and bool(rets)
    rr.ob(ctx.where(gen), '(2) the allocator increments, writes the header through, then hands out the stored id on every path', ok=ok)
    if not ok:
        rr.fail(ctx.finding('R-ID', gen, gen.node, 'the id allocator does not follow increment -> header.write() -> return the stored id on every '
                            'path: an id can be handed out that is not on disk (reused after a restart)', stmt='allocator protocol'))
    # (3) one allocation per request, outside loops
    nalloc = 0
    for u in P.units:
        sites = [c for c in P.own(u, ast.Call) if gen in P.targets(c)]
        if not sites:
            continue
        nalloc += len(sites)
        for c in sites:
            lp = in_loop(P, u, c)
            rr.ob(ctx.where(u, c), '(3) id allocation is outside any loop', ok=lp is None)
            if lp is not None:
                rr.fail(ctx.finding('R-ID', u, c, 'a webentity id is allocated inside a loop: one creation request would hand out several ids'))
        gg = ctx.cfg(u)
        ids = {id(c) for c in sites}

        def tr(nd, st, u=u, ids=ids):
            root = node_root(nd)
            if root is None:
                return st
            k = sum(1 for c in ast.walk(root) if id(c) in ids)
            return min(st + k, 2)
        INN = solve_forward(gg, 0, tr, lambda lab, st: st, max)
        mx = max([tr(nd, INN[nd.id]) for nd in gg.nodes if nd.id in INN] or [0])
        rr.ob(ctx.where(u), '(3) at most one id allocation on any path of %s' % u.qual, ok=mx <= 1)
        if mx > 1:
            rr.fail(ctx.finding('R-ID', u, sites[-1], 'two id allocations can happen on one path of %s' % u.qual))
        # (4) ids attached in this function are that allocation
        alloc_vars = set()
        for a in P.own(u, ast.Assign):
            if isinstance(a.value, ast.Call) and gen in P.targets(a.value):
                alloc_vars |= set(names_in_target(a.targets[0]))
        for c in P.own(u, ast.Call):
            if isinstance(c.func, ast.Attribute) and c.func.attr == 'set_webentity' and any(t.cls == TRIE_NODE for t in P.targets(c)):
                arg = c.args[0] if c.args else None
                ok = isinstance(arg, ast.Name) and arg.id in alloc_vars and not [
                    a for a in P.own(u, ast.Assign) if arg.id in names_in_target(a.targets[0])
                    and not (isinstance(a.value, ast.Call) and gen in P.targets(a.value))]
                rr.ob(ctx.where(u, c), '(4) the id attached to every prefix of the request is the single allocated id', ok=ok)
                if not ok:
                    rr.fail(ctx.finding('R-ID', u, c, 'the id attached here is not (only) the id allocated for this request'))
    rr.require(nalloc, 1, 'id allocation sites')
    # creation paths that attach an id without allocating one: only the explicit prefix API taking a caller-supplied id
    for u in P.units:
        if u.cls == TRIE_NODE:
            continue
        for c in P.own(u, ast.Call):
            if isinstance(c.func, ast.Attribute) and c.func.attr == 'set_webentity' and any(t.cls == TRIE_NODE for t in P.targets(c)):
                if not any(gen in P.targets(x) for x in P.own(u, ast.Call)):
                    arg = c.args[0] if c.args else None
                    ok = isinstance(arg, ast.Name) and arg.id in u.params
                    rr.ob(ctx.where(u, c), '(4) an id attached without allocation is the caller-supplied webentity id', ok=ok)
                    if not ok:
                        rr.fail(ctx.finding('R-ID', u, c, 'a webentity id that is neither freshly allocated nor supplied by the caller is attached'))
    # (5) blank header written only when the block is missing
    ens = P.method(TRIE_HEADER, '__ensure')
    gf = guard_facts(ctx, ens)
    ws = [c for c in P.own(ens, ast.Call) if any(t.cls in STORAGES and t.name == 'write' for t in P.targets(c))]
    ok = bool(ws)
    for c in ws:
        facts = gf.facts_at(c) or set()
        reads = [a for a in P.own(ens, ast.Assign) if isinstance(a.value, ast.Call) and any(t.cls in STORAGES and t.name == 'read' for t in P.targets(a.value))]
        rv = set()
        for a in reads:
            rv |= set(names_in_target(a.targets[0]))
        ok = ok and any((f[0] == 'F' and f[1] in rv) or (f[0] == 'T' and f[1] in ['%s is None' % v for v in rv]) for f in facts)
    rr.ob(ctx.where(ens), '(5) the blank header (counter 0) is written only when the header block does not exist', ok=ok)
    if not ok:
        rr.fail(ctx.finding('R-ID', ens, ws[0] if ws else ens.node, 'the header is (re)initialised although it exists: the id counter restarts at 0 on reopen'))
    # (6) the constructor reads the stored header after ensuring it
    init = P.method(TRIE_HEADER, '__init__')
    rd = P.method(TRIE_HEADER, 'read')
    g = ctx.cfg(init)

    def tr6(nd, st):
        root = node_root(nd)
        if root is None:
            return st
        for c in calls_in_order(P, init, root):
            if ens in P.targets(c):
                st = max(st, 1)
            if rd in P.targets(c) and st >= 1:
                st = 2
        return st
    IN6 = solve_forward(g, 0, tr6, lambda lab, st: st, min)
    ok = all(tr6(p, IN6.get(p.id, 0)) == 2 for p, _ in g.exit.pred)
    # and read() really loads the stored counter into self.data (directly or through a local holding the block)
    from ..dataflow import single_defs as _single_defs
    _sd = _single_defs(P, rd)
    ok = ok and any(isinstance(a, ast.Assign) and any(ast.unparse(t) == 'self.data' for t in a.targets)
                    and (any(t2.cls in STORAGES and t2.name == 'read' for c in ast.walk(a.value) if isinstance(c, ast.Call) for t2 in P.targets(c))
                         or any(isinstance(x, ast.Name) and isinstance(_sd.get(x.id), ast.Call) and any(t2.cls in STORAGES and t2.name == 'read' for t2 in P.targets(_sd[x.id]))
                                for x in ast.walk(a.value)))
                    for a in P.own(rd, ast.Assign))
    rr.ob(ctx.where(init), '(6) opening a trie ensures then re-reads the stored header (the counter survives close/reopen)', ok=ok)
    if not ok:
        rr.fail(ctx.finding('R-ID', init, init.node, 'the header constructor does not load the stored header after ensuring it: the id counter '
                            'would restart at 0 after a reopen', stmt='header constructor'))
    # LRUTrie.__init__ builds the header from its storage; Traph builds LRUTrie on every open
    lt = P.method('LRUTrie', '__init__')
    ok = any(any(t.cls == TRIE_HEADER for t in P.targets(c)) for c in P.own(lt, ast.Call))
    rr.ob(ctx.where(lt), '(6) LRUTrie loads its header from storage on construction', ok=ok)
    if not ok:
        rr.fail(ctx.finding('R-ID', lt, lt.node, 'LRUTrie no longer loads the header on construction', stmt='LRUTrie header'))
    # (7) clear() rebuilds the trie (and with it the header) after the reset
    clear = P.method('Traph', 'clear')
    g = ctx.cfg(clear)

    def tr7(nd, st):
        root = node_root(nd)
        if root is None:
            return st
        for c in calls_in_order(P, clear, root):
            for t in P.targets(c):
                if t.cls in STORAGES and (t.cls, t.name) in E.storage_mutators:
                    st = 1
            if isinstance(c.func, ast.Name) and c.func.id == 'open':
                st = 1
            if any(t.cls == 'LRUTrie' and t.name == '__init__' for t in P.targets(c)) and st >= 1:
                par = P.parent.get(id(c))
                if isinstance(par, ast.Assign) and any(self_attr(t) == 'lru_trie' for t in par.targets):
                    st = 2
        return st
    IN7 = solve_forward(g, 0, tr7, lambda lab, st: st, min)
    ok = all(tr7(p, IN7.get(p.id, 0)) == 2 for p, _ in g.exit.pred if p.kind != 'raise_exit')
    rr.ob(ctx.where(clear), '(7) clear() rebuilds the trie object (fresh header, counter 0) after resetting the storage on every path', ok=ok)
    if not ok:
        rr.fail(ctx.finding('R-ID', clear, clear.node, 'clear() does not rebuild the trie after the reset on every path: the in-memory header '
                            'keeps the old counter or is never written', stmt='clear rebuild'))


# ------------------------------------------------------------------------------------------------ R-TRUNC-ORDER
@rule('R-TRUNC-ORDER')
def trunc_order(ctx, rr):
    """when both store files are (re)created, the trie file - where every walk starts - is truncated before the link store file:
    a crash between the two opens then leaves an empty trie next to an unreferenced link store, never a full trie whose pages
    point into an empty link store"""
    P = ctx.P
    traph = P.require_class('Traph')
    # file attribute -> storage attribute -> structure class, collected over the facade
    storage_of, struct_of = {}, {}
    late = []
    for u in traph.values():
        for a in P.own(u, ast.Assign):
            if len(a.targets) != 1:
                continue
            t = a.targets[0]
            v = a.value
            if self_attr(t) and isinstance(v, ast.Call) and any(tg.cls in STORAGES and tg.name == '__init__' for tg in P.targets(v)):
                for x in list(v.args) + [k.value for k in v.keywords]:
                    if self_attr(x):
                        storage_of[self_attr(x)] = self_attr(t)
            if isinstance(t, ast.Attribute) and t.attr == 'file' and self_attr(t.value) and self_attr(v):
                late.append((self_attr(v), self_attr(t.value)))
            if self_attr(t) and isinstance(v, ast.Call):
                for tg in P.targets(v):
                    if tg.cls in ('LRUTrie', 'LinkStore') and tg.name == '__init__':
                        for x in list(v.args) + [k.value for k in v.keywords]:
                            if self_attr(x):
                                struct_of[self_attr(x)] = tg.cls
    for f_, s_ in late:
        storage_of.setdefault(f_, s_)      # the constructor's pairing wins (R-CLEAR-AGREE checks that clear() plugs the same way)
    n = 0
    for u in traph.values():
        opens = {}
        for a in P.own(u, ast.Assign):
            if len(a.targets) == 1 and self_attr(a.targets[0]) and isinstance(a.value, ast.Call) and isinstance(a.value.func, ast.Name) and a.value.func.id == 'open':
                cls = struct_of.get(storage_of.get(self_attr(a.targets[0])))
                if cls is None:
                    raise AnalysisError('R-TRUNC-ORDER: cannot tell which structure the file `self.%s` opened in %s belongs to' % (self_attr(a.targets[0]), u.qual))
                opens.setdefault(cls, []).append(a)
        if not opens:
            continue
        if set(opens) != {'LRUTrie', 'LinkStore'}:
            raise AnalysisError('R-TRUNC-ORDER: %s opens only the file of %s' % (u.qual, sorted(opens)))
        n += 1
        g = ctx.cfg(u)
        trie_nodes = {id(a) for a in opens['LRUTrie']}

        def tr(nd, st):
            return True if id(nd.ast) in trie_nodes and nd.kind == 'stmt' else st
        IN = solve_forward(g, False, tr, lambda lab, st: st, lambda a, b: a and b)
        for a in opens['LinkStore']:
            nid = [nd.id for nd in g.nodes if nd.ast is a and nd.kind == 'stmt']
            ok = bool(nid) and all(IN.get(i, True) for i in nid)
            rr.ob(ctx.where(u, a), '%s: the link store file is (re)opened only after the trie file' % u.qual, ok=ok)
            if not ok:
                rr.fail(ctx.finding('R-TRUNC-ORDER', u, a, '%s opens (and, when creating, truncates) the link store file before the trie file: a crash between the two leaves the old trie '
                                    'with its pages pointing into an empty link store, and the folder reopens without complaint but link queries fail' % u.qual))
    rr.require(n, 2, 'functions that (re)open both store files')
