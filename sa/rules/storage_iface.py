"""R-STORAGE-IFACE: every call on a storage object is accepted by every back-end that can be the receiver."""
import ast

from ..core import rule
from ..program import AnalysisError
from ..effects import STORAGES, self_attr
from ..guards import guard_facts


def accepts(fu, npos, kws):
    a = fu.node.args
    params = [x.arg for x in a.posonlyargs + a.args][1:]
    ndef = len(a.defaults)
    required = params[:len(params) - ndef] if ndef else list(params)
    if npos > len(params) and not a.vararg:
        return False
    bound = set(params[:npos])
    for k in kws:
        if k not in params and k not in [x.arg for x in a.kwonlyargs] and not a.kwarg:
            return False
        bound.add(k)
    for x, d in zip(a.kwonlyargs, a.kw_defaults):
        if d is None and x.arg not in bound:
            return False
    return all(r in bound for r in required)


def _built_under(ctx):
    """{field: {storage class: set(in_memory truth under which it is constructed)}} from Traph.__init__"""
    P = ctx.P
    init = P.method('Traph', '__init__')
    gf = guard_facts(ctx, init)
    out = {}
    for a in P.own(init, ast.Assign):
        if isinstance(a.value, ast.Call):
            cl = P.expr_classes(init, a.value) & set(STORAGES)
            for t in a.targets:
                f = self_attr(t)
                if f and cl:
                    facts = gf.facts_at(a.value) or set()
                    truth = None
                    for x in facts:
                        if x[0] in ('T', 'F') and x[1] == 'self.in_memory':
                            truth = x[0] == 'T'
                    for c in cl:
                        out.setdefault(f, {}).setdefault(c, set()).add(truth)
    # self.in_memory must be assigned only in __init__ for the correlation to hold in other methods
    for name, u in P.classes['Traph'].items():
        if name == '__init__':
            continue
        for a in P.own(u, (ast.Assign, ast.AugAssign)):
            tg = a.targets if isinstance(a, ast.Assign) else [a.target]
            if any(self_attr(t) == 'in_memory' for t in tg):
                raise AnalysisError('Traph.in_memory is reassigned outside __init__ (%s): back-end correlation is unsound' % name)
    return out


@rule('R-STORAGE-IFACE')
def storage_iface(ctx, rr):
    P = ctx.P
    built = None
    n_proto = n_facade = 0
    for (u, e, tg, kinds) in list(P.callsites.values()):
        f = e.func
        if not isinstance(f, ast.Attribute):
            continue
        rt = P.ev(u, f.value)
        rc = {a[1] for a in rt if a[0] == 'inst' and a[1] in STORAGES}
        if not rc:
            continue
        if u.cls in STORAGES and isinstance(f.value, ast.Name) and f.value.id == 'self':
            continue      # a back-end calling itself
        npos = len(e.args)
        kws = [k.arg for k in e.keywords if k.arg]
        facade = u.cls == 'Traph' and self_attr(f.value) is not None
        if facade:
            n_facade += 1
            built = built if built is not None else _built_under(ctx)
            gf = guard_facts(ctx, u)
            facts = gf.facts_at(e)
            truth = None
            for x in (facts or ()):
                if x[0] in ('T', 'F') and x[1] == 'self.in_memory':
                    truth = x[0] == 'T'
            field = self_attr(f.value)
            cands = set()
            for c, truths in built.get(field, {}).items():
                if truth is None or None in truths or truth in truths:
                    cands.add(c)
            fam = (cands & rc) or rc
            kind = 'facade call under in_memory=%s' % truth
        else:
            n_proto += 1
            fam = set(rc)
            if f.attr == 'read':
                fam |= set(STORAGES)        # reader family: every back-end is a reader (FileStorage.map() hands out MemMapStorage)
            kind = 'protocol call'
        bad = []
        for cls in sorted(fam):
            m = P.classes[cls].get(f.attr)
            if m is None:
                if cls in rc:
                    bad.append('%s has no method %s' % (cls, f.attr))
                continue
            if not accepts(m, npos, kws):
                bad.append('%s.%s(%s) does not accept this call shape' % (cls, f.attr, ast.unparse(m.node.args)))
        rr.ob(ctx.where(u, e), '%s `%s` is accepted by every back-end that can be the receiver %s' % (kind, ast.unparse(e)[:70], sorted(fam)), ok=not bad)
        if bad:
            rr.fail(ctx.finding('R-STORAGE-IFACE', u, e, 'storage call `%s` is not supported by every back-end that can be the receiver: %s'
                                % (ast.unparse(e), '; '.join(bad)), detail={'receivers': sorted(fam)}))
    rr.require(n_proto + n_facade, 15, 'calls on storage objects')
    # return conventions
    for cls in STORAGES:
        r = P.classes[cls].get('read')
        if r is None:
            raise AnalysisError('anchor vanished: %s.read' % cls)
        rets = [x for x in P.own(r, ast.Return)]
        ok = bool(rets)
        for x in rets:
            v = x.value
            good = v is None or (isinstance(v, ast.Constant) and v.value is None) or (
                isinstance(v, ast.BoolOp) and isinstance(v.op, ast.Or) and isinstance(v.values[-1], ast.Constant) and v.values[-1].value is None)
            if not good and isinstance(v, ast.IfExp):
                # `data if data else None` / `None if not data else data`
                t_, b_, o_ = v.test, v.body, v.orelse
                neg_ = isinstance(t_, ast.UnaryOp) and isinstance(t_.op, ast.Not)
                if neg_:
                    t_, b_, o_ = t_.operand, o_, b_
                good = isinstance(o_, ast.Constant) and o_.value is None and ast.unparse(t_) == ast.unparse(b_)
            if not good and isinstance(v, ast.Name):
                # `if not data: return None` ... `return data`
                from ..guards import guard_facts as _gf
                facts_ = _gf(ctx, r).facts_at(v) or set()
                good = any(f[0] == 'T' and f[1] == v.id for f in facts_)
            ok = ok and good
        g = ctx.cfg(r)
        falls_off = any(p.kind != 'stmt' or not isinstance(p.ast, ast.Return) for p, _ in g.exit.pred)
        rr.ob(ctx.where(r), '%s.read returns `<bytes> or None` on every path (missing block reads as None)' % cls, ok=ok)
        if not ok:
            rr.fail(ctx.finding('R-STORAGE-IFACE', r, r.node, '%s.read may return an empty/short value instead of None for a missing block' % cls,
                                stmt='%s.read returns' % cls))
        w = P.classes[cls].get('write')
        if w is not None:
            g = ctx.cfg(w)
            ok = all(p.kind == 'stmt' and isinstance(p.ast, ast.Return) and p.ast.value is not None
                     and not (isinstance(p.ast.value, ast.Constant) and p.ast.value.value is None) for p, _ in g.exit.pred)
            rr.ob(ctx.where(w), '%s.write returns the block offset on every path' % cls, ok=ok)
            if not ok:
                rr.fail(ctx.finding('R-STORAGE-IFACE', w, w.node, '%s.write does not return the block offset on every path' % cls,
                                    stmt='%s.write returns' % cls))
    # cursor protocol: a back-end that accepts read() without a block continues right after the last block read
    for cls in STORAGES:
        r = P.classes[cls]['read']
        if not accepts(r, 0, []):
            continue
        ok, why = _cursor_protocol(ctx, cls, r)
        rr.ob(ctx.where(r), '%s.read(): %s' % (cls, why), ok=ok)
        if not ok:
            rr.fail(ctx.finding('R-STORAGE-IFACE', r, r.node, '%s.read() without a block does not continue right after the last block read: %s'
                                % (cls, why), stmt='%s.read cursor' % cls))
    # block 0 is a valid address (the header): a storage method may test its block argument for None-ness only
    for cls in STORAGES:
        for name, m in P.classes[cls].items():
            if 'block' not in m.params:
                continue
            for t in ast.walk(m.node):
                bad = None
                if isinstance(t, (ast.If, ast.While, ast.IfExp)):
                    from ..dataflow import test_leaves
                    for leaf in test_leaves(t.test):
                        if isinstance(leaf, ast.Name) and leaf.id == 'block':
                            bad = leaf
                if isinstance(t, ast.BoolOp):
                    for v in t.values[:-1]:
                        if isinstance(v, ast.Name) and v.id == 'block':
                            bad = v
                if bad is not None:
                    rr.ob(ctx.where(m, bad), '%s.%s tests its block argument for None-ness, not truthiness' % (cls, name), ok=False)
                    rr.fail(ctx.finding('R-STORAGE-IFACE', m, bad, '%s.%s tests `block` for truthiness: block address 0 (the header block) is then treated like "no block '
                                        'given" (appended / read at the cursor instead of at offset 0)' % (cls, name)))
            rr.ob(ctx.where(m), '%s.%s distinguishes "no block" from block 0 by None-ness' % (cls, name), ok=True)
    # cursor continuity: a cursor-relative read() must directly follow a read on the same storage - any other storage call
    # in between (len(), count_blocks, write, ...) may move the cursor of the file back-end
    for u in P.units:
        if u.cls in STORAGES:
            continue
        rel = [c for c in P.own(u, ast.Call) if any(t.cls in STORAGES and t.name == 'read' for t in P.targets(c)) and not c.args and not c.keywords]
        if not rel:
            continue
        g = ctx.cfg(u)
        from ..cfg import solve_forward
        from ..dataflow import node_root, calls_in_order

        def storage_event(c, u=u):
            if any(t.cls in STORAGES for t in P.targets(c)):
                return 'read' if isinstance(c.func, ast.Attribute) and c.func.attr == 'read' else 'other'
            if isinstance(c.func, ast.Name) and c.func.id == 'len' and c.args and P.expr_classes(u, c.args[0]) & set(STORAGES):
                return 'other'
            return None

        def transfer(nd, st, u=u, check=None):
            root = node_root(nd)
            if root is None:
                return st
            for c in calls_in_order(P, u, root):
                e = storage_event(c)
                if e == 'read':
                    if check is not None and not c.args and not c.keywords:
                        check(c, st)
                    st = True
                elif e == 'other':
                    st = False
            return st
        IN = solve_forward(g, False, transfer, lambda lab, st: st, lambda a, b: a and b)
        seen_c = {}

        def check(c, st):
            seen_c[id(c)] = (c, seen_c.get(id(c), (c, True))[1] and st)
        for nd in g.nodes:
            if nd.id in IN:
                transfer(nd, IN[nd.id], check=check)
        for c, ok in seen_c.values():
            rr.ob(ctx.where(u, c), 'cursor-relative `%s` directly follows another read of the same store on every path' % ast.unparse(c), ok=ok)
            if not ok:
                rr.fail(ctx.finding('R-STORAGE-IFACE', u, c, 'a storage call that may move the file cursor (len(), count_blocks(), write() ...) lies between the positioned read and '
                                    'this cursor-relative `read()`: on the file back-end the tail is read from the wrong place (the memory back-end is unaffected)'))
    # corruption check: reports corruption exactly when the length is not a whole number of blocks
    fs = P.classes['FileStorage'].get('check_for_corruption')
    if fs is None:
        raise AnalysisError('anchor vanished: FileStorage.check_for_corruption')
    from .table_rules import tables
    rows = tables(ctx, fs, iters=1)
    bad = []
    # expression form: `return length % block_size != 0` (or `> 0`, `bool(...)`)
    rets_ = [x for x in P.own(fs, ast.Return) if x.value is not None]
    if len(rets_) == 1 and not isinstance(rets_[0].value, ast.Constant):
        from ..dataflow import rtext as _rt
        t_ = _rt(P, fs, rets_[0].value)
        good_ = t_.endswith('%self.block_size!=0') or t_.endswith('%self.block_size>0') or (t_.startswith('bool(') and t_.endswith('%self.block_size)')) \
            or t_.endswith('%self.block_size>=1')
        wrong_ = t_.endswith('%self.block_size==0') or t_.startswith('not') or '//' in t_
        # "blocks * block size differs from the length": right only if the block count is an integer (floor) division
        import re as _rec
        mcb = _rec.match(r'^self\.count_blocks\(\)\*self\.block_size!=(self\.__len__\(\)|len\(self\))$', t_) or \
            _rec.match(r'^(self\.__len__\(\)|len\(self\))!=self\.count_blocks\(\)\*self\.block_size$', t_)
        if mcb and not good_ and not wrong_:
            cb_ = P.classes['FileStorage'].get('count_blocks')
            floor_ = cb_ is not None and any(isinstance(b_, ast.BinOp) and isinstance(b_.op, ast.FloorDiv) for b_ in ast.walk(cb_.node)) \
                and not any(isinstance(b_, ast.BinOp) and isinstance(b_.op, ast.Div) for b_ in ast.walk(cb_.node))
            if floor_:
                good_ = True
            else:
                wrong_ = True
                bad.append((None, 'the verdict compares count_blocks() * block_size with the length, but count_blocks() is a true division: the product always equals the length, '
                                  'so a partially written block is never reported'))
        if not good_ and not wrong_:
            raise AnalysisError('R-STORAGE-IFACE: verdict expression `%s` of check_for_corruption not recognised' % t_)
        rows = []
        if wrong_:
            bad.append((None, 'returns `%s`, which is not "length %% block_size is non-zero"' % t_))
    for r in rows:
        ret = [e for e in r.events if e.kind == 'return']
        mod = [(k, v) for k, v in r.val.items() if 'Mod' in k or '%' in r.src.get(k, '')]
        if not ret:
            continue
        val = ret[0].text
        if not mod:
            bad.append((r, 'a verdict is returned without looking at length %% block_size'))
            continue
        k_, v_ = mod[-1]
        if k_.startswith('LIN:') and k_.rstrip().endswith('== 0'):
            nonzero = not v_
        elif k_.startswith('LIN:') and ('>= 1' in k_):
            nonzero = bool(v_)
        elif k_.startswith('LIN:') and ('<= 0' in k_):
            nonzero = not v_
        else:
            nonzero = bool(v_)
        if (val == 'True') != nonzero:
            bad.append((r, 'returns %s although length %% block_size is %s' % (val, 'non-zero' if nonzero else 'zero')))
    rr.ob(ctx.where(fs), 'check_for_corruption is true exactly when the file length is not a multiple of the block size (%d rows)' % len(rows), ok=not bad)
    for r, msg in bad:
        rr.fail(ctx.finding('R-STORAGE-IFACE', fs, fs.node, 'FileStorage.check_for_corruption: %s: a partially written block can be accepted on reopen' % msg,
                            stmt='check_for_corruption table', detail={'row': r.show()[:300] if r is not None else ''}))
    rr.info.update({'protocol_sites': n_proto, 'facade_sites': n_facade})


def position_var(ctx, r):
    """(name of the variable that holds the block to read, cursor attributes it defaults to, is the default taken exactly when no
    block is given).  Two spellings: the parameter itself re-bound under `block is None`, or a local bound to the cursor under
    `block is None` and to the parameter otherwise (`start = self.cursor if block is None else block`)"""
    P = ctx.P
    p = r.call_params[0] if r.call_params else None
    gf = guard_facts(ctx, r)
    cur_attrs, ok, pos = set(), False, p
    none_t = lambda facts: any((f[0] == 'T' and f[1] == '%s is None' % p) or (f[0] == 'F' and f[1] == '%s is not None' % p) for f in facts)
    none_f = lambda facts: any((f[0] == 'F' and f[1] == '%s is None' % p) or (f[0] == 'T' and f[1] == '%s is not None' % p) for f in facts)
    by_name = {}
    for a in P.own(r, ast.Assign):
        for t in a.targets:
            if isinstance(t, ast.Name):
                by_name.setdefault(t.id, []).append(a)
    for nm, defs in by_name.items():
        if nm == p:
            for a in defs:
                if self_attr(a.value) and none_t(gf.facts_at(a.value) or set()):
                    ok = True
                    cur_attrs.add(self_attr(a.value))
        elif len(defs) == 2:
            cur = [a for a in defs if self_attr(a.value) and none_t(gf.facts_at(a.value) or set())]
            oth = [a for a in defs if isinstance(a.value, ast.Name) and a.value.id == p and none_f(gf.facts_at(a.value) or set())]
            if len(cur) == 1 and len(oth) == 1:
                ok, pos = True, nm
                cur_attrs.add(self_attr(cur[0].value))
    return pos, cur_attrs, ok


def _cursor_protocol(ctx, cls, r):
    P = ctx.P
    src = {ast.unparse(s).replace(' ', '') for s in ast.walk(r.node) if isinstance(s, ast.stmt)}
    p = r.call_params[0] if r.call_params else None
    # file flavour: seek only when a block is given, then read block_size from the current position
    seeks = [c for c in P.own(r, ast.Call) if isinstance(c.func, ast.Attribute) and c.func.attr == 'seek']
    reads = [c for c in P.own(r, ast.Call) if isinstance(c.func, ast.Attribute) and c.func.attr == 'read' and self_attr(c.func.value)]
    if reads:
        gf = guard_facts(ctx, r)
        ok = len(seeks) == 1 and len(reads) == 1
        if ok:
            facts = gf.facts_at(seeks[0]) or set()
            ok = any(f[0] == 'T' and f[1] == '%s is not None' % p for f in facts) or any(f[0] == 'F' and f[1] == '%s is None' % p for f in facts)
            ok = ok and ast.unparse(seeks[0].args[0]) == p and ast.unparse(reads[0].args[0]).replace(' ', '') == 'self.block_size'
        return ok, 'file flavour: seek(block) only when a block is given, then read block_size bytes at the file position'
    # cursor flavour: block defaults to the stored cursor; the cursor is advanced to block + block_size on every path
    pos, cur_attrs, default_ok = position_var(ctx, r)
    adv = [a for a in P.own(r, ast.Assign) if any(self_attr(t) in cur_attrs for t in a.targets)]
    from ..dataflow import rtext
    adv_ok = bool(adv) and all(rtext(P, r, a.value, keep=(pos,)) in ('%s+self.block_size' % pos, 'self.block_size+%s' % pos) for a in adv)
    # the advance dominates every return
    g = ctx.cfg(r)
    from ..cfg import solve_forward
    advs = {id(a) for a in adv}
    IN = solve_forward(g, False, lambda n, st: st or (n.kind == 'stmt' and id(n.ast) in advs), lambda lab, st: st, lambda a, b: a and b)
    dom = all(IN.get(q.id, False) or (q.kind == 'stmt' and id(q.ast) in advs) for q, _ in g.exit.pred)
    return default_ok and adv_ok and dom, ('cursor flavour: block defaults to the stored cursor (%s), cursor := block + block_size before every return'
                                            % sorted(cur_attrs))
