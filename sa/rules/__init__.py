import importlib
import os
import pkgutil


def load_all():
    here = os.path.dirname(__file__)
    for m in sorted(x.name for x in pkgutil.iter_modules([here])):
        importlib.import_module('sa.rules.' + m)
