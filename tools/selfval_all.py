import sys, json
sys.path.insert(0,'/verif')
from sa import selfval, props
from sa import rules; rules.load_all()
from sa.core import RULES
allrules = sorted(RULES)
known = {('R-NULL-HEAD','Traph.get_webentity_most_linked_pages_iter','for _ in self.link_store.weighted_link_nodes_iter(node.inlinks())')}
res = selfval.run('/repo', 'ALL', allrules, known)
print({k:v for k,v in res.items() if k not in ('breaking','equivalent','problems')})
for p in res['problems']: print(' P', p[:400])
