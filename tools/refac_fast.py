#!/usr/bin/env python3
"""Fast regression over /verif/refactorings for chosen properties: every refactoring is materialised once as a plain
copy of /repo/traph with its patch applied (under a scratch directory outside /repo and /verif), then the chosen quick
checks run against the copies, 16 at a time.  usage: refac_fast.py [--dir=/tmp/rfc] [--match=substr] C05 C16 ...  (no ids = all 20)
The tests are not re-run here (tools/refac_eval.py does that when a refactoring is first accepted)."""
import os, shutil, subprocess, sys
from concurrent.futures import ThreadPoolExecutor
HERE = os.path.dirname(os.path.dirname(os.path.abspath(__file__)))
base = '/tmp/rfc'; match = ''
pids = []
for a in sys.argv[1:]:
    if a.startswith('--dir='): base = a[6:]
    elif a.startswith('--match='): match = a[8:]
    else: pids.append(a)
pids = pids or ['C%02d' % i for i in range(1, 21)]
src = os.environ.get('REFAC_SRC', os.path.join(HERE, 'refactorings'))
ids = sorted(d for d in os.listdir(src) if os.path.isfile(os.path.join(src, d, 'patch.diff')) and match in d)
def prep(i):
    d = os.path.join(base, i)
    if os.path.isdir(d): return None
    os.makedirs(d)
    shutil.copytree('/repo/traph', os.path.join(d, 'traph'))
    shutil.copy('/repo/setup.py', d)
    p = subprocess.run(['git', 'apply', os.path.join(src, i, 'patch.diff')], cwd=d, stdout=subprocess.PIPE, stderr=subprocess.STDOUT, text=True)
    return None if p.returncode == 0 else (i, p.stdout[-200:])
def run(job):
    i, pid = job
    p = subprocess.run(['./check', pid, '--repo', os.path.join(base, i), '--no-evidence'], cwd=HERE, stdout=subprocess.PIPE, stderr=subprocess.STDOUT, text=True)
    if p.returncode == 0: return None
    lines = [l.strip()[:260] for l in p.stdout.splitlines() if l.startswith('  R-') or l.startswith('ANALYSIS-ERROR')]
    return (i, pid, p.returncode, lines[:2])
with ThreadPoolExecutor(16) as ex:
    bad = [b for b in ex.map(prep, ids) if b]
    for b in bad: print('PATCH-FAIL', b)
    res = [r for r in ex.map(run, [(i, p) for i in ids for p in pids]) if r]
for r in res: print('ALARM', r)
print('refactorings=%d properties=%d alarms=%d patch_failures=%d' % (len(ids), len(pids), len(res), len(bad)))
