#!/usr/bin/env python3
"""Evaluate a seeded change produced by a sub-agent: confirm it (tests pass, demo fails with / passes without), then run
every check against the patched scratch worktree.  usage: seed_eval.py /tmp/wt/C08 m1 [--keep ID]"""
import json
import os
import shutil
import subprocess
import sys

HERE = os.path.dirname(os.path.dirname(os.path.abspath(__file__)))


def sh(cmd, cwd=None, env=None):
    p = subprocess.run(cmd, shell=True, cwd=cwd, env=env, stdout=subprocess.PIPE, stderr=subprocess.STDOUT, text=True)
    return p.returncode, p.stdout


def main():
    wt, m = sys.argv[1], sys.argv[2]
    prop = os.path.basename(wt.rstrip('/'))
    sd = os.path.join(wt, '_seed', m)
    patch = os.path.join(sd, 'patch.diff')
    env = dict(os.environ, PYTHONPATH=wt)
    res = {'property': prop, 'mutation': m}
    sh('git checkout -- traph', cwd=wt)
    rc, out = sh('/venv/bin/python _seed/%s/demo.py' % m, cwd=wt, env=env)
    res['demo_clean_rc'] = rc
    rc, out = sh('git apply %s' % patch, cwd=wt)
    if rc != 0:
        res['error'] = 'patch does not apply: ' + out[-300:]
        print(json.dumps(res))
        return
    try:
        rc, out = sh('/venv/bin/python -m pytest -q -p no:cacheprovider 2>&1 | tail -1', cwd=wt)
        res['tests'] = out.strip()
        rc, out = sh('/venv/bin/python _seed/%s/demo.py' % m, cwd=wt, env=env)
        res['demo_patched_rc'] = rc
        res['demo_tail'] = out.strip().splitlines()[-1][:200] if out.strip() else ''
        det = {}
        from concurrent.futures import ThreadPoolExecutor
        pids = ['C%02d' % i for i in range(1, 21)]
        with ThreadPoolExecutor(16) as ex:
            results = list(ex.map(lambda pid: sh('./check %s --repo %s --no-evidence' % (pid, wt), cwd=HERE), pids))
        for pid, (rc, out) in zip(pids, results):
            if rc != 0:
                lines = [l.strip() for l in out.splitlines() if l.startswith('  R-') or l.startswith('ANALYSIS-ERROR')]
                det[pid] = {'rc': rc, 'findings': [l[:260] for l in lines[:4]]}
        res['detected_by'] = det
        res['own_property_rc'] = det.get(prop, {}).get('rc', 0)
    finally:
        sh('git checkout -- traph', cwd=wt)
    res['confirmed'] = res.get('demo_clean_rc') == 0 and res.get('demo_patched_rc', 0) != 0 and '31 passed' in res.get('tests', '')
    print(json.dumps(res, indent=1))


if __name__ == '__main__':
    main()
