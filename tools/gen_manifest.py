#!/usr/bin/env python3
"""writes /verif/MANIFEST.json from sa/props.py (single source of truth for per-property claims)"""
import json
import os
import sys

HERE = os.path.dirname(os.path.dirname(os.path.abspath(__file__)))
sys.path.insert(0, HERE)
from sa import props  # noqa

ALL = ['C%02d' % i for i in range(1, 21)]
BASE = ('cd /repo && /venv/bin/python -m pytest -ra -q -p no:cacheprovider --timeout=900 '
        '--continue-on-collection-errors')

checks = []
na = []
for pid in ALL:
    if pid in props.PROPS and not props.PROPS[pid].get('not_applicable'):
        s = props.PROPS[pid]
        checks.append({
            'property_id': pid,
            'quick_cmd': './check %s --tier quick' % pid,
            'thorough_cmd': './check %s --tier thorough' % pid,
            'evidence_file': '/verif/evidence/%s.json' % pid,
            'replay_cmd_template': './check %s --replay {path}' % pid,
            'engine': 'sa',
            'level_claimed': {
                'category': 'other',
                'text': 'Static analysis of the current source (no execution). Decided: ' + s['claim'] +
                        '. Not decided (value-level remainder, not claimed): ' + s['not_decided'] + '.',
                'design_ref': 'DESIGN.md section 4 (%s), rules in section 3' % pid,
            },
            'level_note': 'Trusted base: CPython ast parser; assumptions A1-A4 of DESIGN.md section 7 (A1 is checked on '
                          'every run). Rules: ' + ', '.join(r for r, _ in s['rules']) + '.',
            'technique': s.get('technique', 'static analysis: typed call graph, CFG dataflow/typestate, abstract path '
                                            'tables over the AST'),
        })
    else:
        reason = props.PROPS.get(pid, {}).get('not_applicable') or 'check not built yet (work in progress)'
        na.append({'property_id': pid, 'reason': reason})

m = {
    'version': 1,
    'setup_cmd': 'true',
    'hooks': {
        'guard': 'MEDIALAB_HYPHE_TRAPH_VERIF',
        'enable': 'none needed: the checks parse /repo/traph and never import or run it; no source hooks exist',
        'baseline_off_cmd': BASE,
        'source_commits': [],
        'add_only': True,
    },
    'engines': [{
        'name': 'sa', 'path': '/verif/sa',
        'serves_properties': [c['property_id'] for c in checks],
        'kind_free_text': 'repository-specific static analyser (stdlib ast): typed 0-CFA call graph, effect summaries, '
                          'statement CFG with may/must dataflows, abstract boolean path executor producing decision '
                          'tables, constant/struct-geometry folding',
    }],
    'checks': checks,
    'not_applicable': na,
    'notes': 'All checks re-parse /repo on every run. exit 0 ok / 1 VIOLATION / 2 ANALYSIS-ERROR. Known findings: '
             '/verif/known_findings.json.',
}
json.dump(m, open(os.path.join(HERE, 'MANIFEST.json'), 'w'), indent=1)
print('checks', len(checks), 'not_applicable', len(na))
