#!/usr/bin/env python3
"""Evaluate behaviour-preserving refactorings (from sub-agents or /verif/refactorings): every check must stay at exit 0.
usage: refac_eval.py <worktree> <dir-with-patch.diff> [...]   or   refac_eval.py --all   (re-runs /verif/refactorings/* in a scratch worktree)"""
import json
import os
import re
import subprocess
import sys
from concurrent.futures import ThreadPoolExecutor

HERE = os.path.dirname(os.path.dirname(os.path.abspath(__file__)))


def sh(cmd, cwd=None):
    p = subprocess.run(cmd, shell=True, cwd=cwd, stdout=subprocess.PIPE, stderr=subprocess.STDOUT, text=True)
    return p.returncode, p.stdout


def evaluate(wt, patch, run_tests=True):
    sh('git checkout -- traph', cwd=wt)
    rc, out = sh('git apply %s' % patch, cwd=wt)
    if rc != 0:
        return {'error': 'patch does not apply: ' + out[-200:]}
    res = {}
    try:
        if run_tests:
            rc, out = sh('/venv/bin/python -m pytest -q -p no:cacheprovider 2>&1 | tail -1', cwd=wt)
            res['tests'] = out.strip()
        pids = ['C%02d' % i for i in range(1, 21)]
        with ThreadPoolExecutor(16) as ex:
            results = list(ex.map(lambda pid: sh('./check %s --repo %s --no-evidence' % (pid, wt), cwd=HERE), pids))
        alarms = {}
        for pid, (rc, out) in zip(pids, results):
            if rc != 0:
                lines = [l.strip() for l in out.splitlines() if l.startswith('  R-') or l.startswith('ANALYSIS-ERROR')]
                alarms[pid] = {'rc': rc, 'lines': [l[:300] for l in lines[:3]]}
        res['alarms'] = alarms
    finally:
        sh('git checkout -- traph', cwd=wt)
    return res


def main():
    args = sys.argv[1:]
    match = None
    if args and args[0].startswith('--match='):
        match = args.pop(0)[8:]
        args.insert(0, '--all')
    if args and args[0] == '--all':
        wt = '/tmp/refacwt'
        sh('git -C /repo worktree add -q --detach %s HEAD' % wt)
        try:
            base = os.path.join(HERE, 'refactorings')
            bad = 0
            for d in sorted(os.listdir(base)):
                p = os.path.join(base, d, 'patch.diff')
                if match and match not in d:
                    continue
                if os.path.exists(p):
                    r = evaluate(wt, p, run_tests=False)
                    ok = not r.get('alarms') and 'error' not in r
                    bad += not ok
                    if ok:
                        print(d, 'silent')
                    else:
                        seen = {}
                        for k, v in (r.get('alarms') or {}).items():
                            line = (v['lines'] or [''])[0]
                            key = (v['rc'], line.split('property=')[-1][4:90] if v['rc'] == 2 else line[:70])
                            seen.setdefault(key, [[], line])[0].append(k)
                        print(d, 'ALARMS', r.get('error', ''))
                        for (rc, _), (ks, line) in seen.items():
                            print('     ', ','.join(ks), rc, line[:260])
            print('%d refactorings raise an alarm' % bad)
        finally:
            sh('git -C /repo worktree remove --force %s' % wt)
        return
    wt = args[0]
    for d in args[1:]:
        r = evaluate(wt, os.path.join(d, 'patch.diff'))
        json.dump(r, open(os.path.join(d, 'eval.json'), 'w'), indent=1)
        print(os.path.basename(os.path.dirname(d.rstrip('/'))), os.path.basename(d.rstrip('/')), r.get('tests'), 'ALARMS' if r.get('alarms') else 'silent', r.get('error', ''))
        seen = {}
        for k, v in (r.get('alarms') or {}).items():
            line = (v['lines'] or [''])[0]
            key = (v['rc'], line.split(' gives no verdict')[0].split('property=')[-1][4:] if v['rc'] == 2 else line.split(' ')[0] + line.split(':', 3)[-1][:60])
            seen.setdefault(key, [k, line])[0] += '' if seen[key][0].endswith(k) else ',' + k
        for (rc, _), (ks, line) in seen.items():
            print('    ', ks, rc, line[:300])


if __name__ == '__main__':
    main()
