#!/usr/bin/env python3
"""copy confirmed seeded changes from the scratch worktrees into /verif/seeded/<id>/ (patch.diff, demo.py, meta.json)"""
import json, os, shutil, sys
HERE = os.path.dirname(os.path.dirname(os.path.abspath(__file__)))
TAG = ''
args = sys.argv[1:]
if args and args[0].startswith('--tag='):
    TAG = args.pop(0)[6:]
for wt in args:
    prop = os.path.basename(wt.rstrip('/'))
    sd = os.path.join(wt, '_seed')
    if not os.path.isdir(sd):
        continue
    for m in sorted(os.listdir(sd)):
        d = os.path.join(sd, m)
        ev = os.path.join(d, 'eval.json')
        if not (os.path.exists(os.path.join(d, 'patch.diff')) and os.path.exists(ev)):
            continue
        e = json.load(open(ev))
        if not e.get('confirmed'):
            print('not confirmed, skipped:', prop, m)
            continue
        out = os.path.join(HERE, 'seeded', '%s-%s%s' % (prop, TAG, m))
        os.makedirs(out, exist_ok=True)
        shutil.copy(os.path.join(d, 'patch.diff'), out)
        shutil.copy(os.path.join(d, 'demo.py'), out)
        meta = json.load(open(os.path.join(d, 'meta.json'))) if os.path.exists(os.path.join(d, 'meta.json')) else {}
        meta.update({
            'breaks_property': prop,
            'origin': 'written by an independent sub-agent that saw only the property text and its own scratch worktree of /repo',
            'what_i_ran': 'in a scratch worktree at /repo HEAD: demo.py on the clean tree (exit %s); git apply patch.diff; full test suite (%s); '
                          'demo.py with the patch (exit %s); all 20 quick checks with --repo <worktree>; git checkout -- traph'
                          % (e.get('demo_clean_rc'), e.get('tests'), e.get('demo_patched_rc')),
            'demo_run_as': 'cd <worktree> && PYTHONPATH=<worktree> /venv/bin/python demo.py   (the assert on traph.__file__ names the original scratch path)',
            'checks_reporting_violation': sorted(k for k, v in e.get('detected_by', {}).items() if v['rc'] == 1),
            'checks_analysis_error': sorted(k for k, v in e.get('detected_by', {}).items() if v['rc'] == 2),
            'first_findings': {k: v['findings'][:1] for k, v in e.get('detected_by', {}).items()},
        })
        fp = os.environ.get('FIRST_PASS_DIR')
        if fp and os.path.exists(os.path.join(fp, prop, m + '.json')):
            f1 = json.load(open(os.path.join(fp, prop, m + '.json')))
            meta['first_pass_before_strengthening'] = {'own_property_rc': f1.get('own_property_rc'),
                                                       'checks_reporting_violation': sorted(k for k, v in f1.get('detected_by', {}).items() if v['rc'] == 1)}
        json.dump(meta, open(os.path.join(out, 'meta.json'), 'w'), indent=1)
        print('kept', prop, m, meta['checks_reporting_violation'])
