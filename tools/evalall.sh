#!/bin/sh
# usage: evalall.sh C04 C06 ...
for p in "$@"; do for m in m1 m2 m3; do
 [ -d /tmp/wt/$p/_seed/$m ] || continue
 python3 /verif/tools/seed_eval.py /tmp/wt/$p $m > /tmp/wt/$p/_seed/$m/eval.json 2>/dev/null
 python3 -c "
import json,sys
r=json.load(open('/tmp/wt/$p/_seed/$m/eval.json'))
print(r['property'], r['mutation'], 'confirmed=',r.get('confirmed'), 'own_rc=',r.get('own_property_rc'), 'detected_by=', {k:v['rc'] for k,v in r.get('detected_by',{}).items()})
for k,v in list(r.get('detected_by',{}).items())[:2]:
    for f in v['findings'][:1]: print('    ',k,f[:230])
"
done; done
