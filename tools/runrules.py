import sys, traceback
sys.path.insert(0,'/verif')
from sa.core import *
from sa import rules; rules.load_all()
repo = '/repo'
args = sys.argv[1:]
if args and args[0].startswith('/'):
    repo = args.pop(0)
ctx=Ctx(repo)
for r in args:
  try:
    rr=run_rule(ctx,r)
    print('==',r,'obligations',len(rr.obligations),'fail',len(rr.findings), {k:(v if not isinstance(v,(list,dict)) else '..') for k,v in rr.info.items()})
    for o in rr.obligations:
      if not o['ok']: print('   NOT OK', o['where'], o['what'][:160])
    for f in rr.findings[:8]: print('   F', f.text()[:330])
  except Exception as e:
    print('==',r,'EXC',repr(e)[:300]); traceback.print_exc(limit=4)
