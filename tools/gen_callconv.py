#!/usr/bin/env python3
"""freeze the calling convention of the pinned tree: for every package function / method name with one parameter list, how each
parameter is passed at the call sites of the pinned tree (pos / kw).  The normalizer rewrites calls to this convention, so that the
rules see `self.__add_page(lru, crawled=crawled)` whichever way a refactoring spells it."""
import ast, json, os, sys
sys.path.insert(0, os.path.dirname(os.path.dirname(os.path.abspath(__file__))))
from sa.normalize import signatures, pick_signature
repo = sys.argv[1] if len(sys.argv) > 1 else '/repo'
mods = {}
for root, _, files in os.walk(os.path.join(repo, 'traph')):
    for f in files:
        if f.endswith('.py'):
            p = os.path.join(root, f)
            mods[os.path.relpath(p, repo)] = ast.parse(open(p).read())
sig = signatures(mods)
conv = {}
for tree in mods.values():
    for c in ast.walk(tree):
        if not isinstance(c, ast.Call):
            continue
        name = c.func.attr if isinstance(c.func, ast.Attribute) else (c.func.id if isinstance(c.func, ast.Name) else None)
        if name not in sig or any(isinstance(a, ast.Starred) for a in c.args) or any(k.arg is None for k in c.keywords):
            continue
        params = pick_signature(sig[name], c)
        if params is None:
            continue
        for i, a in enumerate(c.args):
            if i < len(params):
                conv.setdefault(name, {}).setdefault(params[i], set()).add('pos')
        for k in c.keywords:
            if k.arg in params:
                conv.setdefault(name, {}).setdefault(k.arg, set()).add('kw')
out = {n: {p: list(v)[0] for p, v in ps.items() if len(v) == 1} for n, ps in conv.items()}
out = {n: ps for n, ps in out.items() if ps}
json.dump(out, open(os.path.join(os.path.dirname(os.path.dirname(os.path.abspath(__file__))), 'sa', 'callconv.json'), 'w'), indent=0, sort_keys=True)
print(len(out), 'callee names with a convention')
